"""
C19, round 2 — glue around the two extensions and the environment (nunavut/jinja/extensions.py, environment.py):

  * every state of CodeGenEnvironmentBuilder (set_trim_blocks x set_lstrip_blocks x target language) creates an environment whose
    lexer settings are the ones `builderSettings` of the model states (driver op `builder`);
  * what a failed `{% assert %}` reports (message or default message, line of the tag, name of the template that contains
    the tag — also inside an included template) vs `doAssertAt` (driver op `assertat`);
  * the ARGUMENT of ifuses / ifnuses / elifuses / elifnuses as an expression (string literal, variable, None, non-string,
    undefined variable, unknown query) x both polarities vs `useQueryV` (driver op `qv`), and vs the ordinary conditional;
  * the use queries the real target languages register (c, cpp, py): `ifuses "<name>"` == truth of the registered callable.
"""
import itertools

from .common import enc, dec


def _settings(env):
    def o(x):
        return "~" if x is None else enc(x)
    return " ".join([enc(env.block_start_string), enc(env.block_end_string), enc(env.variable_start_string), enc(env.variable_end_string),
                     enc(env.comment_start_string), enc(env.comment_end_string), o(env.line_statement_prefix), o(env.line_comment_prefix),
                     "1" if env.trim_blocks else "0", "1" if env.lstrip_blocks else "0", enc(env.newline_sequence), "1" if env.keep_trailing_newline else "0"])


def run_glue(ctx, drv, bj, sj, fail):
    from nunavut.jinja.environment import CodeGenEnvironmentBuilder
    from nunavut.jinja.extensions import JinjaAssert, UseQuery
    from nunavut.lang import LanguageContextBuilder
    from . import c19

    # ---- builder -> lexer settings ---------------------------------------------------------------------------------
    lctxs = {l: LanguageContextBuilder(include_experimental_languages=True).set_target_language(l).create() for l in (("c", "cpp") if ctx.quick else ("c", "cpp", "py", "html"))}
    reqs, reals = [], []
    for (lang, lctx), trim, lstrip in itertools.product(lctxs.items(), (False, True), (False, True)):
        b = CodeGenEnvironmentBuilder(bj.DictLoader({}), lctx)
        if trim or lstrip or ctx.rng.random() < 0.5:      # the defaults are reached without calling the setters too
            b = b.set_trim_blocks(trim).set_lstrip_blocks(lstrip)
        env = b.create()
        reqs.append(f"builder {int(trim)} {int(lstrip)}")
        reals.append((lang, trim, lstrip, _settings(env), env))
        ctx.case(("builder", lang, trim, lstrip), trim or lstrip)
        exts = sorted(type(x).__name__ for x in env.extensions.values())
        if "JinjaAssert" not in exts or "UseQuery" not in exts or env.undefined is not bj.StrictUndefined:
            ctx.broken.append({"kind": "environment-configuration", "what": "CodeGenEnvironment without the extensions / StrictUndefined the model assumes",
                               "language": lang, "extensions": exts})
        # the lexer Jinja builds for this environment is the one with these settings
        lx = env.lexer
        if (lx.keep_trailing_newline, lx.newline_sequence) != (True, "\n"):
            ctx.disagree("builder-lexer", {"language": lang}, "keep_trailing_newline, \\n", (lx.keep_trailing_newline, lx.newline_sequence))
    if drv is not None:
        for a, (lang, trim, lstrip, real, _e) in zip(drv.ask(reqs), reals):
            ctx.traces += 1
            if a != real:
                ctx.disagree("builder-settings", {"language": lang, "trim_blocks": trim, "lstrip_blocks": lstrip}, a, real)

    # ---- assert: message / default message / line / template name -------------------------------------------------------
    tpl = {}
    cge = CodeGenEnvironmentBuilder(bj.DictLoader(tpl), lctxs["c"]).create()
    cases = []
    for pre_lines, in_include, msg, truthy, split_tag in itertools.product((0, 1, 3), (False, True), (None, "m1", "two words"), (False, True), (False, True)):
        tag = ("{%\n assert x" if split_tag else "{% assert x") + (", " + repr(msg) if msg is not None else "") + " %}"
        body = "l\n" * pre_lines + "ab " + tag + " cd\n"
        lineno = pre_lines + 1 + (1 if split_tag else 0)
        cases.append((body, in_include, msg, truthy, lineno))
    reqs, reals = [], []
    for body, in_include, msg, truthy, lineno in cases:
        tpl.clear()
        if in_include:
            tpl.update({"main.j2": "first\n{% include 'part.j2' %}", "part.j2": body})
            name = "part.j2"
        else:
            tpl.update({"main.j2": body})
            name = "main.j2"
        cge.cache.clear()
        try:
            cge.get_template("main.j2").render(x=truthy)
            got = "ok -"
        except bj.TemplateAssertionError as e:
            got = f"err assertion {enc(e.message)} {e.lineno} {enc(e.name)}"
        except Exception as e:  # noqa: BLE001
            got = "err " + type(e).__name__
        ctx.case(("assert-at", body, in_include, truthy), not truthy)
        reqs.append(f"assertat {int(truthy)} {'~' if msg is None else enc(msg)} {lineno} {enc(name)}")
        reals.append((body, in_include, got))
    if drv is not None:
        for a, (body, inc, got) in zip(drv.ask(reqs), reals):
            ctx.traces += 1
            if a != got:
                ctx.disagree("assert-report", {"template": body, "in_include": inc}, a, got)

    # ---- the argument of ifuses as an expression ------------------------------------------------------------------------
    ns = cge.target_language_uses_queries
    for k in [k for k in vars(ns) if k.startswith("q")]:
        delattr(ns, k)
    setattr(ns, "qt", lambda: True)
    setattr(ns, "qf", lambda: False)
    setattr(ns, "qs", lambda: "non-empty")       # a truthy non-bool result
    setattr(ns, "qz", lambda: 0)                  # a falsy non-bool result
    qmodel = "qt=1,qf=0,qs=1,qz=0".replace("qt", enc("qt")).replace("qf", enc("qf")).replace("qs", enc("qs")).replace("qz", enc("qz"))
    args = [("'qt'", {}, "S:" + enc("qt")), ("'qf'", {}, "S:" + enc("qf")), ("'qs'", {}, "S:" + enc("qs")), ("'qz'", {}, "S:" + enc("qz")),
            ("'nope'", {}, "S:" + enc("nope")), ("''", {}, "S:-"), ("v", {"v": ""}, "S:-"), ("false", {}, "O"), ("0", {}, "O"), ("none", {}, "N"), ("5", {}, "O"), ("v", {"v": "qt"}, "S:" + enc("qt")), ("v", {"v": "qf"}, "S:" + enc("qf")),
            ("v", {"v": None}, "N"), ("v", {"v": 2.5}, "O"), ("v", {"v": ["qt"]}, "O"), ("'q' ~ 't'", {}, "S:" + enc("qt")), ("v", {"v": "zz"}, "S:" + enc("zz"))]
    stock = c19.make_env(sj, {})
    reqs, reals = [], []
    for (arg, cx, marg), op in itertools.product(args, ("ifuses", "ifnuses", "elifuses", "elifnuses")):
        neg = op.endswith("nuses")
        if op.startswith("elif"):
            src = "{% ifuses 'qf' %}X{% " + op + " " + arg + " %}A{% else %}B{% endifuses %}"
        else:
            src = "{% " + op + " " + arg + " %}A{% else %}B{% endifuses %}"
        tpl.clear()
        try:
            got = "ok " + cge.from_string(src).render(**cx)
        except bj.TemplateAssertionError as e:
            got = "err unknown-query-name" if e.message == "Unknown uses_query_name found." else "err assertion " + e.message
        except bj.UndefinedError:
            got = "err undefined"
        except TypeError:
            got = "err type"
        except Exception as e:  # noqa: BLE001
            got = "err " + type(e).__name__
        ctx.case(("uses-arg", op, arg, repr(cx)), True)
        ctx.count("uses-arg:" + got.split(" ")[0] + ":" + (got.split(" ")[1] if got.startswith("err") else ""))
        reqs.append(f"qv {qmodel} {int(neg)} {marg}")
        reals.append((src, cx, got))
        # the property on the implementation: for a string argument the tag is the ordinary conditional over the query result
        if marg.startswith("S:") and dec(marg[2:]) in ("qt", "qf", "qs", "qz"):
            val = getattr(ns, dec(marg[2:]))()
            plain = "{% if " + ("not " if neg else "") + "r %}A{% else %}B{% endif %}"
            want = "ok " + stock.from_string(plain).render(r=val)
            if got != want:
                fail(ctx, {"kind": "ifuses-not-a-conditional"}, "ifuses with an expression argument does not behave as the ordinary conditional over the query result",
                     {"stream": "uses-arg", "source": src, "context": {k: repr(v) for k, v in cx.items()}, "bundled": got, "plain_conditional_stock": want})
    if drv is not None:
        for a, (src, cx, got) in zip(drv.ask(reqs), reals):
            ctx.traces += 1
            model = a
            if a.startswith("ok "):
                model = "ok " + ("A" if a == "ok 1" else "B")
            elif a.startswith("err undefined"):
                model = "err undefined"
            if model != got:
                ctx.disagree("uses-argument", {"source": src, "context": {k: repr(v) for k, v in cx.items()}}, model, got)

    # ---- the queries the real target languages register -------------------------------------------------------------------
    nq = 0
    for lang, lctx in lctxs.items():
        if lang == "html":
            continue
        env = CodeGenEnvironmentBuilder(bj.DictLoader({}), lctx).create()
        qns = env.target_language_uses_queries
        for name, fn in sorted(vars(qns).items()):
            nq += 1
            truth = bool(fn())
            for op in ("ifuses", "ifnuses"):
                got = env.from_string("{% " + op + " '" + name + "' %}A{% else %}B{% endifuses %}").render()
                want = "A" if truth != (op == "ifnuses") else "B"
                ctx.case(("registered-query", lang, name, op), True)
                if got != want:
                    fail(ctx, {"kind": "ifuses-not-a-conditional"}, "ifuses over a registered use query does not follow the query's result",
                         {"stream": "registered-query", "language": lang, "query": name, "tag": op, "bundled": got, "expected": want})
    ctx.extra["registered_use_queries_checked"] = nq
