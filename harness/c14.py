"""
C14 — support-library bit primitives are correct for all offsets, lengths and values (integer/bit part; the
half-float part is in harness/c14_float.py and is called from here so that both end up in one check).

Proof: lean/NunavutVerif/Properties/C14.lean (+ C14Float.lean).  Tie: the *generated* support files of the tree
under check ($VERIF_REPO) — C header (target_endianness any and little; gcc, clang in thorough), C++ header
(c++14/17/20), Python support module (imported with NumPy) — each behind a tiny line-protocol wrapper that puts
every buffer into an exact-size heap allocation (ASan + UBSan on) and again between guard bytes, against the
compiled Lean model (`bits` driver) on the same request lines: corpus, exhaustive small domain, seeded random
larger cases.  Failing-input search: an independent big-integer reference of each primitive's contract
(`Oracle`), evaluated on the implementation's answers; a sanitizer report or a changed guard byte is a failure
of the property on the implementation.
"""
import concurrent.futures
import json
import os
import pathlib
import re
import subprocess
import sys
import time

from . import common

HERE = pathlib.Path(__file__).resolve().parent
SAN = ["-fsanitize=address,undefined", "-fno-sanitize-recover=all", "-fno-omit-frame-pointer"]
SAN_ENV = {"ASAN_OPTIONS": "detect_leaks=1:abort_on_error=0:exitcode=86:allocator_may_return_null=1",
           "UBSAN_OPTIONS": "print_stacktrace=1:halt_on_error=1:exitcode=87"}


# =====================================================================================================
# independent reference of the contracts (big-integer bit arithmetic; shares nothing with the Lean model)
# =====================================================================================================

def hx(b: bytes) -> str:
    return b.hex() if b else "-"


def unhx(s: str) -> bytes:
    return b"" if s == "-" else bytes.fromhex(s)


def le(b: bytes) -> int:
    return int.from_bytes(b, "little")


class Oracle:
    """answer(line) -> the only answer the documented contract allows, or None when the request violates a
    documented precondition (then the implementation is not run)."""

    @staticmethod
    def field(buf: bytes, size: int, off: int, n: int) -> int:
        """zero-extended bit field [off, off+n) of the first `size` bytes"""
        v = le(buf[:size])
        return (v >> off) & ((1 << n) - 1)

    @staticmethod
    def put(buf: bytes, off: int, n: int, value: int) -> bytes:
        m = ((1 << n) - 1) << off
        return ((le(buf) & ~m) | ((value << off) & m)).to_bytes(len(buf), "little")

    def answer(self, line: str):
        t = line.split(" ")
        op = t[0]
        if op.endswith("_le"):
            op = op[:-3]
        if op == "copy":
            dst, d_off, n, src, s_off = unhx(t[1]), int(t[2]), int(t[3]), unhx(t[4]), int(t[5])
            if n and (s_off + n > len(src) * 8 or d_off + n > len(dst) * 8):
                return None
            return "ok " + hx(self.put(dst, d_off, n, (le(src) >> s_off) & ((1 << n) - 1)))
        if op == "sat":
            size, off, n = int(t[1]), int(t[2]), int(t[3])
            return "ok %d" % min(n, max(0, size * 8 - off))
        if op == "getbits":
            out, buf, size, off, n = unhx(t[1]), unhx(t[2]), int(t[3]), int(t[4]), int(t[5])
            nb = (n + 7) // 8
            if nb > len(out) or size > len(buf):
                return None
            return "ok " + hx(self.field(buf, size, off, n).to_bytes(nb, "little") + out[nb:])
        if op == "setbit":
            buf, size, off, v = unhx(t[1]), int(t[2]), int(t[3]), int(t[4])
            if size > len(buf):
                return None
            if size * 8 <= off:
                return "ok -3 " + hx(buf)
            return "ok 0 " + hx(self.put(buf, off, 1, v))
        if op == "getbit":
            buf, size, off = unhx(t[1]), int(t[2]), int(t[3])
            if size > len(buf):
                return None
            return "ok %d" % self.field(buf, size, off, 1)
        if op in ("setu", "seti"):
            buf, size, off, v, n = unhx(t[1]), int(t[2]), int(t[3]), int(t[4]), int(t[5])
            if size > len(buf) or n > 255:
                return None
            if size * 8 < off + n:
                return "ok -3 " + hx(buf)
            return "ok 0 " + hx(self.put(buf, off, min(n, 64), v & ((1 << 64) - 1)))
        if op.startswith("x."):
            return self.answer_cpp(op, t)
        if op.startswith("p."):
            return self.answer_py(op, t)
        m = re.fullmatch(r"get([ui])(8|16|32|64)", op)
        if m:
            buf, size, off, n = unhx(t[1]), int(t[2]), int(t[3]), int(t[4])
            if size > len(buf) or n > 255:
                return None
            w = min(n, int(m.group(2)))
            v = self.field(buf, size, off, w)
            if m.group(1) == "i" and w > 0 and v >> (w - 1):
                v -= 1 << w
            return "ok %d" % v
        return None


    def answer_py(self, op, t):
        """Python Serializer / Deserializer.  Serializer contract: the buffer holds zeros at and above the cursor (true for a
        fresh serializer and kept by every add_*), there is room for the value plus the one spare byte `Serializer.new`
        allocates, the value is in range; then exactly the value's bits are appended.  Deserializer: zero-extended reads."""
        if op == "p.u2b":
            v, n = int(t[1]), int(t[2])
            return None if n < 1 or v < 0 else "ok " + hx((v & ((1 << n) - 1)).to_bytes((n + 7) // 8, "little"))
        if op == "p.slice":
            b, l, r = unhx(t[1]), int(t[2]), int(t[3])
            return None if l > r else "ok " + hx((b[l:r] + bytes(r - l))[: r - l])
        if op == "p.byte":
            b, i = unhx(t[1]), int(t[2])
            return "ok %d" % (b[i] if i < len(b) else 0)
        buf, off = unhx(t[1]), int(t[2])
        ma = re.fullmatch(r"p\.f_([au])arr(8|16|32|64)", op)
        if ma:
            if ma.group(1) == "a" and off % 8:
                return None
            nb = int(t[3]) * int(ma.group(2)) // 8
            return f"ok {hx(self.field(buf, len(buf), off, 8 * nb).to_bytes(nb, 'little'))} {off + 8 * nb}"
        mf = re.fullmatch(r"p\.(add|f)_([au])f(16|32|64)", op)
        if mf and mf.group(1) == "f":           # fetch_*_f16/32/64: the W bits at the cursor, zero extended, as a float
            if mf.group(2) == "a" and off % 8:
                return None
            w = int(mf.group(3))
            return f"ok {hx(self.field(buf, len(buf), off, w).to_bytes(w // 8, 'little'))} {off + w}"
        if op.startswith("p.add") or op == "p.pad":
            if le(buf) >> off:                  # invariant: nothing at or above the cursor
                return None
            aligned = op.startswith(("p.add_a",))
            if aligned and off % 8:
                return None
            if mf:                              # add_*_f16/32/64: exactly the IEEE 754 pattern of the value, whatever came before
                n, val = int(mf.group(3)), float_arg_bits(int(mf.group(3)), t[3])
            elif op in ("p.add_ubytes", "p.add_abytes"):
                v = unhx(t[3]); n = len(v) * 8; val = le(v)
            elif op in ("p.add_ubits", "p.add_abits"):
                bits = "" if t[3] == "-" else t[3]; n = len(bits); val = int(bits[::-1], 2) if bits else 0
            elif op == "p.add_ubit":
                n, val = 1, int(t[3])
            elif op == "p.pad":
                k = int(t[3])
                if k < 1:
                    return None
                n, val = (-off) % k, 0
            elif op in ("p.add_uu", "p.add_auns"):
                val, n = int(t[3]), int(t[4])
                if val < 0 or n < 1:
                    return None
                val &= (1 << n) - 1             # documented: unsigned values are truncated
            elif op in ("p.add_us", "p.add_asig"):
                val, n = int(t[3]), int(t[4])
                if n < 2 or not -(1 << (n - 1)) <= val < (1 << (n - 1)):
                    return None
                val &= (1 << n) - 1
            else:
                m = re.fullmatch(r"p\.add_a([ui])(8|16|32|64)", op)
                if not m:
                    return None
                n, val = int(m.group(2)), int(t[3])
                if m.group(1) == "u" and not 0 <= val < (1 << n):
                    return None
                if m.group(1) == "i" and not -(1 << (n - 1)) <= val < (1 << (n - 1)):
                    return None
                val &= (1 << n) - 1
            # room: the bytes touched are those of [off, off+n) plus, for the unaligned byte loop, the spare byte
            spare = 0 if aligned or op in ("p.add_ubit", "p.pad") else 1
            if n and (off + n + 7) // 8 + spare > len(buf):
                return None
            if not n and op not in ("p.add_ubytes", "p.add_abytes", "p.add_ubits", "p.add_abits", "p.pad"):
                return None
            return f"ok {hx((le(buf) | (val << off)).to_bytes(len(buf), 'little'))} {off + n}"
        # deserializer
        aligned = op.startswith("p.f_a")
        if aligned and off % 8:
            return None
        if op in ("p.f_ubytes", "p.f_abytes"):
            c = int(t[3])
            return f"ok {hx(self.field(buf, len(buf), off, 8 * c).to_bytes(c, 'little'))} {off + 8 * c}"
        if op in ("p.f_ubits", "p.f_abits"):
            c = int(t[3]); v = self.field(buf, len(buf), off, c)
            return f"ok {''.join(str(v >> i & 1) for i in range(c)) or '-'} {off + c}"
        if op == "p.f_ubit":
            return f"ok {self.field(buf, len(buf), off, 1)} {off + 1}"
        if op == "p.f_pad":
            k = int(t[3])
            return None if k < 1 else f"ok {off + (-off) % k}"
        if op in ("p.f_uu", "p.f_auns", "p.f_us", "p.f_asig"):
            n = int(t[3]); signed = op in ("p.f_us", "p.f_asig")
            if n < (2 if signed else 1):
                return None
        else:
            m = re.fullmatch(r"p\.f_a([ui])(8|16|32|64)", op)
            if not m:
                return None
            n, signed = int(m.group(2)), m.group(1) == "i"
        v = self.field(buf, len(buf), off, n)
        if signed and v >> (n - 1):
            v -= 1 << n
        return f"ok {v} {off + n}"

    def answer_cpp(self, op, t):
        """C++ bitspan: a span is (data, offset_bits); size() = max(0, 8*len(data) - offset)"""
        if op == "x.copy":
            dst, d_off, src, s_off, n = unhx(t[1]), int(t[2]), unhx(t[3]), int(t[4]), int(t[5])
            n = min(n, max(0, len(src) * 8 - s_off))           # documented clamp to the source size
            if n and d_off + n > len(dst) * 8:                   # asserted precondition length_bits <= dst.size()
                return None
            return "ok " + hx(self.put(dst, d_off, n, (le(src) >> s_off) & ((1 << n) - 1)))
        if op == "x.getbits":
            src, s_off, out, n = unhx(t[1]), int(t[2]), unhx(t[3]), int(t[4])
            nb = (n + 7) // 8
            if nb > len(out):
                return None
            return "ok " + hx(self.field(src, len(src), s_off, n).to_bytes(nb, "little") + out[nb:])
        if op == "x.setzeros":
            d, off, n = unhx(t[1]), int(t[2]), int(t[3])
            if n > max(0, len(d) * 8 - off):
                return "ok -3 " + hx(d)
            return "ok 0 " + hx(self.put(d, off, n, 0))
        if op == "x.pad":
            d, off, n = unhx(t[1]), int(t[2]), int(t[3])
            if not 0 < n < 256:
                return None
            if off % n == 0:
                return f"ok 0 {hx(d)} {off}"
            p = n - off % n
            if p > max(0, len(d) * 8 - off):
                return f"ok -3 {hx(d)} {off}"
            return f"ok 0 {hx(self.put(d, off, p, 0))} {off + p}"
        if op == "x.subspan":
            d, off, at, n = unhx(t[1]), int(t[2]), int(t[3]), int(t[4])
            if len(d) * 8 < off + at + n:
                return "ok -3 0 0 0"
            first, noff = divmod(off + at, 8)
            nb = (noff + n) // 8
            return f"ok 0 {first if nb else '-'} {nb} {noff}"     # an empty window has no observable first byte
        if op == "x.setbit":
            d, off, v = unhx(t[1]), int(t[2]), int(t[3])
            if len(d) * 8 <= off:
                return "ok -3 " + hx(d)
            return "ok 0 " + hx(self.put(d, off, 1, v))
        if op == "x.getbit":
            d, off = unhx(t[1]), int(t[2])
            return "ok %d" % self.field(d, len(d), off, 1)
        if op in ("x.setu", "x.seti"):
            d, off, v, n = unhx(t[1]), int(t[2]), int(t[3]), int(t[4])
            if n > 255:
                return None
            if len(d) * 8 < off + n:
                return "ok -3 " + hx(d)
            return "ok 0 " + hx(self.put(d, off, min(n, 64), v & ((1 << 64) - 1)))
        m = re.fullmatch(r"x\.get([ui])(8|16|32|64)", op)
        if m:
            d, off, n = unhx(t[1]), int(t[2]), int(t[3])
            if n > 255:
                return None
            w = min(n, int(m.group(2)))
            v = self.field(d, len(d), off, w)
            if m.group(1) == "i" and w > 0 and v >> (w - 1):
                v -= 1 << w
            return "ok %d" % v
        return None


# =====================================================================================================
# case generation
# =====================================================================================================

def patterns(rng, n, k):
    """three content patterns for an n-byte buffer"""
    if k == 0:
        return bytes(n)
    if k == 1:
        return bytes([0xFF]) * n
    return bytes(rng.getrandbits(8) for _ in range(n))


def c_cases(ctx):
    """(line, stream) for the C primitives: exhaustive small domain, then random larger cases."""
    rng = ctx.rng
    if ctx.quick:
        offs, lens, sizes = range(0, 18), list(range(0, 41)) + [63, 64, 65, 255], range(0, 9)
    else:
        offs, lens, sizes = range(0, 24), list(range(0, 81)) + [255], range(0, 13)
    out = []
    # getters / setters / getbits: offsets x lengths x sizes x 3 patterns
    getters = ["getu8", "getu16", "getu32", "getu64", "geti8", "geti16", "geti32", "geti64"]
    for size in sizes:
        for k in range(3):
            for off in offs:
                for n in lens:
                    buf = patterns(rng, size, k)
                    h = hx(buf)
                    for g in getters:
                        out.append((f"{g} {h} {size} {off} {n}", "exh"))
                    # setters: the value pattern is the opposite of the buffer pattern
                    val = [(1 << 64) - 1, 0, rng.getrandbits(64)][k]
                    out.append((f"setu {h} {size} {off} {val} {n}", "exh"))
                    ival = [-1, 0, rng.getrandbits(64) - (1 << 63)][k]
                    out.append((f"seti {h} {size} {off} {ival} {n}", "exh"))
                    nb = (n + 7) // 8
                    o = patterns(rng, nb + 1, [1, 0, 2][k])
                    out.append((f"getbits {hx(o)} {h} {size} {off} {n}", "exh"))
                buf = patterns(rng, size, k)
                out.append((f"getbit {hx(buf)} {size} {off}", "exh"))
                out.append((f"setbit {hx(buf)} {size} {off} {[1, 0, rng.getrandbits(1)][k]}", "exh"))
                out.append((f"sat {size} {off} {off * 3 % 50}", "exh"))
    # copyBits: source offset x destination offset x length x 3 patterns, tightest buffers (+ one with slack)
    for s_off in offs:
        for d_off in offs:
            for n in lens:
                k = (s_off + d_off + n) % 3
                slack = 1 if (s_off * 7 + d_off * 3 + n) % 5 == 0 else 0
                ns, nd = (s_off + n + 7) // 8 + slack, (d_off + n + 7) // 8 + slack
                if n == 0:
                    ns, nd = slack, slack  # nothing is accessed: even empty buffers are fine
                src = patterns(rng, ns, 2 if k != 1 else 0)
                dst = patterns(rng, nd, k)
                out.append((f"copy {hx(dst)} {d_off} {n} {hx(src)} {s_off}", "exh"))
    nexh = len(out)
    # random larger cases
    nrand = 20000 if ctx.quick else 400000
    ops = getters + ["setu", "seti", "getbits", "copy", "setbit", "getbit"]
    for _ in range(nrand):
        op = rng.choice(ops)
        size = rng.choice([0, 1, 2, 3, 7, 8, 9, 16, 31, 32, 33, 64, 100])
        alloc = size + rng.choice([0, 0, 0, 1, 5])          # buf_size_bytes may be smaller than the object
        buf = bytes(rng.getrandbits(8) for _ in range(alloc))
        off = rng.choice([rng.randrange(0, size * 8 + 20), rng.randrange(0, 2000), size * 8, max(0, size * 8 - 1)])
        n = rng.choice([rng.randrange(0, 256), rng.randrange(0, 70), 64, 65, 0, 1])
        h = hx(buf)
        if op.startswith("get") and op not in ("getbits", "getbit"):
            out.append((f"{op} {h} {size} {off} {n}", "rnd"))
        elif op == "setu":
            out.append((f"setu {h} {size} {off} {rng.getrandbits(rng.choice([1, 8, 33, 64]))} {n}", "rnd"))
        elif op == "seti":
            out.append((f"seti {h} {size} {off} {rng.getrandbits(64) - (1 << 63)} {n}", "rnd"))
        elif op == "getbits":
            n = rng.randrange(0, 600)
            o = bytes(rng.getrandbits(8) for _ in range((n + 7) // 8 + rng.choice([0, 0, 1, 3])))
            out.append((f"getbits {hx(o)} {h} {size} {off} {n}", "rnd"))
        elif op == "copy":
            n = rng.randrange(0, 700)
            s_off, d_off = rng.randrange(0, 100), rng.randrange(0, 100)
            if rng.random() < 0.3:
                s_off, d_off = s_off // 8 * 8, d_off // 8 * 8
            src = bytes(rng.getrandbits(8) for _ in range((s_off + n + 7) // 8 + rng.choice([0, 0, 2])))
            dst = bytes(rng.getrandbits(8) for _ in range((d_off + n + 7) // 8 + rng.choice([0, 0, 2])))
            out.append((f"copy {hx(dst)} {d_off} {n} {hx(src)} {s_off}", "rnd"))
        elif op == "setbit":
            out.append((f"setbit {h} {size} {off} {rng.getrandbits(1)}", "rnd"))
        else:
            out.append((f"getbit {h} {size} {off}", "rnd"))
    return out, nexh, nrand


def cpp_cases(ctx):
    rng = ctx.rng
    if ctx.quick:
        offs, lens, sizes = range(0, 18), list(range(0, 41)) + [63, 64, 65, 255], range(0, 9)
    else:
        offs, lens, sizes = range(0, 24), list(range(0, 81)) + [255], range(0, 13)
    out = []
    getters = ["x.getu8", "x.getu16", "x.getu32", "x.getu64", "x.geti8", "x.geti16", "x.geti32", "x.geti64"]
    for size in sizes:
        for k in range(3):
            for off in offs:
                for n in lens:
                    h = hx(patterns(rng, size, k))
                    for g in getters:
                        out.append((f"{g} {h} {off} {n}", "exh"))
                    val = [(1 << 64) - 1, 0, rng.getrandbits(64)][k]
                    out.append((f"x.setu {h} {off} {val} {n}", "exh"))
                    ival = [-1, 0, rng.getrandbits(64) - (1 << 63)][k]
                    out.append((f"x.seti {h} {off} {ival} {n}", "exh"))
                    o = patterns(rng, (n + 7) // 8 + 1, [1, 0, 2][k])
                    out.append((f"x.getbits {h} {off} {hx(o)} {n}", "exh"))
                    # setZeros on ones / random / ones (zeros would hide everything)
                    hz = hx(patterns(rng, size, [1, 2, 1][k]))
                    out.append((f"x.setzeros {hz} {off} {n}", "exh"))
                h = hx(patterns(rng, size, k))
                out.append((f"x.getbit {h} {off}", "exh"))
                out.append((f"x.setbit {h} {off} {[1, 0, rng.getrandbits(1)][k]}", "exh"))
                hz = hx(patterns(rng, size, [1, 2, 1][k]))
                for n in (1, 3, 7, 8, 16, 32, 64, 255):
                    out.append((f"x.pad {hz} {off} {n}", "exh"))
                for at in (0, 1, 7, 8, 13):
                    for n in (0, 1, 8, 9, 16, 8 * size, max(0, 8 * size - off - at)):
                        out.append((f"x.subspan {h} {off} {at} {n}", "exh"))
    for s_off in offs:
        for d_off in offs:
            for n in lens:
                k = (s_off + d_off + n) % 3
                slack = 1 if (s_off * 7 + d_off * 3 + n) % 5 == 0 else 0
                ns, nd = (s_off + n + 7) // 8 + slack, (d_off + n + 7) // 8 + slack
                src = patterns(rng, ns, 2 if k != 1 else 0)
                dst = patterns(rng, nd, k)
                # every third request asks for more than the source holds: the clamp must apply
                ask = n + (5 if (s_off + n) % 3 == 0 and slack == 0 and (s_off + n) % 8 == 0 else 0)
                out.append((f"x.copy {hx(dst)} {d_off} {hx(src)} {s_off} {ask}", "exh"))
    nexh = len(out)
    nrand = 15000 if ctx.quick else 300000
    ops = getters + ["x.setu", "x.seti", "x.getbits", "x.copy", "x.setbit", "x.getbit", "x.setzeros", "x.setzeros", "x.pad", "x.subspan"]
    for _ in range(nrand):
        op = rng.choice(ops)
        size = rng.choice([0, 1, 2, 3, 7, 8, 9, 16, 31, 32, 33, 64, 100])
        d = bytes(rng.getrandbits(8) for _ in range(size))
        off = rng.choice([rng.randrange(0, size * 8 + 20), rng.randrange(0, 2000), size * 8, max(0, size * 8 - 1)])
        n = rng.choice([rng.randrange(0, 256), rng.randrange(0, 70), 64, 65, 0, 1])
        h = hx(d)
        if op.startswith(("x.getu", "x.geti")):
            out.append((f"{op} {h} {off} {n}", "rnd"))
        elif op == "x.setu":
            out.append((f"x.setu {h} {off} {rng.getrandbits(rng.choice([1, 8, 33, 64]))} {n}", "rnd"))
        elif op == "x.seti":
            out.append((f"x.seti {h} {off} {rng.getrandbits(64) - (1 << 63)} {n}", "rnd"))
        elif op == "x.getbits":
            n = rng.randrange(0, 600)
            o = bytes(rng.getrandbits(8) for _ in range((n + 7) // 8 + rng.choice([0, 0, 1, 3])))
            out.append((f"x.getbits {h} {off} {hx(o)} {n}", "rnd"))
        elif op == "x.copy":
            n = rng.randrange(0, 700)
            s_off, d_off = rng.randrange(0, 100), rng.randrange(0, 100)
            if rng.random() < 0.3:
                s_off, d_off = s_off // 8 * 8, d_off // 8 * 8
            src = bytes(rng.getrandbits(8) for _ in range((s_off + n + 7) // 8 + rng.choice([0, 0, 2])))
            dst = bytes(rng.getrandbits(8) for _ in range((d_off + n + 7) // 8 + rng.choice([0, 0, 2])))
            out.append((f"x.copy {hx(dst)} {d_off} {hx(src)} {s_off} {n + rng.choice([0, 0, 1, 1000])}", "rnd"))
        elif op == "x.setbit":
            out.append((f"x.setbit {h} {off} {rng.getrandbits(1)}", "rnd"))
        elif op == "x.getbit":
            out.append((f"x.getbit {h} {off}", "rnd"))
        elif op == "x.setzeros":
            out.append((f"x.setzeros {h} {off} {rng.choice([n, rng.randrange(0, size * 8 + 9)])}", "rnd"))
        elif op == "x.pad":
            out.append((f"x.pad {h} {off} {rng.choice([8, 16, 32, 64, rng.randrange(1, 256)])}", "rnd"))
        else:
            out.append((f"x.subspan {h} {off} {rng.randrange(0, 80)} {rng.randrange(0, size * 8 + 20)}", "rnd"))
    return out, nexh, nrand


LE_OPS = re.compile(r"^(setu|seti|get[ui](?:8|16|32|64)) ")


def to_le(line: str) -> str:
    """the request for the `target_endianness: little` rendering"""
    return LE_OPS.sub(lambda m: m.group(1) + "_le ", line)


def nontrivial(line: str) -> bool:
    t = line.split(" ")
    op = t[0]
    try:
        if op == "x.copy":
            return int(t[5]) > 0 and t[3] != "-" and (int(t[2]) % 8 != 0 or int(t[4]) % 8 != 0 or int(t[5]) % 8 != 0)
        if op == "x.getbits":
            return int(t[4]) > 0 and t[1] != "-"
        if op.startswith("x."):
            return t[1] != "-" and (len(t) < 4 or int(t[-1]) > 0)
        if op.startswith("p."):
            return t[1] != "-" and t[-1] not in ("0", "-")
        if op in ("copy",):
            return int(t[3]) > 0 and (int(t[2]) % 8 != 0 or int(t[5]) % 8 != 0 or int(t[3]) % 8 != 0)
        if op == "sat":
            return True
        if op.startswith("getbits"):
            return int(t[5]) > 0 and t[2] != "-"
        if op.startswith(("setbit", "getbit")):
            return t[1] != "-"
        if op.startswith(("setu", "seti")):
            return int(t[5]) > 0 and t[1] != "-"
        return int(t[4]) > 0 and t[1] != "-"
    except (ValueError, IndexError):
        return True


# =====================================================================================================
# implementations
# =====================================================================================================

def nnvg(ctx, lang, out, extra=()):
    ns = ctx.scratch / "ns"
    if not ns.exists():
        ns.mkdir()
        (ns / "A.1.0.dsdl").write_text("uint8 x\n@sealed\n")
    env = dict(os.environ, PYTHONPATH=str(common.REPO / "src"))
    cmd = [common.PY, "-m", "nunavut", "--target-language", lang, "--experimental-languages", "--generate-support", "only",
           "-O", str(out)] + list(extra) + [str(ns)]
    p = subprocess.run(cmd, env=env, capture_output=True, text=True, timeout=300)
    if p.returncode != 0:
        raise RuntimeError(f"nnvg failed: {' '.join(cmd)}\n{p.stderr[-2000:]}")


def op_of(line):
    op = line.split(" ", 1)[0]
    return op[:-3] if op.endswith("_le") else op


class Program:
    """A compiled line-protocol wrapper around a generated support library."""

    def __init__(self, name, exe, rewrite=None, accepts=None):
        self.name, self.exe, self.rewrite, self.accepts = name, exe, rewrite, accepts

    def ask(self, lines, timeout=1500):
        """answers (same length as lines); a crash is answered 'CRASH <what>' and the program restarted after it; an
        operation that keeps crashing is no longer called ('SKIPPED')."""
        answers = [None] * len(lines)
        pending = list(range(len(lines)))
        crashes, total = {}, 0
        env = dict(os.environ, **SAN_ENV)
        while pending:
            data = ("\n".join(lines[i] for i in pending) + "\n").encode()
            p = subprocess.run([str(self.exe)], input=data, capture_output=True, timeout=timeout, env=env)
            got = p.stdout.decode(errors="replace").split("\n")
            if got and got[-1] == "":
                got.pop()
            got = got[: len(pending)]
            for j, a in enumerate(got):
                answers[pending[j]] = a
            if p.returncode == 0 and len(got) == len(pending):
                break
            err = p.stderr.decode(errors="replace")
            m = re.search(r"(ERROR: AddressSanitizer: [^\n]*|runtime error: [^\n]*|ERROR: LeakSanitizer[^\n]*|Assertion[^\n]*)", err)
            what = m.group(1) if m else f"exit {p.returncode}: {err[-300:]}"
            if len(got) == len(pending):            # all answered, died at exit (e.g. a leak report)
                answers[pending[-1]] += " | CRASH-AT-EXIT " + what
                break
            i = pending[len(got)]                   # died on the first unanswered request
            answers[i] = "CRASH " + what
            op = op_of(lines[i])
            crashes[op] = crashes.get(op, 0) + 1
            total += 1
            pending = pending[len(got) + 1:]
            if crashes[op] >= 6 or total >= 60:
                drop = (lambda k: True) if total >= 60 else (lambda k: op_of(lines[k]) == op)
                for k in pending:
                    if drop(k):
                        answers[k] = "SKIPPED"
                pending = [k for k in pending if answers[k] is None]
        return answers


def build_c(ctx):
    """generate + compile the C wrappers; returns [Program]"""
    variants = [("any", []), ("little", ["--target-endianness", "little"])]
    compilers = ["gcc"] if ctx.quick else ["gcc", "clang"]
    jobs = []
    for vname, extra in variants:
        out = ctx.scratch / f"c_{vname}"
        nnvg(ctx, "c", out, extra)
        for cc in compilers:
            exe = ctx.scratch / f"c14_{vname}_{cc}"
            cmd = [cc, "-std=c11", "-O1", "-g", "-Wall", "-Wextra"] + SAN + ["-I", str(out), str(HERE / "c" / "c14_main.c"), "-o", str(exe)]
            jobs.append((f"c-{vname}-{cc}", exe, cmd, to_le if vname == "little" else None))
    if not ctx.quick:
        # the same header with its own assertions switched on (NUNAVUT_ASSERT = assert)
        out = ctx.scratch / "c_asserts"
        nnvg(ctx, "c", out, ["--enable-serialization-asserts"])
        exe = ctx.scratch / "c14_asserts_gcc"
        cmd = ["gcc", "-std=c11", "-O1", "-g", "-DNUNAVUT_ASSERT=assert"] + SAN + ["-I", str(out), str(HERE / "c" / "c14_main.c"), "-o", str(exe)]
        jobs.append(("c-any-asserts-gcc", exe, cmd, None))
    return jobs


def compile_all(ctx, jobs):
    progs = []
    with concurrent.futures.ThreadPoolExecutor(max_workers=8) as ex:
        futs = {ex.submit(subprocess.run, cmd, capture_output=True, text=True, timeout=600): (name, exe, rw) for name, exe, cmd, rw in jobs}
        for f, (name, exe, rw) in futs.items():
            p = f.result()
            if p.returncode != 0:
                # the generated header does not build: the tie is broken, not silently skipped
                ctx.broken.append({"kind": "impl-build", "target": name, "log_tail": (p.stdout + p.stderr)[-2500:]})
            else:
                progs.append(Program(name, exe, rw))
    progs.sort(key=lambda p: p.name)
    return progs


# =====================================================================================================
# comparison
# =====================================================================================================

def compare(ctx, target, lines, streams, model, oracle_ans, impl):
    """model: Lean answers (or None), oracle_ans: contract answers, impl: implementation answers."""
    nfail = 0
    for line, st, m, o, a in zip(lines, streams, model, oracle_ans, impl):
        if a == "SKIPPED":
            ctx.count(f"skipped-after-repeated-crashes:{target}")
            continue
        ctx.traces += 1 if m is not None else 0
        if m is not None and a != m:
            ctx.disagree(f"{target}:{st}", line, m, a)
        if a != o:
            nfail += 1
            if a.startswith("CRASH") or "CRASH-AT-EXIT" in a:
                key = {"kind": "sanitizer", "target": target.split("-")[0], "op": op_of(line)}
                what = "sanitizer report / crash inside a support-library primitive called within its documented contract"
            elif a.startswith(("GUARD", "MISMATCH")):
                key = {"kind": "guard-bytes", "target": target.split("-")[0], "op": op_of(line)}
                what = "a primitive changed bytes outside the buffer it was given (guard bytes) or depends on what lies outside"
            else:
                key = {"kind": "contract", "target": target.split("-")[0], "op": op_of(line)}
                what = "a support-library primitive does not meet its documented contract (reference: big-integer bit arithmetic)"
            ctx.fail(key, what, {"target": target, "request": line, "observed": a, "expected": o, "model": m})
    return nfail


def run_c(ctx, drv):
    cases, nexh, nrand = c_cases(ctx)
    corpus = load_corpus("c")
    lines = [c for c in corpus] + [c for c, _ in cases]
    streams = ["corpus"] * len(corpus) + [s for _, s in cases]
    orc = Oracle()
    oracle_ans = [orc.answer(l) for l in lines]
    keep = [i for i, o in enumerate(oracle_ans) if o is not None]
    lines = [lines[i] for i in keep]; streams = [streams[i] for i in keep]; oracle_ans = [oracle_ans[i] for i in keep]
    ctx.extra.setdefault("domain", {})["c"] = {"corpus": len(corpus), "exhaustive_cases": nexh, "random_cases": nrand,
                                               "requests": len(lines)}
    for l in lines:
        ctx.case(l, nontrivial(l))
        ctx.count("c:" + op_of(l))
    le_lines = [to_le(l) for l in lines]
    model_any = drv.ask(lines, timeout=1500) if drv else [None] * len(lines)
    # only the requests whose text differs need a second model run
    le_idx = [i for i, (a, b) in enumerate(zip(lines, le_lines)) if a != b]
    model_le = list(model_any)
    if drv:
        for i, a in zip(le_idx, drv.ask([le_lines[i] for i in le_idx], timeout=1500)):
            model_le[i] = a
    progs = compile_all(ctx, build_c(ctx))
    with concurrent.futures.ThreadPoolExecutor(max_workers=6) as ex:
        futs = [(p, ex.submit(p.ask, le_lines if p.rewrite else lines)) for p in progs]
        for p, f in futs:
            impl = f.result()
            n = compare(ctx, p.name, le_lines if p.rewrite else lines, streams, model_le if p.rewrite else model_any, oracle_ans, impl)
            ctx.count(f"target:{p.name}", len(lines))
            ctx.extra.setdefault("targets", {})[p.name] = {"requests": len(lines), "contract_failures": n}
    for i in (0, len(lines) // 3, len(lines) - 1):
        ctx.sample({"request": lines[i], "answer": oracle_ans[i]})


def build_cpp(ctx):
    out = ctx.scratch / "cpp"
    nnvg(ctx, "cpp", out)
    stds = ["c++14"] if ctx.quick else ["c++14", "c++17", "c++20"]
    compilers = ["g++"] if ctx.quick else ["g++", "clang++"]
    jobs = []
    for std in stds:
        for cc in compilers:
            if cc == "clang++" and std != "c++17":
                continue
            exe = ctx.scratch / f"c14_cpp_{std.replace('+', 'p')}_{cc.replace('+', 'p')}"
            cmd = [cc, f"-std={std}", "-O1", "-g", "-Wall", "-Wextra"] + SAN + ["-I", str(out), str(HERE / "cpp" / "c14_main.cpp"), "-o", str(exe)]
            jobs.append((f"cpp-{std}-{cc}", exe, cmd, None))
    if not ctx.quick:
        out2 = ctx.scratch / "cpp_asserts"
        nnvg(ctx, "cpp", out2, ["--enable-serialization-asserts"])
        exe = ctx.scratch / "c14_cpp_asserts"
        cmd = ["g++", "-std=c++17", "-O1", "-g", "-DNUNAVUT_ASSERT=assert", "-include", "cassert"] + SAN + ["-I", str(out2), str(HERE / "cpp" / "c14_main.cpp"), "-o", str(exe)]
        jobs.append(("cpp-c++17-asserts-g++", exe, cmd, None))
    return jobs


def run_cpp(ctx, drv):
    cases, nexh, nrand = cpp_cases(ctx)
    corpus = load_corpus("cpp")
    lines = list(corpus) + [c for c, _ in cases]
    streams = ["corpus"] * len(corpus) + [s for _, s in cases]
    orc = Oracle()
    oracle_ans = [orc.answer(l) for l in lines]
    keep = [i for i, o in enumerate(oracle_ans) if o is not None]
    lines = [lines[i] for i in keep]; streams = [streams[i] for i in keep]; oracle_ans = [oracle_ans[i] for i in keep]
    ctx.extra.setdefault("domain", {})["cpp"] = {"corpus": len(corpus), "exhaustive_cases": nexh, "random_cases": nrand,
                                                 "requests": len(lines)}
    for l in lines:
        ctx.case(l, nontrivial(l))
        ctx.count("cpp:" + op_of(l))
    model = drv.ask(lines, timeout=1500) if drv else [None] * len(lines)
    progs = compile_all(ctx, build_cpp(ctx))
    with concurrent.futures.ThreadPoolExecutor(max_workers=6) as ex:
        futs = [(p, ex.submit(p.ask, lines)) for p in progs]
        for p, f in futs:
            impl = f.result()
            n = compare(ctx, p.name, lines, streams, model, oracle_ans, impl)
            ctx.count(f"target:{p.name}", len(lines))
            ctx.extra.setdefault("targets", {})[p.name] = {"requests": len(lines), "contract_failures": n}
    ctx.sample({"request": lines[len(lines) // 2], "answer": oracle_ans[len(lines) // 2]})


# ---------------------------------------------------------------------------------------------------- Python
import struct

FLOAT_FMT = {16: "<e", 32: "<f", 64: "<d"}


def ref_pack(w, x):
    """IEEE 754 little-endian pattern of a Python float at width w (reference: the interpreter's own struct; a finite value
    beyond the range becomes an infinity, as the support library documents)"""
    try:
        return struct.pack(FLOAT_FMT[w], x)
    except OverflowError:
        return struct.pack(FLOAT_FMT[w], float("inf") if x > 0 else float("-inf"))


def float_arg(w, arg):
    """the Python float a request denotes: `<hex>` = pattern at width w, `d:<hex>` = binary64 pattern (to be converted)"""
    if arg.startswith("d:"):
        return struct.unpack("<d", int(arg[2:], 16).to_bytes(8, "little"))[0]
    return struct.unpack(FLOAT_FMT[w], int(arg, 16).to_bytes(w // 8, "little"))[0]


def float_arg_bits(w, arg):
    return le(ref_pack(w, float_arg(w, arg)))


def float_patterns(w):
    """special patterns of width w (only those the interpreter's struct round-trips bit for bit, e.g. no signalling NaNs
    where the conversion through binary64 quiets them)"""
    e, m = {16: (5, 10), 32: (8, 23), 64: (11, 52)}[w]
    sign, emax = 1 << (w - 1), ((1 << e) - 1) << m
    base = [0, 1, (1 << m) - 1, 1 << m, (1 << m) + 1, ((1 << (e - 1)) - 1) << m, (((1 << (e - 1)) - 1) << m) | (1 << (m - 1)),
            emax - (1 << m) + ((1 << m) - 1), emax, emax | (1 << (m - 1)), emax | (1 << (m - 1)) | 5, emax | (1 << (m - 1)) | ((1 << (m - 1)) - 1)]
    out = []
    for b in base:
        for v in (b, b | sign):
            raw = v.to_bytes(w // 8, "little")
            if struct.pack(FLOAT_FMT[w], struct.unpack(FLOAT_FMT[w], raw)[0]) == raw:
                out.append(v)
    return out


def py_float_cases(ctx):
    """The float wrappers add_*_f16/32/64 / fetch_*_f16/32/64.  The ORDER of these requests matters: they are executed one
    after the other in one interpreter (state that survives between calls, e.g. a cache keyed on float equality where
    0.0 == -0.0, must not influence a result), so every special value is followed by its negation and vice versa,
    forwards, backwards, repeated, and in seeded random orders."""
    rng = ctx.rng
    out = []
    rounds = 2 if ctx.quick else 6
    for w in (16, 32, 64):
        pats = float_patterns(w)
        seqs = [pats, pats[::-1], [p ^ (1 << (w - 1)) for p in pats], pats + pats]
        for _ in range(rounds):
            sh = list(pats)
            rng.shuffle(sh)
            seqs.append(sh)
        for seq in seqs:
            for v in seq:
                off = rng.choice([0, 8, 16, 3, 5, 13])
                nb = (off + w + 7) // 8 + 1
                hs = hx(ser_buf(rng, nb, off, 2))
                kind = "a" if off % 8 == 0 and rng.random() < 0.6 else "u"
                out.append((f"p.add_{kind}f{w} {hs} {off} {v:x}", "float-seq"))
                # read the same pattern back from an arbitrary position (also past the end: zero extension)
                raw = (le(patterns(rng, nb, 2)) & ~(((1 << w) - 1) << off)) | (v << off)
                hd = hx((raw & ((1 << (8 * nb)) - 1)).to_bytes(nb, "little"))
                out.append((f"p.f_{kind}f{w} {hd} {off}", "float-seq"))
        # values that are converted (binary64 -> narrower): rounding, overflow to infinity, underflow to signed zero
        if w < 64:
            for x in (0.1, -0.1, 1e-50, -1e-50, 1e300, -1e300, 65504.0, 65520.0, -65520.0, 3.4028235677973366e38, 1.0 + 2 ** -11,
                      2 ** -24, 2 ** -25, -(2 ** -25), 2 ** -149, 2 ** -150, -(2 ** -150)):
                d = le(struct.pack("<d", x))
                for off in (0, 3):
                    hs = hx(ser_buf(rng, (off + w + 7) // 8 + 1, off, 2))
                    out.append((f"p.add_uf{w} {hs} {off} d:{d:x}", "float-seq"))
                    # ... and its negation right after it
                    out.append((f"p.add_uf{w} {hs} {off} d:{d ^ (1 << 63):x}", "float-seq"))
    return out


def py_alias_cases(ctx):
    """Results are independent objects: every array a fetch returns is modified in place by the wrapper (as an application
    may do), then the same kind of read is repeated on a FRESH deserializer.  Executed first in the interpreter, in this
    order, so that a failing record carries its complete history.  Covers reads wholly past the end (zero extension of
    a truncated message), partly past the end, and inside the buffer."""
    rng = ctx.rng
    out = []
    for size in (0, 1, 3):
        h = hx(patterns(rng, size, 2))
        for start in (size, size + 1, size + 9, max(0, size - 1), 0):       # byte index where the read starts
            off = start * 8
            for count in (1, 2, 4, 8, 64, 65):
                out.append(f"p.f_abytes {h} {off} {count}")                 # result gets modified in place
                out.append(f"p.f_abytes {h} {off} {count}")                 # same read again, fresh deserializer
                out.append(f"p.slice {h} {start} {start + count}")
                out.append(f"p.f_ubytes {h} {off} {count}")                 # aligned cursor: delegates to the aligned path
                out.append(f"p.f_ubytes {h} {off + 3} {count}")
            for w in (8, 16, 32, 64):
                out.append(f"p.f_aarr{w} {h} {off} 3")
                out.append(f"p.f_aarr{w} {h} {off} 3")
                out.append(f"p.f_uarr{w} {h} {off + 5} 2")
                out.append(f"p.f_au{w} {h} {off}")
                out.append(f"p.f_ai{w} {h} {off}")
            for n in (1, 7, 8, 9, 33, 64):
                out.append(f"p.f_abits {h} {off} {n}")
                out.append(f"p.f_abits {h} {off} {n}")
                out.append(f"p.f_auns {h} {off} {n}")
                out.append(f"p.f_uu {h} {off} {n}")
                out.append(f"p.f_ubits {h} {off} {n}")
            for w in (16, 32, 64):
                out.append(f"p.f_af{w} {h} {off}")
                out.append(f"p.f_uf{w} {h} {off}")
    return [(l, "alias-seq") for l in out]


def py_model_line(line):
    """The float wrappers are `struct.pack` (an external function, parameter of the model) followed by add_*_bytes, and
    fetch_*_bytes followed by `struct.unpack`: the model is asked for the byte-level operation."""
    t = line.split(" ")
    ma = re.fullmatch(r"p\.f_([au])arr(8|16|32|64)", t[0])
    if ma:      # array of standard primitives (little-endian host) = the bytes, reinterpreted
        return f"p.f_{ma.group(1)}bytes {t[1]} {t[2]} {int(t[3]) * int(ma.group(2)) // 8}"
    m = re.fullmatch(r"p\.(add|f)_([au])f(16|32|64)", t[0])
    if not m:
        return line
    w = int(m.group(3))
    if m.group(1) == "add":
        return f"p.add_{m.group(2)}bytes {t[1]} {t[2]} {hx(ref_pack(w, float_arg(w, t[3])))}"
    return f"p.f_{m.group(2)}bytes {t[1]} {t[2]} {w // 8}"


def ser_buf(rng, nbytes, off, k):
    """a serializer buffer of nbytes with arbitrary content below the cursor and zeros from the cursor on"""
    raw = le(patterns(rng, nbytes, k)) & ((1 << off) - 1)
    return (raw & ((1 << (8 * nbytes)) - 1)).to_bytes(nbytes, "little")


def py_cases(ctx):
    rng = ctx.rng
    if ctx.quick:
        offs, lens, sizes = range(0, 18), range(0, 41), range(0, 7)
    else:
        offs, lens, sizes = range(0, 24), range(0, 81), range(0, 11)
    out = []
    for size in sizes:
        for k in range(3):
            for off in offs:
                hd = hx(patterns(rng, size, k))
                for n in lens:
                    # deserializer: any buffer, any cursor
                    out.append((f"p.f_uu {hd} {off} {n}", "exh"))
                    out.append((f"p.f_us {hd} {off} {n}", "exh"))
                    out.append((f"p.f_ubits {hd} {off} {n}", "exh"))
                    out.append((f"p.f_auns {hd} {off} {n}", "exh"))
                    if n % 4 == 0:
                        out.append((f"p.f_asig {hd} {off} {n}", "exh"))
                        out.append((f"p.f_abits {hd} {off} {n}", "exh"))
                    if n <= 12:
                        out.append((f"p.f_ubytes {hd} {off} {n}", "exh"))
                        out.append((f"p.f_abytes {hd} {off} {n}", "exh"))
                    # serializer: zeros from the cursor on; the value pattern is ones / alternating / random
                    hs = hx(ser_buf(rng, size, off, [1, 2, 2][k]))
                    val = [(1 << n) - 1, 0x5555555555555555555555 & ((1 << n) - 1), rng.getrandbits(n) if n else 0][k]
                    out.append((f"p.add_uu {hs} {off} {val} {n}", "exh"))
                    out.append((f"p.add_auns {hs} {off} {val} {n}", "exh"))
                    sval = val - (1 << n) if n and val >> (n - 1) else val
                    out.append((f"p.add_us {hs} {off} {sval} {n}", "exh"))
                    if n % 4 == 1:
                        out.append((f"p.add_asig {hs} {off} {sval} {n}", "exh"))
                    bits = "".join(str(val >> i & 1) for i in range(n)) or "-"
                    out.append((f"p.add_ubits {hs} {off} {bits}", "exh"))
                    if n % 4 == 3 or n < 10:
                        out.append((f"p.add_abits {hs} {off} {bits}", "exh"))
                    if n <= 6:
                        v = hx(patterns(rng, n, [1, 2, 2][k]))
                        out.append((f"p.add_ubytes {hs} {off} {v}", "exh"))
                        out.append((f"p.add_abytes {hs} {off} {v}", "exh"))
                hs = hx(ser_buf(rng, size, off, [1, 2, 2][k]))
                out.append((f"p.add_ubit {hs} {off} {[1, 0, 1][k]}", "exh"))
                out.append((f"p.f_ubit {hd} {off}", "exh"))
                for n in (0, 1, 3, 8, 16, 32, 64):
                    out.append((f"p.pad {hs} {off} {n}", "exh"))
                    out.append((f"p.f_pad {hd} {off} {n}", "exh"))
                for w in (8, 16, 32, 64):
                    out.append((f"p.f_au{w} {hd} {off}", "exh"))
                    out.append((f"p.f_ai{w} {hd} {off}", "exh"))
                    uv = [(1 << w) - 1, 1 << (w - 1), rng.getrandbits(w)][k]
                    out.append((f"p.add_au{w} {hs} {off} {uv}", "exh"))
                    out.append((f"p.add_ai{w} {hs} {off} {uv - (1 << w) if uv >> (w - 1) else uv}", "exh"))
                out.append((f"p.slice {hd} {off % 7} {off % 7 + off // 3}", "exh"))
                out.append((f"p.byte {hd} {off}", "exh"))
    for n in range(1, 70):
        for v in (0, 1, (1 << n) - 1, 1 << (n - 1), rng.getrandbits(n + 3)):
            out.append((f"p.u2b {v} {n}", "exh"))
    nexh = len(out)
    nrand = 6000 if ctx.quick else 150000
    for _ in range(nrand):
        size = rng.choice([0, 1, 2, 3, 8, 9, 17, 40])
        off = rng.choice([rng.randrange(0, size * 8 + 12), rng.randrange(0, 400), size * 8])
        n = rng.choice([rng.randrange(0, 130), rng.randrange(0, 20), 64, 1, 2])
        hd = hx(bytes(rng.getrandbits(8) for _ in range(size)))
        big = size + (n + 7) // 8 + rng.choice([0, 1, 1, 2])
        hs = hx(ser_buf(rng, big, min(off, big * 8), 2))
        val = rng.getrandbits(n) if n else 0
        op = rng.choice(["f_uu", "f_us", "f_ubits", "f_ubytes", "f_auns", "add_uu", "add_us", "add_ubits", "add_ubytes", "add_auns",
                         "add_abytes", "neg", "wide"])
        if op in ("f_uu", "f_us", "f_ubits", "f_auns"):
            out.append((f"p.{op} {hd} {off} {n}", "rnd"))
        elif op == "f_ubytes":
            out.append((f"p.f_ubytes {hd} {off} {n // 4}", "rnd"))
        elif op in ("add_uu", "add_auns"):
            o = off // 8 * 8 if op == "add_auns" else off
            out.append((f"p.{op} {hs} {min(o, big * 8)} {val} {n}", "rnd"))
        elif op == "add_us":
            out.append((f"p.add_us {hs} {min(off, big * 8)} {val - (1 << n) if n and val >> (n - 1) else val} {n}", "rnd"))
        elif op == "add_ubits":
            out.append((f"p.add_ubits {hs} {min(off, big * 8)} {''.join(str(val >> i & 1) for i in range(n)) or '-'}", "rnd"))
        elif op in ("add_ubytes", "add_abytes"):
            v = hx(bytes(rng.getrandbits(8) for _ in range(n // 8)))
            o = off // 8 * 8 if op == "add_abytes" else off
            out.append((f"p.{op} {hs} {min(o, big * 8)} {v}", "rnd"))
        elif op == "neg":   # API misuse: the model must raise the same kind of error
            out.append((f"p.add_uu {hs} {min(off, big * 8)} {-val - 1} {n}", "rnd"))
        else:               # value wider than the field: truncated
            out.append((f"p.add_uu {hs} {min(off, big * 8)} {rng.getrandbits(n + 9)} {n}", "rnd"))
    out += py_float_cases(ctx)
    return out, nexh, nrand


class PyImpl:
    """the generated nunavut_support.py of the tree under check, imported with NumPy from the offline wheels"""

    def __init__(self, ctx):
        npdir = ctx.scratch / "np"
        try:
            import numpy  # noqa: F401
        except ImportError:
            p = subprocess.run([common.PY, "-m", "pip", "install", "--no-index", "--find-links", "/opt/veriftools/wheels", "--target", str(npdir),
                                "-q", "numpy"], capture_output=True, text=True, timeout=600)
            if p.returncode != 0:
                raise RuntimeError("cannot install numpy: " + p.stderr[-1500:])
            sys.path.insert(0, str(npdir))
        out = ctx.scratch / "py"
        nnvg(ctx, "py", out)
        sys.path.insert(0, str(out))
        import importlib
        import numpy
        self.np = numpy
        sys.modules.pop("nunavut_support", None)
        self.ns = importlib.import_module("nunavut_support")
        self.path = self.ns.__file__

    def scribble(self, a):
        """What an application may do with a result it was handed: modify it in place.  The sources given to the
        deserializer are immutable `bytes`, so a result is either a read-only view of the source (the write raises) or a
        fresh array; in neither case may a later call observe the write."""
        try:
            a[...] = True if a.dtype == bool else (0xA5 if a.dtype.itemsize == 1 else 0xA5A5)
            self.scribbled = getattr(self, "scribbled", 0) + 1
        except ValueError:          # read-only view of the immutable source
            pass

    def ser(self, buf, off):
        s = self.ns.Serializer.new(0).__class__(self.np.frombuffer(bytearray(buf), dtype=self.np.uint8))
        s._bit_offset = off
        return s

    def de(self, buf, off):
        d = self.ns.Deserializer.new([memoryview(bytes(buf))])
        d._bit_offset = off
        return d

    def answer(self, line):
        try:
            return self._answer(line)
        except IndexError:
            return "err:oob"
        except ValueError as e:
            return "err:oob" if "broadcast" in str(e) else "err:usage"
        except (AssertionError, OverflowError, ZeroDivisionError):
            return "err:usage"

    def _answer(self, line):
        np, ns = self.np, self.ns
        t = line.split(" ")
        op = t[0]
        arr = lambda h: np.frombuffer(bytearray(unhx(h)), dtype=np.uint8)
        bits = lambda b: np.array([c == "1" for c in ("" if b == "-" else b)], dtype=bool)
        showbits = lambda a: "".join("1" if x else "0" for x in a) or "-"
        if op == "p.u2b":
            return "ok " + hx(bytes(ns.Serializer._unsigned_to_bytes(int(t[1]), int(t[2]))))
        if op == "p.slice":
            res = ns.ZeroExtendingBuffer([memoryview(unhx(t[1]))]).get_unsigned_slice(int(t[2]), int(t[3]))
            r = "ok " + hx(bytes(res)); self.scribble(res)
            return r
        if op == "p.byte":
            return "ok %d" % ns.ZeroExtendingBuffer([memoryview(unhx(t[1]))]).get_byte(int(t[2]))
        buf, off = unhx(t[1]), int(t[2])
        mf = re.fullmatch(r"p\.(add|f)_([au])f(16|32|64)", op)
        if mf:
            w, al = int(mf.group(3)), "aligned" if mf.group(2) == "a" else "unaligned"
            if mf.group(1) == "add":
                s = self.ser(buf, off)
                getattr(s, f"add_{al}_f{w}")(float_arg(w, t[3]))
                return f"ok {hx(bytes(s._buf))} {s._bit_offset}"
            d = self.de(buf, off)
            x = getattr(d, f"fetch_{al}_f{w}")()
            return f"ok {hx(struct.pack(FLOAT_FMT[w], x))} {d._bit_offset}"
        if op.startswith("p.add") or op == "p.pad":
            s = self.ser(buf, off)
            if op == "p.add_ubytes": s.add_unaligned_bytes(arr(t[3]))
            elif op == "p.add_abytes": s.add_aligned_bytes(arr(t[3]))
            elif op == "p.add_ubits": s.add_unaligned_array_of_bits(bits(t[3]))
            elif op == "p.add_abits": s.add_aligned_array_of_bits(bits(t[3]))
            elif op == "p.add_ubit": s.add_unaligned_bit(t[3] == "1")
            elif op == "p.pad": s.pad_to_alignment(int(t[3]))
            elif op == "p.add_uu": s.add_unaligned_unsigned(int(t[3]), int(t[4]))
            elif op == "p.add_us": s.add_unaligned_signed(int(t[3]), int(t[4]))
            elif op == "p.add_auns": s.add_aligned_unsigned(int(t[3]), int(t[4]))
            elif op == "p.add_asig": s.add_aligned_signed(int(t[3]), int(t[4]))
            else:
                m = re.fullmatch(r"p\.add_a([ui])(8|16|32|64)", op)
                getattr(s, f"add_aligned_{m.group(1)}{m.group(2)}")(int(t[3]))
            return f"ok {hx(bytes(s._buf))} {s._bit_offset}"
        d = self.de(buf, off)
        ma = re.fullmatch(r"p\.f_([au])arr(8|16|32|64)", op)
        if ma:
            al = "aligned" if ma.group(1) == "a" else "unaligned"
            res = getattr(d, f"fetch_{al}_array_of_standard_bit_length_primitives")(getattr(np, "uint" + ma.group(2)), int(t[3]))
            r = hx(res.tobytes()); self.scribble(res)
        elif op == "p.f_ubytes": res = d.fetch_unaligned_bytes(int(t[3])); r = hx(bytes(res)); self.scribble(res)
        elif op == "p.f_abytes": res = d.fetch_aligned_bytes(int(t[3])); r = hx(bytes(res)); self.scribble(res)
        elif op == "p.f_ubits": res = d.fetch_unaligned_array_of_bits(int(t[3])); r = showbits(res); self.scribble(res)
        elif op == "p.f_abits": res = d.fetch_aligned_array_of_bits(int(t[3])); r = showbits(res); self.scribble(res)
        elif op == "p.f_ubit": r = "1" if d.fetch_unaligned_bit() else "0"
        elif op == "p.f_pad":
            d.pad_to_alignment(int(t[3]))
            return f"ok {d._bit_offset}"
        elif op == "p.f_uu": r = str(d.fetch_unaligned_unsigned(int(t[3])))
        elif op == "p.f_us": r = str(d.fetch_unaligned_signed(int(t[3])))
        elif op == "p.f_auns": r = str(d.fetch_aligned_unsigned(int(t[3])))
        elif op == "p.f_asig": r = str(d.fetch_aligned_signed(int(t[3])))
        else:
            m = re.fullmatch(r"p\.f_a([ui])(8|16|32|64)", op)
            r = str(getattr(d, f"fetch_aligned_{m.group(1)}{m.group(2)}")())
        if bytes(d._buf._buf) != buf:
            return "MISMATCH source buffer modified"
        return f"ok {r} {d._bit_offset}"


SEQ_STREAMS = ("float-seq", "alias-seq")


def run_py(ctx, drv):
    cases, nexh, nrand = py_cases(ctx)
    corpus = load_corpus("py")
    alias = py_alias_cases(ctx)            # first: its history within this interpreter is then complete
    lines = [c for c, _ in alias] + list(corpus) + [c for c, _ in cases]
    streams = [s for _, s in alias] + ["corpus"] * len(corpus) + [s for _, s in cases]
    orc = Oracle()
    impl = PyImpl(ctx)
    ctx.extra.setdefault("domain", {})["py"] = {"corpus": len(corpus), "exhaustive_cases": nexh, "random_cases": nrand,
                                                "requests": len(lines), "numpy": impl.np.__version__}
    model = drv.ask([py_model_line(l) for l in lines], timeout=1500) if drv else [None] * len(lines)
    ncontract = nfail = 0
    history = []        # the float-wrapper requests run so far in this interpreter (their outcome may depend on the order)
    for line, st, m in zip(lines, streams, model):
        a = impl.answer(line)
        if st in SEQ_STREAMS:
            history.append(line)
        o = orc.answer(line)
        ctx.case(line, o is not None and nontrivial(line))
        ctx.count("py:" + op_of(line))
        if m is not None:
            ctx.traces += 1
            if a != m:
                ctx.disagree(f"py:{st}", line, m, a)
        if a.startswith("err:"):
            ctx.count("py:" + a)
        if o is not None:
            ncontract += 1
            if a != o:
                nfail += 1
                ctx.fail({"kind": "contract", "target": "py", "op": op_of(line)},
                         "a Serializer/Deserializer primitive does not meet its contract (reference: big-integer bit arithmetic)",
                         dict({"target": "py", "request": line, "observed": a, "expected": o, "model": m},
                              **({"history": history[-41:-1] if st == "float-seq" else history[:-1],
                                  "note": "run `history` first, in the same interpreter (the wrapper modifies every returned array in place)"}
                                 if st in SEQ_STREAMS else
                                 {"note": "every array returned earlier in this interpreter was modified in place by the wrapper; if this "
                                          "request passes alone, see the alias-seq record"})))
    ctx.extra.setdefault("targets", {})["py-numpy"] = {"requests": len(lines), "within_contract": ncontract, "contract_failures": nfail}
    ctx.extra["py_results_modified_in_place"] = getattr(impl, "scribbled", 0)
    ctx.sample({"request": lines[len(lines) // 2], "answer": impl.answer(lines[len(lines) // 2])})


def load_corpus(section):
    out = []
    d = common.VERIF / "corpus" / "C14"
    if d.exists():
        for f in sorted(d.glob("*.json")):
            for c in json.loads(f.read_text()):
                if c.get("target") == section:
                    out.append(c["request"])
    return out


def run(ctx: common.Ctx):
    # the half-float part (other files, same check): its theorems are built and audited together with ours
    try:
        from . import c14_float
    except ImportError:
        c14_float = None
    mods, exes = ["C14"], ["bits"]
    if c14_float is not None and (common.LEAN / "NunavutVerif" / "Properties" / "C14Float.lean").exists():
        mods += [m for m in getattr(c14_float, "PROPERTY_MODULES", ["C14Float"]) if m not in mods]
        exes += [e for e in getattr(c14_float, "EXES", ["float16"]) if e not in exes]
    drivers = ctx.prove(mods, exes=exes)
    ctx.c14_drivers = drivers
    drv = drivers.get("bits")
    ctx.rule = ("exhaustive: bit offsets x bit lengths x buffer sizes x 3 content patterns (zeros / ones / random) for every getter, setter "
                "and getBits, source offset x destination offset x length for copyBits on tightest-size buffers; plus seeded random "
                "larger cases (sizes to 100 bytes, offsets to 2000 bits, lengths to 255/700 bits); non-trivial = non-empty buffer and "
                "length > 0 (copy: additionally some unaligned parameter); distinct by request line")
    ctx.assumptions = [
        "size_t arithmetic does not wrap (size*8 and off+len < 2^64)",
        "source and destination of a copy are distinct objects (asserted by the real code)",
        "little-endian host for the target_endianness=little rendering",
        "pointer formation one past / beyond a zero-length fragment (never dereferenced) is outside the model",
        "gcc/clang -O1 with ASan+UBSan executes the C/C++ semantics of the generated header",
    ]
    ctx.exhaustive = False
    run_c(ctx, drv)
    run_cpp(ctx, drv)
    run_py(ctx, drv)
    if c14_float is not None and os.environ.get("VERIF_C14_SKIP_FLOAT") != "1":   # (development switch)
        c14_float.run_float(ctx, drivers)


def replay(ctx, path):
    r = json.loads(open(path).read())
    rp = r.get("replay", {})
    if "request" not in rp:
        # a record of the half-float part
        try:
            from . import c14_float
            if rp:
                rc = c14_float.replay_float(ctx, rp)
                ctx.cleanup()
                return rc
        except ImportError:
            pass
        print("nothing to replay (no failing input in the file)")
        return 1
    line, target = rp["request"], rp.get("target", "c-any-gcc")
    exp = Oracle().answer(line)
    if target.startswith("py"):
        impl = PyImpl(ctx)
        for h in rp.get("history", []):      # state carried between calls in one interpreter
            impl.answer(h)
        got = impl.answer(line)
    else:
        jobs = [j for j in (build_cpp(ctx) if target.startswith("cpp") else build_c(ctx)) if j[0] == target]
        if not jobs:       # a thorough-only build: build it the thorough way
            ctx.quick = False
            jobs = [j for j in (build_cpp(ctx) if target.startswith("cpp") else build_c(ctx)) if j[0] == target]
        progs = compile_all(ctx, jobs)
        got = progs[0].ask([to_le(line) if progs and progs[0].rewrite else line])[0] if progs else "(target not built)"
    print(json.dumps({"target": target, "request": line, "observed": got, "expected": exp}))
    ctx.cleanup()
    return 0 if got == exp else 1
