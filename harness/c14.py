"""
C14 — support-library bit primitives are correct for all offsets, lengths and values (integer/bit part; the
half-float part is in harness/c14_float.py and is called from here so that both end up in one check).

Proof: lean/NunavutVerif/Properties/C14.lean (+ C14Float.lean).  Tie: the *generated* support files of the tree
under check ($VERIF_REPO) — C header (target_endianness any and little; gcc, clang in thorough), C++ header
(c++14/17/20), Python support module (imported with NumPy) — each behind a tiny line-protocol wrapper that puts
every buffer into an exact-size heap allocation (ASan + UBSan on) and again between guard bytes, against the
compiled Lean model (`bits` driver) on the same request lines: corpus, exhaustive small domain, seeded random
larger cases.  Failing-input search: an independent big-integer reference of each primitive's contract
(`Oracle`), evaluated on the implementation's answers; a sanitizer report or a changed guard byte is a failure
of the property on the implementation.
"""
import ast
import concurrent.futures
import json
import os
import pathlib
import re
import subprocess
import sys
import time

from . import common

HERE = pathlib.Path(__file__).resolve().parent
SAN = ["-fsanitize=address,undefined", "-fno-sanitize-recover=all", "-fno-omit-frame-pointer"]
SAN_ENV = {"ASAN_OPTIONS": "detect_leaks=1:abort_on_error=0:exitcode=86:allocator_may_return_null=1",
           "UBSAN_OPTIONS": "print_stacktrace=1:halt_on_error=1:exitcode=87"}


# =====================================================================================================
# independent reference of the contracts (big-integer bit arithmetic; shares nothing with the Lean model)
# =====================================================================================================

def hx(b: bytes) -> str:
    return b.hex() if b else "-"


def unhx(s: str) -> bytes:
    return b"" if s == "-" else bytes.fromhex(s)


def le(b: bytes) -> int:
    return int.from_bytes(b, "little")


class Oracle:
    """answer(line) -> the only answer the documented contract allows, or None when the request violates a
    documented precondition (then the implementation is not run)."""

    @staticmethod
    def field(buf: bytes, size: int, off: int, n: int) -> int:
        """zero-extended bit field [off, off+n) of the first `size` bytes"""
        v = le(buf[:size])
        return (v >> off) & ((1 << n) - 1)

    @staticmethod
    def put(buf: bytes, off: int, n: int, value: int) -> bytes:
        m = ((1 << n) - 1) << off
        return ((le(buf) & ~m) | ((value << off) & m)).to_bytes(len(buf), "little")

    def answer(self, line: str):
        t = line.split(" ")
        op = t[0]
        if op.endswith("_le"):
            op = op[:-3]
        if op == "copy":
            dst, d_off, n, src, s_off = unhx(t[1]), int(t[2]), int(t[3]), unhx(t[4]), int(t[5])
            if n and (s_off + n > len(src) * 8 or d_off + n > len(dst) * 8):
                return None
            return "ok " + hx(self.put(dst, d_off, n, (le(src) >> s_off) & ((1 << n) - 1)))
        if op == "copyself":
            buf, d_off, n, s_off = unhx(t[1]), int(t[2]), int(t[3]), int(t[4])
            if d_off % 8 or s_off % 8 or n % 8 or d_off <= s_off or d_off + n > len(buf) * 8:
                return None         # documented: overlap is defined for byte-aligned offsets only (whole bytes here)
            out = bytearray(buf)
            out[d_off // 8: d_off // 8 + n // 8] = buf[s_off // 8: s_off // 8 + n // 8]
            return "ok " + hx(bytes(out))
        if op == "sat":
            size, off, n = int(t[1]), int(t[2]), int(t[3])
            return "ok %d" % min(n, max(0, size * 8 - off))
        if op == "getbits":
            out, buf, size, off, n = unhx(t[1]), unhx(t[2]), int(t[3]), int(t[4]), int(t[5])
            nb = (n + 7) // 8
            if nb > len(out) or size > len(buf):
                return None
            return "ok " + hx(self.field(buf, size, off, n).to_bytes(nb, "little") + out[nb:])
        if op == "setbit":
            buf, size, off, v = unhx(t[1]), int(t[2]), int(t[3]), int(t[4])
            if size > len(buf):
                return None
            if size * 8 <= off:
                return "ok -3 " + hx(buf)
            return "ok 0 " + hx(self.put(buf, off, 1, v))
        if op == "getbit":
            buf, size, off = unhx(t[1]), int(t[2]), int(t[3])
            if size > len(buf):
                return None
            return "ok %d" % self.field(buf, size, off, 1)
        if op in ("setu", "seti"):
            buf, size, off, v, n = unhx(t[1]), int(t[2]), int(t[3]), int(t[4]), int(t[5])
            if size > len(buf) or n > 255:
                return None
            if size * 8 < off + n:
                return "ok -3 " + hx(buf)
            return "ok 0 " + hx(self.put(buf, off, min(n, 64), v & ((1 << 64) - 1)))
        if op == "min":
            return "ok %d" % min(int(t[1]), int(t[2]))
        mf = re.fullmatch(r"(set|get)f(32|64)", op)
        if mf:          # the float travels as its bit pattern: SetF writes exactly that pattern, GetF returns the zero-extended field
            buf, size, off, w = unhx(t[1]), int(t[2]), int(t[3]), int(mf.group(2))
            if size > len(buf):
                return None
            if mf.group(1) == "get":
                return "ok %d" % self.field(buf, size, off, w)
            if size * 8 < off + w:
                return "ok -3 " + hx(buf)
            return "ok 0 " + hx(self.put(buf, off, w, int(t[4]) & ((1 << w) - 1)))
        if op.startswith("x."):
            return self.answer_cpp(op, t)
        if op.startswith("pv."):
            return self.answer_pv(op, t)
        if op.startswith("p."):
            ext = self.answer_py_ext(op, t)
            if ext is not NotImplemented:
                return ext
            return self.answer_py(op, t)
        m = re.fullmatch(r"get([ui])(8|16|32|64)", op)
        if m:
            buf, size, off, n = unhx(t[1]), int(t[2]), int(t[3]), int(t[4])
            if size > len(buf) or n > 255:
                return None
            w = min(n, int(m.group(2)))
            v = self.field(buf, size, off, w)
            if m.group(1) == "i" and w > 0 and v >> (w - 1):
                v -= 1 << w
            return "ok %d" % v
        return None


    def answer_py(self, op, t):
        """Python Serializer / Deserializer.  Serializer contract: the buffer holds zeros at and above the cursor (true for a
        fresh serializer and kept by every add_*), there is room for the value plus the one spare byte `Serializer.new`
        allocates, the value is in range; then exactly the value's bits are appended.  Deserializer: zero-extended reads."""
        if op == "p.u2b":
            v, n = int(t[1]), int(t[2])
            return None if n < 1 or v < 0 else "ok " + hx((v & ((1 << n) - 1)).to_bytes((n + 7) // 8, "little"))
        if op == "p.slice":
            b, l, r = unhx(t[1]), int(t[2]), int(t[3])
            return None if l > r else "ok " + hx((b[l:r] + bytes(r - l))[: r - l])
        if op == "p.byte":
            b, i = unhx(t[1]), int(t[2])
            return "ok %d" % (b[i] if i < len(b) else 0)
        buf, off = unhx(t[1]), int(t[2])
        ma = re.fullmatch(r"p\.f_([au])arr(8|16|32|64)", op)
        if ma:
            if ma.group(1) == "a" and off % 8:
                return None
            nb = int(t[3]) * int(ma.group(2)) // 8
            return f"ok {hx(self.field(buf, len(buf), off, 8 * nb).to_bytes(nb, 'little'))} {off + 8 * nb}"
        mf = re.fullmatch(r"p\.(add|f)_([au])f(16|32|64)", op)
        if mf and mf.group(1) == "f":           # fetch_*_f16/32/64: the W bits at the cursor, zero extended, as a float
            if mf.group(2) == "a" and off % 8:
                return None
            w = int(mf.group(3))
            return f"ok {hx(self.field(buf, len(buf), off, w).to_bytes(w // 8, 'little'))} {off + w}"
        if op.startswith("p.add") or op == "p.pad":
            if le(buf) >> off:                  # invariant: nothing at or above the cursor
                return None
            aligned = op.startswith(("p.add_a",))
            if aligned and off % 8:
                return None
            if mf:                              # add_*_f16/32/64: exactly the IEEE 754 pattern of the value, whatever came before
                n, val = int(mf.group(3)), float_arg_bits(int(mf.group(3)), t[3])
            elif op in ("p.add_ubytes", "p.add_abytes"):
                v = unhx(t[3]); n = len(v) * 8; val = le(v)
            elif op in ("p.add_ubits", "p.add_abits"):
                bits = "" if t[3] == "-" else t[3]; n = len(bits); val = int(bits[::-1], 2) if bits else 0
            elif op == "p.add_ubit":
                n, val = 1, int(t[3])
            elif op == "p.pad":
                k = int(t[3])
                if k < 1:
                    return None
                n, val = (-off) % k, 0
            elif op in ("p.add_uu", "p.add_auns"):
                val, n = int(t[3]), int(t[4])
                if val < 0 or n < 1:
                    return None
                val &= (1 << n) - 1             # documented: unsigned values are truncated
            elif op in ("p.add_us", "p.add_asig"):
                val, n = int(t[3]), int(t[4])
                if n < 2 or not -(1 << (n - 1)) <= val < (1 << (n - 1)):
                    return None
                val &= (1 << n) - 1
            else:
                m = re.fullmatch(r"p\.add_a([ui])(8|16|32|64)", op)
                if not m:
                    return None
                n, val = int(m.group(2)), int(t[3])
                if m.group(1) == "u" and not 0 <= val < (1 << n):
                    return None
                if m.group(1) == "i" and not -(1 << (n - 1)) <= val < (1 << (n - 1)):
                    return None
                val &= (1 << n) - 1
            # room: the bytes touched are those of [off, off+n) plus, for the unaligned byte loop, the spare byte
            spare = 0 if aligned or op in ("p.add_ubit", "p.pad") else 1
            if n and (off + n + 7) // 8 + spare > len(buf):
                return None
            if not n and op not in ("p.add_ubytes", "p.add_abytes", "p.add_ubits", "p.add_abits", "p.pad"):
                return None
            return f"ok {hx((le(buf) | (val << off)).to_bytes(len(buf), 'little'))} {off + n}"
        # deserializer
        aligned = op.startswith("p.f_a")
        if aligned and off % 8:
            return None
        if op in ("p.f_ubytes", "p.f_abytes"):
            c = int(t[3])
            return f"ok {hx(self.field(buf, len(buf), off, 8 * c).to_bytes(c, 'little'))} {off + 8 * c}"
        if op in ("p.f_ubits", "p.f_abits"):
            c = int(t[3]); v = self.field(buf, len(buf), off, c)
            return f"ok {''.join(str(v >> i & 1) for i in range(c)) or '-'} {off + c}"
        if op == "p.f_ubit":
            return f"ok {self.field(buf, len(buf), off, 1)} {off + 1}"
        if op == "p.f_pad":
            k = int(t[3])
            return None if k < 1 else f"ok {off + (-off) % k}"
        if op in ("p.f_uu", "p.f_auns", "p.f_us", "p.f_asig"):
            n = int(t[3]); signed = op in ("p.f_us", "p.f_asig")
            if n < (2 if signed else 1):
                return None
        else:
            m = re.fullmatch(r"p\.f_a([ui])(8|16|32|64)", op)
            if not m:
                return None
            n, signed = int(m.group(2)), m.group(1) == "i"
        v = self.field(buf, len(buf), off, n)
        if signed and v >> (n - 1):
            v -= 1 << n
        return f"ok {v} {off + n}"

    KINDS = {"i8": (True, 8), "i16": (True, 16), "i32": (True, 32), "i64": (True, 64), "u8": (False, 8), "u16": (False, 16), "u32": (False, 32), "u64": (False, 64)}

    @classmethod
    def kind_fits(cls, ty, c):
        """can the Python int constant c be combined with an argument of this type (NEP 50: it must fit the scalar's type)?"""
        if ty in ("int", "bool"):
            return True
        signed, bits = cls.KINDS["i64" if ty == "npbool" else ty]
        return (-(1 << (bits - 1)) if signed else 0) <= c <= ((1 << (bits - 1)) - 1 if signed else (1 << bits) - 1)

    def answer_pv(self, op, t):
        """Typed arguments `<value>:<type>`.  The arbitrary-width methods (what generated code calls for array elements)
        must serialize the integer the argument denotes WHATEVER its type; the standard-width methods compute in the
        argument's own type, their contract covers the types that can hold the constants they use."""
        buf, off = unhx(t[1]), int(t[2])
        v, ty = t[3].split(":")
        v = int(v)
        if op in ("pv.add_uu", "pv.add_us", "pv.add_auns", "pv.add_asig"):
            return self.answer_py(op.replace("pv.", "p."), [op, t[1], t[2], str(v), t[4]])
        if op == "pv.add_ubit":
            return self.answer_py("p.add_ubit", [op, t[1], t[2], "1" if v != 0 else "0"])
        m = re.fullmatch(r"pv\.add_a([ui])(8|16|32|64)", op)
        if not m:
            return None
        w = int(m.group(2))
        if v < 0:
            if not self.kind_fits(ty, 1 << w):
                return None
        elif w != 8 and not self.kind_fits(ty, 255):
            return None
        return self.answer_py(op.replace("pv.", "p."), [op, t[1], t[2], str(v)])

    def answer_py_ext(self, op, t):
        """cursor bookkeeping, views, forks, the ZeroExtendingBuffer surface (round 2)"""
        if op == "p.new":
            return "ok " + hx(bytes(int(t[1]) + 1)) + " 0"
        if op == "p.zeb":
            b = b"".join(unhx(f) for f in ([] if t[1] == "!" else t[1].split(",")))
            return f"ok {hx(b)} {8 * len(b)}"
        if op == "p.bytez":
            b, i = unhx(t[1]), int(t[2])
            return "err:usage" if i < 0 else "ok %d" % (b[i] if i < len(b) else 0)
        if op == "p.slicez":
            b, l, r = unhx(t[1]), int(t[2]), int(t[3])
            return "err:usage" if not 0 <= l <= r else "ok " + hx((b[l:r] + bytes(r - l))[: r - l])
        if op == "p.zfork":
            b, o, l = unhx(t[1]), int(t[2]), int(t[3])
            if l == 0:
                return "ok -"
            return "err:usage" if o + l > len(b) else "ok " + hx(b[o:o + l])
        if op in ("p.buffer", "p.skip", "p.fork", "p.forkadd"):
            buf, off = unhx(t[1]), int(t[2])
            if le(buf) >> off:
                return None                                    # invariant: zeros from the cursor on
            if op == "p.buffer":
                nb = (off + 7) // 8
                return None if nb > len(buf) else "ok " + hx(buf[:nb])
            if op == "p.skip":
                n = int(t[3])
                return None if n < 0 else f"ok {hx(buf)} {off + n}"
            k = int(t[3])
            refused = off % 8 != 0 or len(buf) - off // 8 < k + 1
            if op == "p.fork":
                return "err:usage" if refused else f"ok {hx(buf[off // 8: off // 8 + k + 1])} 0"
            val, n = int(t[4]), int(t[5])
            if refused or val < 0 or n < 1 or (n + 7) // 8 >= k + 1:
                return None
            return f"ok {hx((le(buf) | ((val & ((1 << n) - 1)) << off)).to_bytes(len(buf), 'little'))} {off + n}"
        if op in ("p.dfork", "p.remaining", "p.dskip") or op.startswith("p.fz_"):
            buf, off = unhx(t[1]), int(t[2])
            if op == "p.remaining":
                return f"ok {off} {8 * len(buf) - off}"
            if op == "p.dskip":
                n = int(t[3])
                return "err:usage" if n < 0 else f"ok {off + n}"
            if op == "p.dfork":
                k = int(t[3])
                if off % 8 != 0 or max(8 * len(buf) - off, 0) // 8 < k:
                    return "err:usage"
                return f"ok {hx(buf[off // 8: off // 8 + k])} {8 * k}"
            n = int(t[3])
            if n < 0:
                return "err:usage"
            return self.answer_py(op.replace("p.fz_", "p.f_"), [op, t[1], t[2], t[3]])
        ma = re.fullmatch(r"p\.add_([au])arrs?(8|16|32|64)", op)
        if ma:
            buf, off, v = unhx(t[1]), int(t[2]), unhx(t[3])
            if len(v) % (int(ma.group(2)) // 8):
                return None
            return self.answer_py("p.add_abytes" if ma.group(1) == "a" else "p.add_ubytes", [op, t[1], t[2], t[3]])
        return NotImplemented

    def answer_cpp(self, op, t):
        """C++ bitspan: a span is (data, offset_bits); size() = max(0, 8*len(data) - offset)"""
        if op == "x.info":
            d, off, a = unhx(t[1]), int(t[2]), int(t[3])
            if a == 0:
                return None
            return f"ok {max(0, 8 * len(d) - off)} {off} {off // 8} {(off + 7) // 8} {off % a} {int(off % a == 0)} {int(off % 8 == 0)}"
        if op == "x.atoff":
            d, off, b = unhx(t[1]), int(t[2]), int(t[3])
            return f"ok {off + b} {max(0, 8 * len(d) - off - b)}"
        if op in ("x.sub1", "x.subbytes"):
            d, off, b = unhx(t[1]), int(t[2]), int(t[3])
            if op == "x.sub1":
                noff, size, start = (off + b) % 8, max(0, 8 * len(d) - off - b), off + b
                first = self.field(d, len(d), start, min(size, 64))
            else:
                ob = min(off // 8, len(d))
                nb = min(b, len(d) - ob)
                noff, size = 0, 8 * nb
                first = self.field(d[ob:ob + nb], nb, 0, min(size, 64))
            return f"ok {noff} {size} ok {hx(first.to_bytes(8, 'little'))}"
        if op == "x.aref":
            d, off, plus = unhx(t[1]), int(t[2]), int(t[3])
            i = (off + plus) // 8
            return None if i >= len(d) else f"ok {i} {d[i]}"
        if op == "x.copyall":
            dst, d_off, src, s_off = unhx(t[1]), int(t[2]), unhx(t[3]), int(t[4])
            n = max(0, len(src) * 8 - s_off)
            if n and d_off + n > len(dst) * 8:
                return None
            return "ok " + hx(self.put(dst, d_off, n, (le(src) >> s_off) & ((1 << n) - 1)))
        if op == "x.zeroall":
            d, off = unhx(t[1]), int(t[2])
            return "ok 0 " + hx(self.put(d, off, max(0, len(d) * 8 - off), 0))
        ma = re.fullmatch(r"x\.align(8|16|32|64)", op)
        if ma:
            n, off = int(ma.group(1)), int(t[1])
            return "ok %d" % ((off + n - 1) // n * n)
        mf = re.fullmatch(r"x\.(set|get)f(32|64)", op)
        if mf:
            d, off, w = unhx(t[1]), int(t[2]), int(mf.group(2))
            if mf.group(1) == "get":
                return "ok %d" % self.field(d, len(d), off, w)
            if len(d) * 8 < off + w:
                return "ok -3 " + hx(d)
            return "ok 0 " + hx(self.put(d, off, w, int(t[3]) & ((1 << w) - 1)))
        if op == "x.copy":
            dst, d_off, src, s_off, n = unhx(t[1]), int(t[2]), unhx(t[3]), int(t[4]), int(t[5])
            n = min(n, max(0, len(src) * 8 - s_off))           # documented clamp to the source size
            if n and d_off + n > len(dst) * 8:                   # asserted precondition length_bits <= dst.size()
                return None
            return "ok " + hx(self.put(dst, d_off, n, (le(src) >> s_off) & ((1 << n) - 1)))
        if op == "x.getbits":
            src, s_off, out, n = unhx(t[1]), int(t[2]), unhx(t[3]), int(t[4])
            nb = (n + 7) // 8
            if nb > len(out):
                return None
            return "ok " + hx(self.field(src, len(src), s_off, n).to_bytes(nb, "little") + out[nb:])
        if op == "x.setzeros":
            d, off, n = unhx(t[1]), int(t[2]), int(t[3])
            if n > max(0, len(d) * 8 - off):
                return "ok -3 " + hx(d)
            return "ok 0 " + hx(self.put(d, off, n, 0))
        if op == "x.pad":
            d, off, n = unhx(t[1]), int(t[2]), int(t[3])
            if not 0 < n < 256:
                return None
            if off % n == 0:
                return f"ok 0 {hx(d)} {off}"
            p = n - off % n
            if p > max(0, len(d) * 8 - off):
                return f"ok -3 {hx(d)} {off}"
            return f"ok 0 {hx(self.put(d, off, p, 0))} {off + p}"
        if op == "x.subspan":
            d, off, at, n = unhx(t[1]), int(t[2]), int(t[3]), int(t[4])
            if len(d) * 8 < off + at + n:
                return "ok -3 0 0 0"
            first, noff = divmod(off + at, 8)
            nb = (noff + n) // 8
            return f"ok 0 {first if nb else '-'} {nb} {noff}"     # an empty window has no observable first byte
        if op == "x.setbit":
            d, off, v = unhx(t[1]), int(t[2]), int(t[3])
            if len(d) * 8 <= off:
                return "ok -3 " + hx(d)
            return "ok 0 " + hx(self.put(d, off, 1, v))
        if op == "x.getbit":
            d, off = unhx(t[1]), int(t[2])
            return "ok %d" % self.field(d, len(d), off, 1)
        if op in ("x.setu", "x.seti"):
            d, off, v, n = unhx(t[1]), int(t[2]), int(t[3]), int(t[4])
            if n > 255:
                return None
            if len(d) * 8 < off + n:
                return "ok -3 " + hx(d)
            return "ok 0 " + hx(self.put(d, off, min(n, 64), v & ((1 << 64) - 1)))
        m = re.fullmatch(r"x\.get([ui])(8|16|32|64)", op)
        if m:
            d, off, n = unhx(t[1]), int(t[2]), int(t[3])
            if n > 255:
                return None
            w = min(n, int(m.group(2)))
            v = self.field(d, len(d), off, w)
            if m.group(1) == "i" and w > 0 and v >> (w - 1):
                v -= 1 << w
            return "ok %d" % v
        return None


# =====================================================================================================
# case generation
# =====================================================================================================

def patterns(rng, n, k):
    """three content patterns for an n-byte buffer"""
    if k == 0:
        return bytes(n)
    if k == 1:
        return bytes([0xFF]) * n
    return bytes(rng.getrandbits(8) for _ in range(n))


def c_cases(ctx):
    """(line, stream) for the C primitives: exhaustive small domain, then random larger cases."""
    rng = ctx.rng
    if ctx.quick:
        offs, lens, sizes = range(0, 18), list(range(0, 41)) + [63, 64, 65, 255], range(0, 9)
    else:
        offs, lens, sizes = range(0, 24), list(range(0, 81)) + [255], range(0, 13)
    out = []
    # getters / setters / getbits: offsets x lengths x sizes x 3 patterns
    getters = ["getu8", "getu16", "getu32", "getu64", "geti8", "geti16", "geti32", "geti64"]
    for size in sizes:
        for k in range(3):
            for off in offs:
                for n in lens:
                    buf = patterns(rng, size, k)
                    h = hx(buf)
                    for g in getters:
                        out.append((f"{g} {h} {size} {off} {n}", "exh"))
                    # setters: the value pattern is the opposite of the buffer pattern
                    val = [(1 << 64) - 1, 0, rng.getrandbits(64)][k]
                    out.append((f"setu {h} {size} {off} {val} {n}", "exh"))
                    ival = [-1, 0, rng.getrandbits(64) - (1 << 63)][k]
                    out.append((f"seti {h} {size} {off} {ival} {n}", "exh"))
                    nb = (n + 7) // 8
                    o = patterns(rng, nb + 1, [1, 0, 2][k])
                    out.append((f"getbits {hx(o)} {h} {size} {off} {n}", "exh"))
                buf = patterns(rng, size, k)
                out.append((f"getbit {hx(buf)} {size} {off}", "exh"))
                out.append((f"setbit {hx(buf)} {size} {off} {[1, 0, rng.getrandbits(1)][k]}", "exh"))
                out.append((f"sat {size} {off} {off * 3 % 50}", "exh"))
    # copyBits: source offset x destination offset x length x 3 patterns, tightest buffers (+ one with slack)
    for s_off in offs:
        for d_off in offs:
            for n in lens:
                k = (s_off + d_off + n) % 3
                slack = 1 if (s_off * 7 + d_off * 3 + n) % 5 == 0 else 0
                ns, nd = (s_off + n + 7) // 8 + slack, (d_off + n + 7) // 8 + slack
                if n == 0:
                    ns, nd = slack, slack  # nothing is accessed: even empty buffers are fine
                src = patterns(rng, ns, 2 if k != 1 else 0)
                dst = patterns(rng, nd, k)
                out.append((f"copy {hx(dst)} {d_off} {n} {hx(src)} {s_off}", "exh"))
    # wave 7: byte-aligned copy between OVERLAPPING regions of one buffer, destination above source (memmove semantics)
    for size in (2, 3, 8, 17, 40, 100):
        for sb in range(0, min(size, 4)):
            for gap in (1, 2, 3, 9, 33):
                for nb in (1, 2, gap, gap + 1, 2 * gap + 1, size):
                    if sb + gap + nb <= size:
                        out.append((f"copyself {hx(patterns(rng, size, 2))} {8 * (sb + gap)} {8 * nb} {8 * sb}", "exh"))
    # round 2: nunavutChooseMin, SetF32/64 / GetF32/64 as bit-pattern moves
    for a in (0, 1, 7, 8, 255, 2 ** 32, 2 ** 63):
        for b in (0, 1, 8, 9, 2 ** 32 - 1, 2 ** 64 - 1):
            out.append((f"min {a} {b}", "exh"))
    for w in (32, 64):
        pats = [0, 1, (1 << w) - 1, 1 << (w - 1), 0x3FC00000 if w == 32 else 0x3FF8000000000000, (0x7FC00001 if w == 32 else 0x7FF8000000000001),
                (0x7F800000 if w == 32 else 0x7FF0000000000000)] + [rng.getrandbits(w) for _ in range(2)]
        for size in range(0, 12):
            for off in (list(range(0, 18)) + [31, 32, 33, 63, 64, 65, 200]):
                for k in range(3):
                    h = hx(patterns(rng, size, k))
                    out.append((f"getf{w} {h} {size} {off}", "exh"))
                    out.append((f"setf{w} {h} {size} {off} {pats[(off + size + k) % len(pats)]}", "exh"))
    nexh = len(out)
    # random larger cases
    nrand = 20000 if ctx.quick else 400000
    ops = getters + ["setu", "seti", "getbits", "copy", "setbit", "getbit"]
    for _ in range(nrand):
        op = rng.choice(ops)
        size = rng.choice([0, 1, 2, 3, 7, 8, 9, 16, 31, 32, 33, 64, 100])
        alloc = size + rng.choice([0, 0, 0, 1, 5])          # buf_size_bytes may be smaller than the object
        buf = bytes(rng.getrandbits(8) for _ in range(alloc))
        off = rng.choice([rng.randrange(0, size * 8 + 20), rng.randrange(0, 2000), size * 8, max(0, size * 8 - 1)])
        n = rng.choice([rng.randrange(0, 256), rng.randrange(0, 70), 64, 65, 0, 1])
        h = hx(buf)
        if op.startswith("get") and op not in ("getbits", "getbit"):
            out.append((f"{op} {h} {size} {off} {n}", "rnd"))
        elif op == "setu":
            out.append((f"setu {h} {size} {off} {rng.getrandbits(rng.choice([1, 8, 33, 64]))} {n}", "rnd"))
        elif op == "seti":
            out.append((f"seti {h} {size} {off} {rng.getrandbits(64) - (1 << 63)} {n}", "rnd"))
        elif op == "getbits":
            n = rng.randrange(0, 600)
            o = bytes(rng.getrandbits(8) for _ in range((n + 7) // 8 + rng.choice([0, 0, 1, 3])))
            out.append((f"getbits {hx(o)} {h} {size} {off} {n}", "rnd"))
        elif op == "copy":
            n = rng.randrange(0, 700)
            s_off, d_off = rng.randrange(0, 100), rng.randrange(0, 100)
            if rng.random() < 0.3:
                s_off, d_off = s_off // 8 * 8, d_off // 8 * 8
            src = bytes(rng.getrandbits(8) for _ in range((s_off + n + 7) // 8 + rng.choice([0, 0, 2])))
            dst = bytes(rng.getrandbits(8) for _ in range((d_off + n + 7) // 8 + rng.choice([0, 0, 2])))
            out.append((f"copy {hx(dst)} {d_off} {n} {hx(src)} {s_off}", "rnd"))
        elif op == "setbit":
            out.append((f"setbit {h} {size} {off} {rng.getrandbits(1)}", "rnd"))
        else:
            out.append((f"getbit {h} {size} {off}", "rnd"))
    return out, nexh, nrand


def cpp_cases(ctx):
    rng = ctx.rng
    if ctx.quick:
        offs, lens, sizes = range(0, 18), list(range(0, 41)) + [63, 64, 65, 255], range(0, 9)
    else:
        offs, lens, sizes = range(0, 24), list(range(0, 81)) + [255], range(0, 13)
    out = []
    getters = ["x.getu8", "x.getu16", "x.getu32", "x.getu64", "x.geti8", "x.geti16", "x.geti32", "x.geti64"]
    for size in sizes:
        for k in range(3):
            for off in offs:
                for n in lens:
                    h = hx(patterns(rng, size, k))
                    for g in getters:
                        out.append((f"{g} {h} {off} {n}", "exh"))
                    val = [(1 << 64) - 1, 0, rng.getrandbits(64)][k]
                    out.append((f"x.setu {h} {off} {val} {n}", "exh"))
                    ival = [-1, 0, rng.getrandbits(64) - (1 << 63)][k]
                    out.append((f"x.seti {h} {off} {ival} {n}", "exh"))
                    o = patterns(rng, (n + 7) // 8 + 1, [1, 0, 2][k])
                    out.append((f"x.getbits {h} {off} {hx(o)} {n}", "exh"))
                    # setZeros on ones / random / ones (zeros would hide everything)
                    hz = hx(patterns(rng, size, [1, 2, 1][k]))
                    out.append((f"x.setzeros {hz} {off} {n}", "exh"))
                h = hx(patterns(rng, size, k))
                out.append((f"x.getbit {h} {off}", "exh"))
                out.append((f"x.setbit {h} {off} {[1, 0, rng.getrandbits(1)][k]}", "exh"))
                hz = hx(patterns(rng, size, [1, 2, 1][k]))
                for n in (1, 3, 7, 8, 16, 32, 64, 255):
                    out.append((f"x.pad {hz} {off} {n}", "exh"))
                for at in (0, 1, 7, 8, 13):
                    for n in (0, 1, 8, 9, 16, 8 * size, max(0, 8 * size - off - at)):
                        out.append((f"x.subspan {h} {off} {at} {n}", "exh"))
    for s_off in offs:
        for d_off in offs:
            for n in lens:
                k = (s_off + d_off + n) % 3
                slack = 1 if (s_off * 7 + d_off * 3 + n) % 5 == 0 else 0
                ns, nd = (s_off + n + 7) // 8 + slack, (d_off + n + 7) // 8 + slack
                src = patterns(rng, ns, 2 if k != 1 else 0)
                dst = patterns(rng, nd, k)
                # every third request asks for more than the source holds: the clamp must apply
                ask = n + (5 if (s_off + n) % 3 == 0 and slack == 0 and (s_off + n) % 8 == 0 else 0)
                out.append((f"x.copy {hx(dst)} {d_off} {hx(src)} {s_off} {ask}", "exh"))
    # round 2: offset / window arithmetic of any_bitspan, whole-span overloads, align_offset_to, float pattern moves
    for size in sizes:
        for k in range(3):
            h = hx(patterns(rng, size, k))
            hz = hx(patterns(rng, size, [1, 2, 1][k]))
            for off in list(offs) + [8 * size, 8 * size + 1, 8 * size + 9, 70, 200]:
                for a in (1, 3, 8, 16, 32, 64):
                    out.append((f"x.info {h} {off} {a}", "exh"))
                for b in (0, 1, 5, 8, 13, 64, 8 * size, 300):
                    out.append((f"x.atoff {h} {off} {b}", "exh"))
                    out.append((f"x.sub1 {h} {off} {b}", "exh"))
                for nb in (0, 1, 2, size, size + 3):
                    out.append((f"x.subbytes {h} {off} {nb}", "exh"))
                for plus in (0, 1, 7, 8, 9, 15, 16, 40):
                    out.append((f"x.aref {h} {off} {plus}", "exh"))
                out.append((f"x.zeroall {hz} {off}", "exh"))
                for w in (32, 64):
                    out.append((f"x.getf{w} {h} {off}", "exh"))
                    out.append((f"x.setf{w} {h} {off} {rng.getrandbits(w) if k else (1 << w) - 1}", "exh"))
    for s_off in offs:
        for d_off in offs:
            for ssize in (0, 1, 2, 5):
                n = max(0, 8 * ssize - s_off)
                src = patterns(rng, ssize, 2)
                dst = patterns(rng, (d_off + n + 7) // 8 + ((s_off + d_off) % 2), (s_off + d_off) % 3)
                out.append((f"x.copyall {hx(dst)} {d_off} {hx(src)} {s_off}", "exh"))
    for n in (8, 16, 32, 64):
        for off in list(range(0, 200)) + [2 ** 32 - 1, 2 ** 32, 2 ** 40 + 5, 2 ** 63 - 64]:
            out.append((f"x.align{n} {off}", "exh"))
    nexh = len(out)
    nrand = 15000 if ctx.quick else 300000
    ops = getters + ["x.setu", "x.seti", "x.getbits", "x.copy", "x.setbit", "x.getbit", "x.setzeros", "x.setzeros", "x.pad", "x.subspan"]
    for _ in range(nrand):
        op = rng.choice(ops)
        size = rng.choice([0, 1, 2, 3, 7, 8, 9, 16, 31, 32, 33, 64, 100])
        d = bytes(rng.getrandbits(8) for _ in range(size))
        off = rng.choice([rng.randrange(0, size * 8 + 20), rng.randrange(0, 2000), size * 8, max(0, size * 8 - 1)])
        n = rng.choice([rng.randrange(0, 256), rng.randrange(0, 70), 64, 65, 0, 1])
        h = hx(d)
        if op.startswith(("x.getu", "x.geti")):
            out.append((f"{op} {h} {off} {n}", "rnd"))
        elif op == "x.setu":
            out.append((f"x.setu {h} {off} {rng.getrandbits(rng.choice([1, 8, 33, 64]))} {n}", "rnd"))
        elif op == "x.seti":
            out.append((f"x.seti {h} {off} {rng.getrandbits(64) - (1 << 63)} {n}", "rnd"))
        elif op == "x.getbits":
            n = rng.randrange(0, 600)
            o = bytes(rng.getrandbits(8) for _ in range((n + 7) // 8 + rng.choice([0, 0, 1, 3])))
            out.append((f"x.getbits {h} {off} {hx(o)} {n}", "rnd"))
        elif op == "x.copy":
            n = rng.randrange(0, 700)
            s_off, d_off = rng.randrange(0, 100), rng.randrange(0, 100)
            if rng.random() < 0.3:
                s_off, d_off = s_off // 8 * 8, d_off // 8 * 8
            src = bytes(rng.getrandbits(8) for _ in range((s_off + n + 7) // 8 + rng.choice([0, 0, 2])))
            dst = bytes(rng.getrandbits(8) for _ in range((d_off + n + 7) // 8 + rng.choice([0, 0, 2])))
            out.append((f"x.copy {hx(dst)} {d_off} {hx(src)} {s_off} {n + rng.choice([0, 0, 1, 1000])}", "rnd"))
        elif op == "x.setbit":
            out.append((f"x.setbit {h} {off} {rng.getrandbits(1)}", "rnd"))
        elif op == "x.getbit":
            out.append((f"x.getbit {h} {off}", "rnd"))
        elif op == "x.setzeros":
            out.append((f"x.setzeros {h} {off} {rng.choice([n, rng.randrange(0, size * 8 + 9)])}", "rnd"))
        elif op == "x.pad":
            out.append((f"x.pad {h} {off} {rng.choice([8, 16, 32, 64, rng.randrange(1, 256)])}", "rnd"))
        else:
            out.append((f"x.subspan {h} {off} {rng.randrange(0, 80)} {rng.randrange(0, size * 8 + 20)}", "rnd"))
    return out, nexh, nrand


LE_OPS = re.compile(r"^(setu|seti|get[ui](?:8|16|32|64)|[sg]etf(?:32|64)) ")


def to_le(line: str) -> str:
    """the request for the `target_endianness: little` rendering"""
    return LE_OPS.sub(lambda m: m.group(1) + "_le ", line)


def nontrivial(line: str) -> bool:
    t = line.split(" ")
    op = t[0]
    try:
        if op == "x.copy":
            return int(t[5]) > 0 and t[3] != "-" and (int(t[2]) % 8 != 0 or int(t[4]) % 8 != 0 or int(t[5]) % 8 != 0)
        if op == "x.getbits":
            return int(t[4]) > 0 and t[1] != "-"
        if op.startswith("x."):
            return t[1] != "-" and (len(t) < 4 or int(t[-1]) > 0)
        if op in ("min",) or op.startswith("x.align"):
            return True
        if op.startswith(("p.", "pv.")):
            return t[1] != "-" and t[-1] not in ("0", "-")
        if op == "copyself":
            return True
        if op in ("copy",):
            return int(t[3]) > 0 and (int(t[2]) % 8 != 0 or int(t[5]) % 8 != 0 or int(t[3]) % 8 != 0)
        if op == "sat":
            return True
        if op.startswith("getbits"):
            return int(t[5]) > 0 and t[2] != "-"
        if op.startswith(("setbit", "getbit")):
            return t[1] != "-"
        if op.startswith(("setu", "seti")):
            return int(t[5]) > 0 and t[1] != "-"
        return int(t[4]) > 0 and t[1] != "-"
    except (ValueError, IndexError):
        return True


# =====================================================================================================
# implementations
# =====================================================================================================

def nnvg(ctx, lang, out, extra=()):
    ns = ctx.scratch / "ns"
    if not ns.exists():
        ns.mkdir()
        (ns / "A.1.0.dsdl").write_text("uint8 x\n@sealed\n")
    env = dict(os.environ, PYTHONPATH=str(common.REPO / "src"))
    cmd = [common.PY, "-m", "nunavut", "--target-language", lang, "--experimental-languages", "--generate-support", "only",
           "-O", str(out)] + list(extra) + [str(ns)]
    p = subprocess.run(cmd, env=env, capture_output=True, text=True, timeout=300)
    if p.returncode != 0:
        raise RuntimeError(f"nnvg failed: {' '.join(cmd)}\n{p.stderr[-2000:]}")


def op_of(line):
    op = line.split(" ", 1)[0]
    return op[:-3] if op.endswith("_le") else op


class Program:
    """A compiled line-protocol wrapper around a generated support library."""

    def __init__(self, name, exe, rewrite=None, accepts=None):
        self.name, self.exe, self.rewrite, self.accepts = name, exe, rewrite, accepts

    def ask(self, lines, timeout=1500):
        """answers (same length as lines); a crash is answered 'CRASH <what>' and the program restarted after it; an
        operation that keeps crashing is no longer called ('SKIPPED')."""
        answers = [None] * len(lines)
        pending = list(range(len(lines)))
        crashes, total = {}, 0
        env = dict(os.environ, **SAN_ENV)
        while pending:
            data = ("\n".join(lines[i] for i in pending) + "\n").encode()
            p = subprocess.run([str(self.exe)], input=data, capture_output=True, timeout=timeout, env=env)
            got = p.stdout.decode(errors="replace").split("\n")
            if got and got[-1] == "":
                got.pop()
            got = got[: len(pending)]
            for j, a in enumerate(got):
                answers[pending[j]] = a
            if p.returncode == 0 and len(got) == len(pending):
                break
            err = p.stderr.decode(errors="replace")
            m = re.search(r"(ERROR: AddressSanitizer: [^\n]*|runtime error: [^\n]*|ERROR: LeakSanitizer[^\n]*|Assertion[^\n]*)", err)
            what = m.group(1) if m else f"exit {p.returncode}: {err[-300:]}"
            if len(got) == len(pending):            # all answered, died at exit (e.g. a leak report)
                answers[pending[-1]] += " | CRASH-AT-EXIT " + what
                break
            i = pending[len(got)]                   # died on the first unanswered request
            answers[i] = "CRASH " + what
            op = op_of(lines[i])
            crashes[op] = crashes.get(op, 0) + 1
            total += 1
            pending = pending[len(got) + 1:]
            if crashes[op] >= 6 or total >= 60:
                drop = (lambda k: True) if total >= 60 else (lambda k: op_of(lines[k]) == op)
                for k in pending:
                    if drop(k):
                        answers[k] = "SKIPPED"
                pending = [k for k in pending if answers[k] is None]
        return answers


def build_c(ctx):
    """generate + compile the C wrappers; returns [Program]"""
    variants = [("any", []), ("little", ["--target-endianness", "little"])]
    compilers = ["gcc"] if ctx.quick else ["gcc", "clang"]
    jobs = []
    for vname, extra in variants:
        out = ctx.scratch / f"c_{vname}"
        nnvg(ctx, "c", out, extra)
        for cc in compilers:
            exe = ctx.scratch / f"c14_{vname}_{cc}"
            cmd = [cc, "-std=c11", "-O1", "-g", "-Wall", "-Wextra"] + SAN + ["-I", str(out), str(HERE / "c" / "c14_main.c"), "-o", str(exe)]
            jobs.append((f"c-{vname}-{cc}", exe, cmd, to_le if vname == "little" else None))
    if not ctx.quick:
        # the same header with its own assertions switched on (NUNAVUT_ASSERT = assert)
        out = ctx.scratch / "c_asserts"
        nnvg(ctx, "c", out, ["--enable-serialization-asserts"])
        exe = ctx.scratch / "c14_asserts_gcc"
        cmd = ["gcc", "-std=c11", "-O1", "-g", "-DNUNAVUT_ASSERT=assert"] + SAN + ["-I", str(out), str(HERE / "c" / "c14_main.c"), "-o", str(exe)]
        jobs.append(("c-any-asserts-gcc", exe, cmd, None))
    return jobs


def compile_all(ctx, jobs):
    progs = []
    with concurrent.futures.ThreadPoolExecutor(max_workers=8) as ex:
        futs = {ex.submit(subprocess.run, cmd, capture_output=True, text=True, timeout=600): (name, exe, rw) for name, exe, cmd, rw in jobs}
        for f, (name, exe, rw) in futs.items():
            p = f.result()
            if p.returncode != 0:
                # the generated header does not build: the tie is broken, not silently skipped
                ctx.broken.append({"kind": "impl-build", "target": name, "log_tail": (p.stdout + p.stderr)[-2500:]})
            else:
                progs.append(Program(name, exe, rw))
    progs.sort(key=lambda p: p.name)
    return progs


# =====================================================================================================
# comparison
# =====================================================================================================

def compare(ctx, target, lines, streams, model, oracle_ans, impl):
    """model: Lean answers (or None), oracle_ans: contract answers, impl: implementation answers."""
    nfail = 0
    for line, st, m, o, a in zip(lines, streams, model, oracle_ans, impl):
        if a == "SKIPPED":
            ctx.count(f"skipped-after-repeated-crashes:{target}")
            continue
        ctx.traces += 1 if m is not None else 0
        if m is not None and a != m:
            ctx.disagree(f"{target}:{st}", line, m, a)
        if a != o:
            nfail += 1
            if a.startswith("CRASH") or "CRASH-AT-EXIT" in a:
                key = {"kind": "sanitizer", "target": target.split("-")[0], "op": op_of(line)}
                what = "sanitizer report / crash inside a support-library primitive called within its documented contract"
            elif a.startswith(("GUARD", "MISMATCH")):
                key = {"kind": "guard-bytes", "target": target.split("-")[0], "op": op_of(line)}
                what = "a primitive changed bytes outside the buffer it was given (guard bytes) or depends on what lies outside"
            else:
                key = {"kind": "contract", "target": target.split("-")[0], "op": op_of(line)}
                what = "a support-library primitive does not meet its documented contract (reference: big-integer bit arithmetic)"
            ctx.fail(key, what, {"target": target, "request": line, "observed": a, "expected": o, "model": m})
    return nfail


def run_c(ctx, drv):
    cases, nexh, nrand = c_cases(ctx)
    corpus = load_corpus("c")
    lines = [c for c in corpus] + [c for c, _ in cases]
    streams = ["corpus"] * len(corpus) + [s for _, s in cases]
    orc = Oracle()
    oracle_ans = [orc.answer(l) for l in lines]
    keep = [i for i, o in enumerate(oracle_ans) if o is not None]
    lines = [lines[i] for i in keep]; streams = [streams[i] for i in keep]; oracle_ans = [oracle_ans[i] for i in keep]
    ctx.extra.setdefault("domain", {})["c"] = {"corpus": len(corpus), "exhaustive_cases": nexh, "random_cases": nrand,
                                               "requests": len(lines)}
    for l in lines:
        ctx.case(l, nontrivial(l))
        ctx.count("c:" + op_of(l))
    le_lines = [to_le(l) for l in lines]
    model_any = drv.ask(lines, timeout=1500) if drv else [None] * len(lines)
    # only the requests whose text differs need a second model run
    le_idx = [i for i, (a, b) in enumerate(zip(lines, le_lines)) if a != b]
    model_le = list(model_any)
    if drv:
        for i, a in zip(le_idx, drv.ask([le_lines[i] for i in le_idx], timeout=1500)):
            model_le[i] = a
    progs = compile_all(ctx, build_c(ctx))
    with concurrent.futures.ThreadPoolExecutor(max_workers=6) as ex:
        futs = [(p, ex.submit(p.ask, le_lines if p.rewrite else lines)) for p in progs]
        for p, f in futs:
            impl = f.result()
            n = compare(ctx, p.name, le_lines if p.rewrite else lines, streams, model_le if p.rewrite else model_any, oracle_ans, impl)
            ctx.count(f"target:{p.name}", len(lines))
            ctx.extra.setdefault("targets", {})[p.name] = {"requests": len(lines), "contract_failures": n}
    for i in (0, len(lines) // 3, len(lines) - 1):
        ctx.sample({"request": lines[i], "answer": oracle_ans[i]})


def build_cpp(ctx):
    out = ctx.scratch / "cpp"
    nnvg(ctx, "cpp", out)
    stds = ["c++14"] if ctx.quick else ["c++14", "c++17", "c++20"]
    compilers = ["g++"] if ctx.quick else ["g++", "clang++"]
    jobs = []
    for std in stds:
        for cc in compilers:
            if cc == "clang++" and std != "c++17":
                continue
            exe = ctx.scratch / f"c14_cpp_{std.replace('+', 'p')}_{cc.replace('+', 'p')}"
            cmd = [cc, f"-std={std}", "-O1", "-g", "-Wall", "-Wextra"] + SAN + ["-I", str(out), str(HERE / "cpp" / "c14_main.cpp"), "-o", str(exe)]
            jobs.append((f"cpp-{std}-{cc}", exe, cmd, None))
    if True:    # (quick tier too: the library's own assertions are part of what a read at / past the end must not trip)
        out2 = ctx.scratch / "cpp_asserts"
        nnvg(ctx, "cpp", out2, ["--enable-serialization-asserts"])
        exe = ctx.scratch / "c14_cpp_asserts"
        cmd = ["g++", "-std=c++17", "-O1", "-g", "-DNUNAVUT_ASSERT=assert", "-include", "cassert"] + SAN + ["-I", str(out2), str(HERE / "cpp" / "c14_main.cpp"), "-o", str(exe)]
        jobs.append(("cpp-c++17-asserts-g++", exe, cmd, None))
    return jobs


def run_cpp(ctx, drv):
    cases, nexh, nrand = cpp_cases(ctx)
    corpus = load_corpus("cpp")
    lines = list(corpus) + [c for c, _ in cases]
    streams = ["corpus"] * len(corpus) + [s for _, s in cases]
    orc = Oracle()
    oracle_ans = [orc.answer(l) for l in lines]
    keep = [i for i, o in enumerate(oracle_ans) if o is not None]
    lines = [lines[i] for i in keep]; streams = [streams[i] for i in keep]; oracle_ans = [oracle_ans[i] for i in keep]
    ctx.extra.setdefault("domain", {})["cpp"] = {"corpus": len(corpus), "exhaustive_cases": nexh, "random_cases": nrand,
                                                 "requests": len(lines)}
    for l in lines:
        ctx.case(l, nontrivial(l))
        ctx.count("cpp:" + op_of(l))
    model = drv.ask(lines, timeout=1500) if drv else [None] * len(lines)
    progs = compile_all(ctx, build_cpp(ctx))
    def subset_for(p):
        """quick tier: the asserts-on build answers the zero-extension cases (offset at / beyond the end of the data, where a
        read saturates to zero bits) and every 9th other request; thorough: everything"""
        if not (ctx.quick and "asserts" in p.name):
            return list(range(len(lines)))
        keep = []
        for i, l in enumerate(lines):
            t = l.split(" ")
            past_end = False
            if t[0].startswith(("x.getu", "x.geti", "x.getbit", "x.getbits", "x.getf", "x.sub1", "x.subbytes", "x.copy")) and len(t) > 2:
                k = 4 if t[0] == "x.copy" else 2
                d = t[3] if t[0] == "x.copy" else t[1]
                past_end = int(t[k]) >= 8 * (0 if d == "-" else len(d) // 2)
            if past_end or i % 9 == 0:
                keep.append(i)
        return keep

    with concurrent.futures.ThreadPoolExecutor(max_workers=6) as ex:
        subsets = {p.name: subset_for(p) for p in progs}
        futs = [(p, ex.submit(p.ask, [lines[i] for i in subsets[p.name]])) for p in progs]
        for p, f in futs:
            impl = f.result()
            idx = subsets[p.name]
            n = compare(ctx, p.name, [lines[i] for i in idx], [streams[i] for i in idx], [model[i] for i in idx], [oracle_ans[i] for i in idx], impl)
            ctx.count(f"target:{p.name}", len(idx))
            ctx.extra.setdefault("targets", {})[p.name] = {"requests": len(idx), "contract_failures": n}
    ctx.sample({"request": lines[len(lines) // 2], "answer": oracle_ans[len(lines) // 2]})


# ---------------------------------------------------------------------------------------------------- Python
import struct

FLOAT_FMT = {16: "<e", 32: "<f", 64: "<d"}


def ref_pack(w, x):
    """IEEE 754 little-endian pattern of a Python float at width w (reference: the interpreter's own struct; a finite value
    beyond the range becomes an infinity, as the support library documents)"""
    try:
        return struct.pack(FLOAT_FMT[w], x)
    except OverflowError:
        return struct.pack(FLOAT_FMT[w], float("inf") if x > 0 else float("-inf"))


def float_arg(w, arg):
    """the Python float a request denotes: `<hex>` = pattern at width w, `d:<hex>` = binary64 pattern (to be converted),
    `n16:<hex>` / `n32:` / `n64:` = the value of a numpy.float16/32/64 scalar with that pattern (passed as that scalar)"""
    if arg.startswith("d:"):
        return struct.unpack("<d", int(arg[2:], 16).to_bytes(8, "little"))[0]
    if arg.startswith("n"):
        sw = int(arg[1:3])
        return struct.unpack(FLOAT_FMT[sw], int(arg[4:], 16).to_bytes(sw // 8, "little"))[0]
    return struct.unpack(FLOAT_FMT[w], int(arg, 16).to_bytes(w // 8, "little"))[0]


def float_arg_bits(w, arg):
    return le(ref_pack(w, float_arg(w, arg)))


def float_patterns(w):
    """special patterns of width w (only those the interpreter's struct round-trips bit for bit, e.g. no signalling NaNs
    where the conversion through binary64 quiets them)"""
    e, m = {16: (5, 10), 32: (8, 23), 64: (11, 52)}[w]
    sign, emax = 1 << (w - 1), ((1 << e) - 1) << m
    base = [0, 1, (1 << m) - 1, 1 << m, (1 << m) + 1, ((1 << (e - 1)) - 1) << m, (((1 << (e - 1)) - 1) << m) | (1 << (m - 1)),
            emax - (1 << m) + ((1 << m) - 1), emax, emax | (1 << (m - 1)), emax | (1 << (m - 1)) | 5, emax | (1 << (m - 1)) | ((1 << (m - 1)) - 1)]
    out = []
    for b in base:
        for v in (b, b | sign):
            raw = v.to_bytes(w // 8, "little")
            if struct.pack(FLOAT_FMT[w], struct.unpack(FLOAT_FMT[w], raw)[0]) == raw:
                out.append(v)
    return out


def py_float_cases(ctx):
    """The float wrappers add_*_f16/32/64 / fetch_*_f16/32/64.  The ORDER of these requests matters: they are executed one
    after the other in one interpreter (state that survives between calls, e.g. a cache keyed on float equality where
    0.0 == -0.0, must not influence a result), so every special value is followed by its negation and vice versa,
    forwards, backwards, repeated, and in seeded random orders."""
    rng = ctx.rng
    out = []
    rounds = 2 if ctx.quick else 6
    for w in (16, 32, 64):
        pats = float_patterns(w)
        seqs = [pats, pats[::-1], [p ^ (1 << (w - 1)) for p in pats], pats + pats]
        for _ in range(rounds):
            sh = list(pats)
            rng.shuffle(sh)
            seqs.append(sh)
        for seq in seqs:
            for v in seq:
                off = rng.choice([0, 8, 16, 3, 5, 13])
                nb = (off + w + 7) // 8 + 1
                hs = hx(ser_buf(rng, nb, off, 2))
                kind = "a" if off % 8 == 0 and rng.random() < 0.6 else "u"
                out.append((f"p.add_{kind}f{w} {hs} {off} {v:x}", "float-seq"))
                # read the same pattern back from an arbitrary position (also past the end: zero extension)
                raw = (le(patterns(rng, nb, 2)) & ~(((1 << w) - 1) << off)) | (v << off)
                hd = hx((raw & ((1 << (8 * nb)) - 1)).to_bytes(nb, "little"))
                out.append((f"p.f_{kind}f{w} {hd} {off}", "float-seq"))
        # values that are converted (binary64 -> narrower): rounding, overflow to infinity, underflow to signed zero
        if w < 64:
            for x in (0.1, -0.1, 1e-50, -1e-50, 1e300, -1e300, 65504.0, 65520.0, -65520.0, 3.4028235677973366e38, 1.0 + 2 ** -11,
                      2 ** -24, 2 ** -25, -(2 ** -25), 2 ** -149, 2 ** -150, -(2 ** -150)):
                d = le(struct.pack("<d", x))
                for off in (0, 3):
                    hs = hx(ser_buf(rng, (off + w + 7) // 8 + 1, off, 2))
                    out.append((f"p.add_uf{w} {hs} {off} d:{d:x}", "float-seq"))
                    # ... and its negation right after it
                    out.append((f"p.add_uf{w} {hs} {off} d:{d ^ (1 << 63):x}", "float-seq"))
        # the argument is a NumPy float scalar of any width (what a numpy-typed attribute hands over)
        for sw in (16, 32, 64):
            e, m = {16: (5, 10), 32: (8, 23), 64: (11, 52)}[sw]
            one_half = ((((1 << (e - 1)) - 1) << m) | (1 << (m - 1)))
            for v in (0, 1 << (sw - 1), one_half, one_half | (1 << (sw - 1)), ((1 << e) - 1) << m, ((((1 << e) - 2) << m) | ((1 << m) - 1)), 1):
                for off, kind in ((0, "a"), (8, "a"), (5, "u")):
                    hs = hx(ser_buf(rng, (off + w + 7) // 8 + 1, off, 2))
                    out.append((f"p.add_{kind}f{w} {hs} {off} n{sw}:{v:x}", "float-seq"))
    return out


def py_alias_cases(ctx):
    """Results are independent objects: every array a fetch returns is modified in place by the wrapper (as an application
    may do), then the same kind of read is repeated on a FRESH deserializer.  Executed first in the interpreter, in this
    order, so that a failing record carries its complete history.  Covers reads wholly past the end (zero extension of
    a truncated message), partly past the end, and inside the buffer."""
    rng = ctx.rng
    out = []
    for size in (0, 1, 3):
        h = hx(patterns(rng, size, 2))
        for start in (size, size + 1, size + 9, max(0, size - 1), 0):       # byte index where the read starts
            off = start * 8
            for count in (1, 2, 4, 8, 64, 65):
                out.append(f"p.f_abytes {h} {off} {count}")                 # result gets modified in place
                out.append(f"p.f_abytes {h} {off} {count}")                 # same read again, fresh deserializer
                out.append(f"p.slice {h} {start} {start + count}")
                out.append(f"p.f_ubytes {h} {off} {count}")                 # aligned cursor: delegates to the aligned path
                out.append(f"p.f_ubytes {h} {off + 3} {count}")
            for w in (8, 16, 32, 64):
                out.append(f"p.f_aarr{w} {h} {off} 3")
                out.append(f"p.f_aarr{w} {h} {off} 3")
                out.append(f"p.f_uarr{w} {h} {off + 5} 2")
                out.append(f"p.f_au{w} {h} {off}")
                out.append(f"p.f_ai{w} {h} {off}")
            for n in (1, 7, 8, 9, 33, 64):
                out.append(f"p.f_abits {h} {off} {n}")
                out.append(f"p.f_abits {h} {off} {n}")
                out.append(f"p.f_auns {h} {off} {n}")
                out.append(f"p.f_uu {h} {off} {n}")
                out.append(f"p.f_ubits {h} {off} {n}")
            for w in (16, 32, 64):
                out.append(f"p.f_af{w} {h} {off}")
                out.append(f"p.f_uf{w} {h} {off}")
    return [(l, "alias-seq") for l in out]


FETCH_FLOAT = re.compile(r"p\.f_[au]f(16|32|64) ")


def canon_fetch_float(line, ans):
    """A fetched float is observed through struct.pack, which does not keep every NaN payload (a half NaN comes back as
    7e00): a NaN pattern is passed through the interpreter's struct once more — on the implementation's, the model's and
    the reference's answer alike (payloads are compared on the byte-level requests)."""
    m = FETCH_FLOAT.match(line)
    if not m or ans is None or not ans.startswith("ok "):
        return ans
    t = ans.split(" ")
    if t[1] == "-":
        return ans
    w = int(m.group(1))
    e, mant = {16: (5, 10), 32: (8, 23), 64: (11, 52)}[w]
    raw = unhx(t[1])
    v = le(raw)
    is_nan = (v >> mant) & ((1 << e) - 1) == (1 << e) - 1 and v & ((1 << mant) - 1)
    if is_nan and len(raw) == w // 8:       # a NaN is written the way the interpreter's struct carries it (idempotent)
        t[1] = hx(struct.pack(FLOAT_FMT[w], struct.unpack(FLOAT_FMT[w], raw)[0]))
    return " ".join(t)


def py_model_line(line):
    """The float wrappers are `struct.pack` (an external function, parameter of the model) followed by add_*_bytes, and
    fetch_*_bytes followed by `struct.unpack`: the model is asked for the byte-level operation."""
    t = line.split(" ")
    ma = re.fullmatch(r"p\.f_([au])arr(8|16|32|64)", t[0])
    if ma:      # array of standard primitives (little-endian host) = count * itemsize bytes, reinterpreted
        return f"p.fstd_{ma.group(1)} {t[1]} {t[2]} {int(ma.group(2)) // 8} {t[3]}"
    ma = re.fullmatch(r"p\.add_([au])arrs?(8|16|32|64)", t[0])
    if ma:
        return f"p.addstd_{ma.group(1)} {t[1]} {t[2]} {t[3]}"
    m = re.fullmatch(r"p\.(add|f)_([au])f(16|32|64)", t[0])
    if not m:
        return line
    w = int(m.group(3))
    if m.group(1) == "add":
        return f"p.addf_{m.group(2)} {t[1]} {t[2]} {hx(ref_pack(w, float_arg(w, t[3])))}"
    return f"p.ff_{m.group(2)} {t[1]} {t[2]} {w}"


def ser_buf(rng, nbytes, off, k):
    """a serializer buffer of nbytes with arbitrary content below the cursor and zeros from the cursor on"""
    raw = le(patterns(rng, nbytes, k)) & ((1 << off) - 1)
    return (raw & ((1 << (8 * nbytes)) - 1)).to_bytes(nbytes, "little")


def py_cases(ctx):
    rng = ctx.rng
    if ctx.quick:
        offs, lens, sizes = range(0, 18), range(0, 41), range(0, 7)
    else:
        offs, lens, sizes = range(0, 24), range(0, 81), range(0, 11)
    out = []
    for size in sizes:
        for k in range(3):
            for off in offs:
                hd = hx(patterns(rng, size, k))
                for n in lens:
                    # deserializer: any buffer, any cursor
                    out.append((f"p.f_uu {hd} {off} {n}", "exh"))
                    out.append((f"p.f_us {hd} {off} {n}", "exh"))
                    out.append((f"p.f_ubits {hd} {off} {n}", "exh"))
                    out.append((f"p.f_auns {hd} {off} {n}", "exh"))
                    if n % 4 == 0:
                        out.append((f"p.f_asig {hd} {off} {n}", "exh"))
                        out.append((f"p.f_abits {hd} {off} {n}", "exh"))
                    if n <= 12:
                        out.append((f"p.f_ubytes {hd} {off} {n}", "exh"))
                        out.append((f"p.f_abytes {hd} {off} {n}", "exh"))
                    # serializer: zeros from the cursor on; the value pattern is ones / alternating / random
                    hs = hx(ser_buf(rng, size, off, [1, 2, 2][k]))
                    val = [(1 << n) - 1, 0x5555555555555555555555 & ((1 << n) - 1), rng.getrandbits(n) if n else 0][k]
                    out.append((f"p.add_uu {hs} {off} {val} {n}", "exh"))
                    out.append((f"p.add_auns {hs} {off} {val} {n}", "exh"))
                    sval = val - (1 << n) if n and val >> (n - 1) else val
                    out.append((f"p.add_us {hs} {off} {sval} {n}", "exh"))
                    if n % 4 == 1:
                        out.append((f"p.add_asig {hs} {off} {sval} {n}", "exh"))
                    bits = "".join(str(val >> i & 1) for i in range(n)) or "-"
                    out.append((f"p.add_ubits {hs} {off} {bits}", "exh"))
                    if n % 4 == 3 or n < 10:
                        out.append((f"p.add_abits {hs} {off} {bits}", "exh"))
                    if n <= 6:
                        v = hx(patterns(rng, n, [1, 2, 2][k]))
                        out.append((f"p.add_ubytes {hs} {off} {v}", "exh"))
                        out.append((f"p.add_abytes {hs} {off} {v}", "exh"))
                hs = hx(ser_buf(rng, size, off, [1, 2, 2][k]))
                out.append((f"p.add_ubit {hs} {off} {[1, 0, 1][k]}", "exh"))
                out.append((f"p.f_ubit {hd} {off}", "exh"))
                for n in (0, 1, 3, 8, 16, 32, 64):
                    out.append((f"p.pad {hs} {off} {n}", "exh"))
                    out.append((f"p.f_pad {hd} {off} {n}", "exh"))
                for w in (8, 16, 32, 64):
                    out.append((f"p.f_au{w} {hd} {off}", "exh"))
                    out.append((f"p.f_ai{w} {hd} {off}", "exh"))
                    uv = [(1 << w) - 1, 1 << (w - 1), rng.getrandbits(w)][k]
                    out.append((f"p.add_au{w} {hs} {off} {uv}", "exh"))
                    out.append((f"p.add_ai{w} {hs} {off} {uv - (1 << w) if uv >> (w - 1) else uv}", "exh"))
                out.append((f"p.slice {hd} {off % 7} {off % 7 + off // 3}", "exh"))
                out.append((f"p.byte {hd} {off}", "exh"))
    for n in range(1, 70):
        for v in (0, 1, (1 << n) - 1, 1 << (n - 1), rng.getrandbits(n + 3)):
            out.append((f"p.u2b {v} {n}", "exh"))
    nexh = len(out)
    nrand = 6000 if ctx.quick else 150000
    for _ in range(nrand):
        size = rng.choice([0, 1, 2, 3, 8, 9, 17, 40])
        off = rng.choice([rng.randrange(0, size * 8 + 12), rng.randrange(0, 400), size * 8])
        n = rng.choice([rng.randrange(0, 130), rng.randrange(0, 20), 64, 1, 2])
        hd = hx(bytes(rng.getrandbits(8) for _ in range(size)))
        big = size + (n + 7) // 8 + rng.choice([0, 1, 1, 2])
        hs = hx(ser_buf(rng, big, min(off, big * 8), 2))
        val = rng.getrandbits(n) if n else 0
        op = rng.choice(["f_uu", "f_us", "f_ubits", "f_ubytes", "f_auns", "add_uu", "add_us", "add_ubits", "add_ubytes", "add_auns",
                         "add_abytes", "neg", "wide"])
        if op in ("f_uu", "f_us", "f_ubits", "f_auns"):
            out.append((f"p.{op} {hd} {off} {n}", "rnd"))
        elif op == "f_ubytes":
            out.append((f"p.f_ubytes {hd} {off} {n // 4}", "rnd"))
        elif op in ("add_uu", "add_auns"):
            o = off // 8 * 8 if op == "add_auns" else off
            out.append((f"p.{op} {hs} {min(o, big * 8)} {val} {n}", "rnd"))
        elif op == "add_us":
            out.append((f"p.add_us {hs} {min(off, big * 8)} {val - (1 << n) if n and val >> (n - 1) else val} {n}", "rnd"))
        elif op == "add_ubits":
            out.append((f"p.add_ubits {hs} {min(off, big * 8)} {''.join(str(val >> i & 1) for i in range(n)) or '-'}", "rnd"))
        elif op in ("add_ubytes", "add_abytes"):
            v = hx(bytes(rng.getrandbits(8) for _ in range(n // 8)))
            o = off // 8 * 8 if op == "add_abytes" else off
            out.append((f"p.{op} {hs} {min(o, big * 8)} {v}", "rnd"))
        elif op == "neg":   # API misuse: the model must raise the same kind of error
            out.append((f"p.add_uu {hs} {min(off, big * 8)} {-val - 1} {n}", "rnd"))
        else:               # value wider than the field: truncated
            out.append((f"p.add_uu {hs} {min(off, big * 8)} {rng.getrandbits(n + 9)} {n}", "rnd"))
    out += py_typed_cases(ctx)
    out += py_glue_cases(ctx)
    out += py_float_cases(ctx)
    return out, nexh, nrand


NP_KINDS = {"i8": (True, 8), "i16": (True, 16), "i32": (True, 32), "i64": (True, 64), "u8": (False, 8), "u16": (False, 16), "u32": (False, 32), "u64": (False, 64)}


def kind_range(ty):
    signed, bits = NP_KINDS[ty]
    return (-(1 << (bits - 1)), (1 << (bits - 1)) - 1) if signed else (0, (1 << bits) - 1)


def py_typed_cases(ctx):
    """The integer methods called with arguments of every accepted type: Python int / bool, numpy.bool_, and NumPy integer
    scalars of every fixed width (what the elements of generated intN[...] / uintN[...] array attributes are) — negative,
    extreme and ordinary values, every bit length 1..64, aligned and unaligned."""
    rng = ctx.rng
    out = []

    def room(off, n, v_for="u"):
        nb = (off + n + 7) // 8 + 1
        return hx(ser_buf(rng, nb, off, 2))

    for ty in NP_KINDS:
        lo, hi = kind_range(ty)
        for n in range(1, 65):
            # signed methods: the extremes of the n-bit range that the type can hold, -1, 0, 1 and a random one
            if n >= 2:
                nlo, nhi = -(1 << (n - 1)), (1 << (n - 1)) - 1
                vals = {max(nlo, lo), max(nlo, lo) + 1, -1 if lo < 0 else 0, 0, 1, min(nhi, hi), rng.randint(max(nlo, lo), min(nhi, hi))}
                for v in sorted(vals):
                    for off in (0, 3) if (n + v) % 2 else (8, 13):
                        out.append((f"pv.add_us {room(off, n)} {off} {v}:{ty} {n}", "typed"))
                        if off % 8 == 0:
                            out.append((f"pv.add_asig {room(off, n)} {off} {v}:{ty} {n}", "typed"))
            # unsigned methods: 0, 1, all ones of n bits (if the type holds it), the type's maximum (truncated), random; one negative
            vals = {0, 1, min((1 << n) - 1, hi), hi, rng.randint(0, hi)}
            if lo < 0 and n % 8 == 1:
                vals.add(-1)
            for v in sorted(vals):
                for off in (0, 5) if (n + v) % 2 else (16, 9):
                    out.append((f"pv.add_uu {room(off, n)} {off} {v}:{ty} {n}", "typed"))
                    if off % 8 == 0:
                        out.append((f"pv.add_auns {room(off, n)} {off} {v}:{ty} {n}", "typed"))
        # standard-width methods (computed in the argument's own type)
        for w in (8, 16, 32, 64):
            wlo, whi = -(1 << (w - 1)), (1 << (w - 1)) - 1
            for v in sorted({max(lo, wlo), -1 if lo < 0 else 0, 0, 1, 5, min(hi, whi), min(hi, 255), min(hi, (1 << w) - 1), hi}):
                hs = hx(ser_buf(rng, 10, 8, 2))
                if v >= wlo and v <= whi:
                    out.append((f"pv.add_ai{w} {hs} 8 {v}:{ty}", "typed"))
                out.append((f"pv.add_au{w} {hs} 8 {v}:{ty}", "typed"))
        for v in (lo, -1 if lo < 0 else 0, 0, 1, 2, hi):
            for off in (0, 6, 7):
                out.append((f"pv.add_ubit {hx(ser_buf(rng, 2, off, 2))} {off} {v}:{ty}", "typed"))
    for ty, vals in (("int", (-(1 << 63), -129, -1, 0, 1, 200, 255, 256, (1 << 64) - 1)), ("bool", (0, 1)), ("npbool", (0, 1))):
        for v in vals:
            for n in (1, 2, 7, 8, 9, 31, 64):
                for off in (0, 3):
                    out.append((f"pv.add_uu {room(off, n)} {off} {v}:{ty} {n}", "typed"))
                    if n >= 2:
                        out.append((f"pv.add_us {room(off, n)} {off} {v}:{ty} {n}", "typed"))
            hs = hx(ser_buf(rng, 10, 8, 2))
            for w in (8, 16, 32, 64):
                out.append((f"pv.add_au{w} {hs} 8 {v}:{ty}", "typed"))
                out.append((f"pv.add_ai{w} {hs} 8 {v}:{ty}", "typed"))
            out.append((f"pv.add_ubit {hx(ser_buf(rng, 2, 5, 2))} 5 {v}:{ty}", "typed"))
    return out


def py_glue_cases(ctx):
    """Serializer.new / buffer / skip_bits / fork_bytes (+ writing through the fork), the bulk array methods, Deserializer
    bookkeeping / skip_bits / fork_bytes, the ZeroExtendingBuffer surface, negative counts."""
    rng = ctx.rng
    out = []
    for n in (0, 1, 2, 7, 64):
        out.append((f"p.new {n}", "glue"))
    for size in range(0, 7):
        for off in list(range(0, 8 * size + 3)):
            if off > 8 * size:
                continue
            hs = hx(ser_buf(rng, size, off, 2))
            out.append((f"p.buffer {hs} {off}", "glue"))
            for n in (0, 1, 7, 8, 32):
                out.append((f"p.skip {hs} {off} {n}", "glue"))
            for k in (0, 1, 2, size, size + 1):
                out.append((f"p.fork {hs} {off} {k}", "glue"))
                for nbits in (1, 5, 8, 9, 16):
                    out.append((f"p.forkadd {hs} {off} {k} {rng.getrandbits(nbits + 2)} {nbits}", "glue"))
    for w in (8, 16, 32, 64):
        for count in (0, 1, 2, 3):
            v = hx(bytes(rng.getrandbits(8) for _ in range(count * w // 8)))
            for off in (0, 8, 3, 13):
                hs = hx(ser_buf(rng, (off + 7) // 8 + count * w // 8 + 1, off, 2))
                kind = "a" if off % 8 == 0 else "u"
                out.append((f"p.add_{kind}arr{w} {hs} {off} {v}", "glue"))
                out.append((f"p.add_{kind}arrs{w} {hs} {off} {v}", "glue"))        # the same elements as a strided view a[::2]
                out.append((f"p.add_uarr{w} {hs} {off} {v}", "glue"))
    for size in range(0, 6):
        hd = hx(patterns(rng, size, 2))
        out.append((f"p.zeb {hd}", "glue"))
        out.append((f"p.zeb {hd},{hd}", "glue"))
        out.append((f"p.zeb -,{hd},-", "glue"))
        out.append((f"p.zeb 01,{hd},0203,-,ff", "glue"))
        for i in (-2, -1, 0, 1, size - 1, size, size + 5):
            out.append((f"p.bytez {hd} {i}", "glue"))
            for r in (-1, 0, i, i + 1, size, size + 3):
                out.append((f"p.slicez {hd} {i} {r}", "glue"))
        for o in range(0, size + 3):
            for l in (0, 1, 2, size):
                out.append((f"p.zfork {hd} {o} {l}", "glue"))
        for off in list(range(0, 8 * size + 20, 1 if size < 3 else 4)) + [8 * size, 8 * size + 8, 8 * size + 64]:
            out.append((f"p.remaining {hd} {off}", "glue"))
            for k in (0, 1, 2, size, size + 1):
                out.append((f"p.dfork {hd} {off} {k}", "glue"))
            for n in (-3, -1, 0, 1, 9, 64):
                out.append((f"p.dskip {hd} {off} {n}", "glue"))
            for n in (-5, -1, 0, 1, 8, 12):
                for op in ("fz_ubits", "fz_uu"):
                    out.append((f"p.{op} {hd} {off} {n}", "glue"))
                if off % 8 == 0:
                    for op in ("fz_abytes", "fz_abits", "fz_auns"):
                        out.append((f"p.{op} {hd} {off} {n}", "glue"))
    return out


class PyImpl:
    """the generated nunavut_support.py of the tree under check, imported with NumPy from the offline wheels"""

    def __init__(self, ctx):
        npdir = ctx.scratch / "np"
        try:
            import numpy  # noqa: F401
        except ImportError:
            p = subprocess.run([common.PY, "-m", "pip", "install", "--no-index", "--find-links", "/opt/veriftools/wheels", "--target", str(npdir),
                                "-q", "numpy"], capture_output=True, text=True, timeout=600)
            if p.returncode != 0:
                raise RuntimeError("cannot install numpy: " + p.stderr[-1500:])
            sys.path.insert(0, str(npdir))
        out = ctx.scratch / "py"
        nnvg(ctx, "py", out)
        sys.path.insert(0, str(out))
        import importlib
        import numpy
        self.np = numpy
        sys.modules.pop("nunavut_support", None)
        self.ns = importlib.import_module("nunavut_support")
        self.path = self.ns.__file__

    def scribble(self, a):
        """What an application may do with a result it was handed: modify it in place.  The sources given to the
        deserializer are immutable `bytes`, so a result is either a read-only view of the source (the write raises) or a
        fresh array; in neither case may a later call observe the write."""
        if getattr(self, "pres", "bytes") != "bytes":
            return      # a writable source (bytearray, array) is documented to be referenced directly: writing a result writes it
        try:
            a[...] = True if a.dtype == bool else (0xA5 if a.dtype.itemsize == 1 else 0xA5A5)
            self.scribbled = getattr(self, "scribbled", 0) + 1
        except ValueError:          # read-only view of the immutable source
            pass

    def ser(self, buf, off):
        s = self.ns.Serializer.new(0).__class__(self.np.frombuffer(bytearray(buf), dtype=self.np.uint8))
        s._bit_offset = off
        return s

    PRESENTATIONS = ["bytes", "bytearray", "mv-b", "mv-B", "mv-H", "np-int8", "np-uint8", "np-uint16", "array-B", "array-b", "array-H", "two-fragments"]

    def frags(self, buf):
        """the same bytes as the caller may present them (self.pres): the result must not depend on the presentation"""
        import array
        np, pres, raw = self.np, getattr(self, "pres", "bytes"), bytes(buf)
        even = len(raw) % 2 == 0
        if pres == "bytearray": return [memoryview(bytearray(raw))]
        if pres == "mv-b": return [memoryview(raw).cast("b")]
        if pres == "mv-B": return [memoryview(raw).cast("B")]
        if pres == "mv-H" and even: return [memoryview(raw).cast("H")]
        if pres == "np-int8": return [memoryview(np.frombuffer(raw, dtype=np.int8))]
        if pres == "np-uint8": return [memoryview(np.frombuffer(raw, dtype=np.uint8))]
        if pres == "np-uint16" and even: return [memoryview(np.frombuffer(raw, dtype=np.uint16))]
        if pres == "array-B": return [memoryview(array.array("B", raw))]
        if pres == "array-b": return [memoryview(array.array("b", [x - 256 if x > 127 else x for x in raw]))]
        if pres == "array-H" and even: return [memoryview(array.array("H", raw))] if False else [memoryview(np.frombuffer(raw, dtype=np.uint16).copy())]
        if pres == "two-fragments": return [memoryview(raw[: len(raw) // 2]).cast("b"), memoryview(raw[len(raw) // 2:])]
        return [memoryview(raw)]

    def de(self, buf, off):
        d = self.ns.Deserializer.new(self.frags(buf))
        d._bit_offset = off
        return d

    def answer(self, line):
        try:
            return self._answer(line)
        except IndexError:
            return "err:oob"
        except ValueError as e:
            return "err:oob" if "broadcast" in str(e) else "err:usage"
        except (AssertionError, OverflowError, ZeroDivisionError):
            return "err:usage"

    def typed(self, tok):
        """`<value>:<type>` -> the Python / NumPy object a caller would pass"""
        v, ty = tok.split(":")
        v = int(v)
        if ty == "int":
            return v
        if ty == "bool":
            return bool(v)
        if ty == "npbool":
            return self.np.bool_(v)
        return getattr(self.np, {"i": "int", "u": "uint"}[ty[0]] + ty[1:])(v)

    def _answer_ext(self, line, t, op):
        np, ns = self.np, self.ns
        if op.startswith("pv."):
            s = self.ser(unhx(t[1]), int(t[2]))
            x = self.typed(t[3])
            if op == "pv.add_uu": s.add_unaligned_unsigned(x, int(t[4]))
            elif op == "pv.add_us": s.add_unaligned_signed(x, int(t[4]))
            elif op == "pv.add_auns": s.add_aligned_unsigned(x, int(t[4]))
            elif op == "pv.add_asig": s.add_aligned_signed(x, int(t[4]))
            elif op == "pv.add_ubit": s.add_unaligned_bit(x)
            else:
                m = re.fullmatch(r"pv\.add_a([ui])(8|16|32|64)", op)
                getattr(s, f"add_aligned_{m.group(1)}{m.group(2)}")(x)
            return f"ok {hx(bytes(s._buf))} {s.current_bit_length}"
        if op == "p.new":
            s = ns.Serializer.new(int(t[1]))
            return f"ok {hx(bytes(s._buf))} {s.current_bit_length}"
        if op == "p.zeb":
            z = ns.ZeroExtendingBuffer([memoryview(unhx(f)) for f in ([] if t[1] == "!" else t[1].split(","))])
            return f"ok {hx(bytes(z._buf))} {z.bit_length}"
        if op == "p.bytez":
            return "ok %d" % ns.ZeroExtendingBuffer(self.frags(unhx(t[1]))).get_byte(int(t[2]))
        if op == "p.slicez":
            return "ok " + hx(bytes(ns.ZeroExtendingBuffer(self.frags(unhx(t[1]))).get_unsigned_slice(int(t[2]), int(t[3]))))
        if op == "p.zfork":
            frs = ns.ZeroExtendingBuffer([memoryview(unhx(t[1]))]).fork_bytes(int(t[2]), int(t[3]))
            return "ok " + hx(b"".join(bytes(f) for f in frs))
        if op in ("p.buffer", "p.skip", "p.fork", "p.forkadd"):
            s = self.ser(unhx(t[1]), int(t[2]))
            if op == "p.buffer":
                return "ok " + hx(bytes(s.buffer))
            if op == "p.skip":
                s.skip_bits(int(t[3]))
                return f"ok {hx(bytes(s._buf))} {s.current_bit_length}"
            f = s.fork_bytes(int(t[3]))
            if op == "p.fork":
                return f"ok {hx(bytes(f._buf))} {f.current_bit_length}"
            f.add_unaligned_unsigned(int(t[4]), int(t[5]))          # the fork writes through a view of the parent's buffer
            s.skip_bits(f.current_bit_length)
            return f"ok {hx(bytes(s._buf))} {s.current_bit_length}"
        ma = re.fullmatch(r"p\.add_([au])arr(s?)(8|16|32|64)", op)
        if ma:
            s = self.ser(unhx(t[1]), int(t[2]))
            a = np.frombuffer(bytes(unhx(t[3])), dtype=getattr(np, "uint" + ma.group(3)))
            if ma.group(2):                                         # a strided (non-contiguous) view holding the same elements
                a = np.repeat(a, 2)[::2]
            getattr(s, f"add_{'aligned' if ma.group(1) == 'a' else 'unaligned'}_array_of_standard_bit_length_primitives")(a)
            return f"ok {hx(bytes(s._buf))} {s.current_bit_length}"
        if op in ("p.remaining", "p.dskip", "p.dfork") or op.startswith("p.fz_"):
            buf = unhx(t[1])
            d = self.de(buf, int(t[2]))
            if op == "p.remaining":
                return f"ok {d.consumed_bit_length} {d.remaining_bit_length}"
            if op == "p.dskip":
                d.skip_bits(int(t[3]))
                return f"ok {d.consumed_bit_length}"
            if op == "p.dfork":
                f = d.fork_bytes(int(t[3]))
                return f"ok {hx(bytes(f._buf._buf))} {f.remaining_bit_length}"
            n = int(t[3])
            if op == "p.fz_abytes": r = hx(bytes(d.fetch_aligned_bytes(n)))
            elif op == "p.fz_abits": r = "".join("1" if x else "0" for x in d.fetch_aligned_array_of_bits(n)) or "-"
            elif op == "p.fz_ubits": r = "".join("1" if x else "0" for x in d.fetch_unaligned_array_of_bits(n)) or "-"
            elif op == "p.fz_auns": r = str(d.fetch_aligned_unsigned(n))
            else: r = str(d.fetch_unaligned_unsigned(n))
            return f"ok {r} {d.consumed_bit_length}"
        return None

    def _answer(self, line):
        np, ns = self.np, self.ns
        t = line.split(" ")
        op = t[0]
        ext = self._answer_ext(line, t, op)
        if ext is not None:
            return ext
        arr = lambda h: np.frombuffer(bytearray(unhx(h)), dtype=np.uint8)
        bits = lambda b: np.array([c == "1" for c in ("" if b == "-" else b)], dtype=bool)
        showbits = lambda a: "".join("1" if x else "0" for x in a) or "-"
        if op == "p.u2b":
            return "ok " + hx(bytes(ns.Serializer._unsigned_to_bytes(int(t[1]), int(t[2]))))
        if op == "p.slice":
            res = ns.ZeroExtendingBuffer(self.frags(unhx(t[1]))).get_unsigned_slice(int(t[2]), int(t[3]))
            r = "ok " + hx(bytes(res)); self.scribble(res)
            return r
        if op == "p.byte":
            return "ok %d" % ns.ZeroExtendingBuffer(self.frags(unhx(t[1]))).get_byte(int(t[2]))
        buf, off = unhx(t[1]), int(t[2])
        mf = re.fullmatch(r"p\.(add|f)_([au])f(16|32|64)", op)
        if mf:
            w, al = int(mf.group(3)), "aligned" if mf.group(2) == "a" else "unaligned"
            if mf.group(1) == "add":
                s = self.ser(buf, off)
                x = float_arg(w, t[3])
                if t[3].startswith("n"):                            # hand over a NumPy float scalar of that width
                    x = getattr(np, "float" + t[3][1:3])(x)
                getattr(s, f"add_{al}_f{w}")(x)
                return f"ok {hx(bytes(s._buf))} {s._bit_offset}"
            d = self.de(buf, off)
            x = getattr(d, f"fetch_{al}_f{w}")()
            return f"ok {hx(struct.pack(FLOAT_FMT[w], x))} {d._bit_offset}"
        if op.startswith("p.add") or op == "p.pad":
            s = self.ser(buf, off)
            if op == "p.add_ubytes": s.add_unaligned_bytes(arr(t[3]))
            elif op == "p.add_abytes": s.add_aligned_bytes(arr(t[3]))
            elif op == "p.add_ubits": s.add_unaligned_array_of_bits(bits(t[3]))
            elif op == "p.add_abits": s.add_aligned_array_of_bits(bits(t[3]))
            elif op == "p.add_ubit": s.add_unaligned_bit(t[3] == "1")
            elif op == "p.pad": s.pad_to_alignment(int(t[3]))
            elif op == "p.add_uu": s.add_unaligned_unsigned(int(t[3]), int(t[4]))
            elif op == "p.add_us": s.add_unaligned_signed(int(t[3]), int(t[4]))
            elif op == "p.add_auns": s.add_aligned_unsigned(int(t[3]), int(t[4]))
            elif op == "p.add_asig": s.add_aligned_signed(int(t[3]), int(t[4]))
            else:
                m = re.fullmatch(r"p\.add_a([ui])(8|16|32|64)", op)
                getattr(s, f"add_aligned_{m.group(1)}{m.group(2)}")(int(t[3]))
            return f"ok {hx(bytes(s._buf))} {s._bit_offset}"
        d = self.de(buf, off)
        ma = re.fullmatch(r"p\.f_([au])arr(8|16|32|64)", op)
        if ma:
            al = "aligned" if ma.group(1) == "a" else "unaligned"
            res = getattr(d, f"fetch_{al}_array_of_standard_bit_length_primitives")(getattr(np, "uint" + ma.group(2)), int(t[3]))
            r = hx(res.tobytes()); self.scribble(res)
        elif op == "p.f_ubytes": res = d.fetch_unaligned_bytes(int(t[3])); r = hx(bytes(res)); self.scribble(res)
        elif op == "p.f_abytes": res = d.fetch_aligned_bytes(int(t[3])); r = hx(bytes(res)); self.scribble(res)
        elif op == "p.f_ubits": res = d.fetch_unaligned_array_of_bits(int(t[3])); r = showbits(res); self.scribble(res)
        elif op == "p.f_abits": res = d.fetch_aligned_array_of_bits(int(t[3])); r = showbits(res); self.scribble(res)
        elif op == "p.f_ubit": r = "1" if d.fetch_unaligned_bit() else "0"
        elif op == "p.f_pad":
            d.pad_to_alignment(int(t[3]))
            return f"ok {d._bit_offset}"
        elif op == "p.f_uu": r = str(d.fetch_unaligned_unsigned(int(t[3])))
        elif op == "p.f_us": r = str(d.fetch_unaligned_signed(int(t[3])))
        elif op == "p.f_auns": r = str(d.fetch_aligned_unsigned(int(t[3])))
        elif op == "p.f_asig": r = str(d.fetch_aligned_signed(int(t[3])))
        else:
            m = re.fullmatch(r"p\.f_a([ui])(8|16|32|64)", op)
            r = str(getattr(d, f"fetch_aligned_{m.group(1)}{m.group(2)}")())
        if bytes(d._buf._buf) != buf:
            return "MISMATCH source buffer modified"
        return f"ok {r} {d._bit_offset}"


SEQ_STREAMS = ("float-seq", "alias-seq")


def run_py(ctx, drv):
    cases, nexh, nrand = py_cases(ctx)
    corpus = load_corpus("py")
    alias = py_alias_cases(ctx)            # first: its history within this interpreter is then complete
    lines = [c for c, _ in alias] + list(corpus) + [c for c, _ in cases]
    streams = [s for _, s in alias] + ["corpus"] * len(corpus) + [s for _, s in cases]
    orc = Oracle()
    impl = PyImpl(ctx)
    ctx.extra.setdefault("domain", {})["py"] = {"corpus": len(corpus), "exhaustive_cases": nexh, "random_cases": nrand,
                                                "requests": len(lines), "numpy": impl.np.__version__}
    model = drv.ask([py_model_line(l) for l in lines], timeout=1500) if drv else [None] * len(lines)
    ncontract = nfail = 0
    history = []        # the float-wrapper requests run so far in this interpreter (their outcome may depend on the order)
    for line, st, m in zip(lines, streams, model):
        a = canon_fetch_float(line, impl.answer(line))
        m = canon_fetch_float(line, m)
        if st in SEQ_STREAMS:
            history.append(line)
        o = canon_fetch_float(line, orc.answer(line))
        ctx.case(line, o is not None and nontrivial(line))
        ctx.count("py:" + op_of(line))
        if m is not None:
            ctx.traces += 1
            if a != m:
                ctx.disagree(f"py:{st}", line, m, a)
        if a.startswith("err:"):
            ctx.count("py:" + a)
        if o is not None:
            ncontract += 1
            if a != o:
                nfail += 1
                ctx.fail({"kind": "contract", "target": "py", "op": op_of(line)},
                         "a Serializer/Deserializer primitive does not meet its contract (reference: big-integer bit arithmetic)",
                         dict({"target": "py", "request": line, "observed": a, "expected": o, "model": m},
                              **({"history": history[-41:-1] if st == "float-seq" else history[:-1],
                                  "note": "run `history` first, in the same interpreter (the wrapper modifies every returned array in place)"}
                                 if st in SEQ_STREAMS else
                                 {"note": "every array returned earlier in this interpreter was modified in place by the wrapper; if this "
                                          "request passes alone, see the alias-seq record"})))
    # the same source bytes presented in every way a caller may (bytes, bytearray, memoryview casts, NumPy arrays of other item
    # types, array.array, two fragments): every Deserializer / ZeroExtendingBuffer read must give the answer it gives for `bytes`
    de_ops = ("p.f_", "p.byte", "p.bytez", "p.slice", "p.slicez", "p.dfork", "p.remaining", "p.fz_")
    cand = [(l, m) for l, st, m in zip(lines, streams, model) if l.startswith(de_ops) and st not in SEQ_STREAMS and l.split(" ")[1] != "-"]
    step = max(1, len(cand) // (2500 if ctx.quick else 40000))
    npres = 0
    for k, (line, m) in enumerate(cand[::step]):
        o = canon_fetch_float(line, orc.answer(line))
        m = canon_fetch_float(line, m)
        for pres in PyImpl.PRESENTATIONS[1:]:
            if (k + len(pres)) % 3 and pres not in ("mv-b", "np-int8"):     # the signed item types always, the others in rotation
                continue
            impl.pres = pres
            a = canon_fetch_float(line, impl.answer(line))
            npres += 1
            ctx.case(("presentation", pres, line), True)
            ctx.count("py:presentation:" + pres)
            if m is not None:
                ctx.traces += 1
                if a != m:
                    ctx.disagree("py:presentation", {"request": line, "presentation": pres}, m, a)
            if o is not None and a != o:
                nfail += 1
                ctx.fail({"kind": "source-presentation", "target": "py", "op": op_of(line)},
                         "a Deserializer / ZeroExtendingBuffer read depends on how the caller presents the source bytes (item format of the memoryview / array)",
                         {"target": "py", "request": line, "presentation": pres, "observed": a, "expected": o, "model": m})
    impl.pres = "bytes"
    ctx.extra["py_source_presentations"] = {"kinds": PyImpl.PRESENTATIONS, "requests": npres}
    ctx.extra.setdefault("targets", {})["py-numpy"] = {"requests": len(lines), "within_contract": ncontract, "contract_failures": nfail}
    ctx.extra["py_results_modified_in_place"] = getattr(impl, "scribbled", 0)
    ctx.sample({"request": lines[len(lines) // 2], "answer": impl.answer(lines[len(lines) // 2])})
    return impl.path


# =====================================================================================================
# coverage: every function of the three support libraries is in a row of harness/c14_coverage.json
# =====================================================================================================

KEYWORDS = {"if", "while", "for", "switch", "return", "sizeof", "static_assert", "alignof", "decltype", "catch", "defined", "assert", "NUNAVUT_ASSERT"}

def strip_c(text):
    text = re.sub(r"/\*.*?\*/", " ", text, flags=re.S)
    text = re.sub(r"//[^\n]*", " ", text)
    text = re.sub(r'"(?:\\.|[^"\\])*"', '""', text)
    # preprocessor lines (with continuations)
    text = re.sub(r"^[ \t]*#(?:[^\n]*\\\n)*[^\n]*", " ", text, flags=re.M)
    return text

def c_like_functions(text):
    """names declared/defined at namespace or class scope: [(qualified scope, name)]"""
    text = strip_c(text)
    out = []
    scopes = []      # (kind, name) kind in ns/type/func/other
    stmt = []
    paren = 0
    i, n = 0, len(text)
    def head_name(s):
        s = s.strip()
        # drop leading template<...>
        while s.startswith("template"):
            d, j = 0, s.index("<")
            while True:
                if s[j] == "<": d += 1
                elif s[j] == ">":
                    d -= 1
                    if d == 0: break
                j += 1
            s = s[j + 1:].strip()
        if "(" not in s or s.startswith(("using ", "typedef ", "friend ")):
            return None
        k = s.index("(")
        pre = s[:k].rstrip()
        if "=" in pre and "operator" not in pre:
            return None          # an initialised variable, not a function
        m = re.search(r"((?:\w+::)*)(operator\s*(?:\(\)|\[\]|[^\s\w(]+|\w+)|~?\w+)$", pre)
        if not m: return None
        name = re.sub(r"\s+", "", m.group(2))
        if name in KEYWORDS: return None
        return m.group(1) + name
    while i < n:
        c = text[i]
        if c == "(":
            paren += 1; stmt.append(c)
        elif c == ")":
            paren -= 1; stmt.append(c)
        elif c == "{" and paren == 0:
            s = "".join(stmt).strip()
            in_code = any(k == "func" for k, _ in scopes)
            m = re.match(r"(?:inline\s+)?namespace\s*(\w*)|extern\s*\"\"", s)
            t = re.search(r"\b(class|struct|union|enum(?:\s+class)?)\s+(\w+)[^()]*$", s)
            if in_code:
                scopes.append(("other", ""))
            elif m:
                scopes.append(("ns", m.group(1) or ""))
            elif t and "(" not in s.split(t.group(0))[0][-1:]:
                scopes.append(("type", t.group(2)))
            else:
                nm = head_name(s)
                if nm:
                    out.append(("::".join(x for k, x in scopes if x), nm))
                    scopes.append(("func", nm))
                else:
                    scopes.append(("other", ""))
            stmt = []
        elif c == "}" and paren == 0:
            if scopes: scopes.pop()
            stmt = []
        elif c == ";" and paren == 0:
            s = "".join(stmt)
            if not any(k in ("func", "other") for k, _ in scopes):
                nm = head_name(s)
                if nm:
                    out.append(("::".join(x for k, x in scopes if x), nm))
            stmt = []
        else:
            stmt.append(c)
        i += 1
    return out

def py_functions(path, classes):
    tree = ast.parse(pathlib.Path(path).read_text())
    out = []
    for node in tree.body:
        if isinstance(node, ast.ClassDef) and node.name in classes:
            for sub in node.body:
                if isinstance(sub, (ast.FunctionDef, ast.AsyncFunctionDef)):
                    out.append((node.name, sub.name))
        if isinstance(node, ast.FunctionDef) and node.name in ("_ensure_cardinal",):
            out.append(("", node.name))
    return out



PY_CLASSES = {"Serializer", "_LittleEndianSerializer", "_BigEndianSerializer", "Deserializer", "_LittleEndianDeserializer",
              "_BigEndianDeserializer", "ZeroExtendingBuffer"}


def support_functions(ctx, py_path):
    """keys `c:<name>`, `cpp:<class>::<name>` / `cpp:<name>`, `py:<Class>.<name>` of everything the generated support files define"""
    keys = set()
    for scope, name in c_like_functions((ctx.scratch / "c_any" / "nunavut" / "support" / "serialization.h").read_text()):
        keys.add("c:" + name)
    for scope, name in c_like_functions((ctx.scratch / "cpp" / "nunavut" / "support" / "serialization.hpp").read_text()):
        parts = [x for x in (scope.split("::") + name.split("::")) if x and x not in ("nunavut", "support", "detail", "options")]
        keys.add("cpp:" + "::".join(parts[-2:]))
    for cls, name in py_functions(py_path, PY_CLASSES):
        keys.add("py:" + (cls + "." if cls else "") + name)
    return keys


def run_coverage(ctx, py_path):
    doc = json.loads((HERE / "c14_coverage.json").read_text())
    rows = doc["rows"]
    try:
        found = support_functions(ctx, py_path)
    except (OSError, SyntaxError) as e:
        ctx.broken.append({"kind": "coverage-scan", "error": repr(e)})
        return
    missing = sorted(found - set(rows))
    stale = sorted(set(rows) - found)
    proved = {n.split(".")[-1] for n in ctx.obligations}
    unknown = sorted({(k, th) for k, r in rows.items() for th in r["theorems"] if th not in proved})
    no_theorem = sorted(k for k, r in rows.items() if r["status"] == "theorem" and not r["theorems"])
    ctx.extra["coverage"] = {"functions_in_templates": len(found), "rows": len(rows), "with_theorem": sum(1 for k in found if k in rows and rows[k]["status"] == "theorem"),
                             "model_primitive": sum(1 for k in found if k in rows and rows[k]["status"] == "model-primitive"),
                             "out_of_scope": sum(1 for k in found if k in rows and rows[k]["status"] == "out-of-scope"),
                             "missing": missing, "stale_rows": stale}
    if len(found) < 150:
        ctx.broken.append({"kind": "coverage-scan", "error": f"only {len(found)} functions found in the generated support files"})
    if missing:
        ctx.broken.append({"kind": "coverage", "what": "functions of the support libraries without a row (no theorem, no stated reason)", "missing": missing})
    if unknown or no_theorem:
        ctx.broken.append({"kind": "coverage", "what": "rows naming theorems that are not among the proved obligations", "unknown": unknown[:20], "rows_without_theorem": no_theorem})


def load_corpus(section):
    out = []
    d = common.VERIF / "corpus" / "C14"
    if d.exists():
        for f in sorted(d.glob("*.json")):
            for c in json.loads(f.read_text()):
                if c.get("target") == section:
                    out.append(c["request"])
    return out


def run(ctx: common.Ctx):
    # the half-float part (other files, same check): its theorems are built and audited together with ours
    try:
        from . import c14_float
    except ImportError:
        c14_float = None
    mods, exes = ["C14", "C14Ext"], ["bits"]
    if c14_float is not None and (common.LEAN / "NunavutVerif" / "Properties" / "C14Float.lean").exists():
        mods += [m for m in getattr(c14_float, "PROPERTY_MODULES", ["C14Float"]) if m not in mods]
        exes += [e for e in getattr(c14_float, "EXES", ["float16"]) if e not in exes]
    drivers = ctx.prove(mods, exes=exes)
    ctx.c14_drivers = drivers
    drv = drivers.get("bits")
    ctx.rule = ("exhaustive: bit offsets x bit lengths x buffer sizes x 3 content patterns (zeros / ones / random) for every getter, setter "
                "and getBits, source offset x destination offset x length for copyBits on tightest-size buffers; plus seeded random "
                "larger cases (sizes to 100 bytes, offsets to 2000 bits, lengths to 255/700 bits); non-trivial = non-empty buffer and "
                "length > 0 (copy: additionally some unaligned parameter); distinct by request line")
    ctx.assumptions = [
        "size_t arithmetic does not wrap (size*8 and off+len < 2^64)",
        "source and destination of a copy are distinct objects (asserted by the real code)",
        "little-endian host for the target_endianness=little rendering",
        "pointer formation one past / beyond a zero-length fragment (never dereferenced) is outside the model",
        "gcc/clang -O1 with ASan+UBSan executes the C/C++ semantics of the generated header",
    ]
    ctx.exhaustive = False
    run_c(ctx, drv)
    run_cpp(ctx, drv)
    py_path = run_py(ctx, drv)
    run_coverage(ctx, py_path)
    if c14_float is not None and os.environ.get("VERIF_C14_SKIP_FLOAT") != "1":   # (development switch)
        c14_float.run_float(ctx, drivers)


def replay(ctx, path):
    r = json.loads(open(path).read())
    rp = r.get("replay", {})
    if "request" not in rp:
        # a record of the half-float part
        try:
            from . import c14_float
            if rp:
                rc = c14_float.replay_float(ctx, rp)
                ctx.cleanup()
                return rc
        except ImportError:
            pass
        print("nothing to replay (no failing input in the file)")
        return 1
    line, target = rp["request"], rp.get("target", "c-any-gcc")
    exp = Oracle().answer(line)
    if target.startswith("py"):
        impl = PyImpl(ctx)
        impl.pres = rp.get("presentation", "bytes")
        for h in rp.get("history", []):      # state carried between calls in one interpreter
            impl.answer(h)
        got, exp = canon_fetch_float(line, impl.answer(line)), canon_fetch_float(line, exp)
    else:
        jobs = [j for j in (build_cpp(ctx) if target.startswith("cpp") else build_c(ctx)) if j[0] == target]
        if not jobs:       # a thorough-only build: build it the thorough way
            ctx.quick = False
            jobs = [j for j in (build_cpp(ctx) if target.startswith("cpp") else build_c(ctx)) if j[0] == target]
        progs = compile_all(ctx, jobs)
        got = progs[0].ask([to_le(line) if progs and progs[0].rewrite else line])[0] if progs else "(target not built)"
    print(json.dumps({"target": target, "request": line, "observed": got, "expected": exp}))
    ctx.cleanup()
    return 0 if got == exp else 1
