"""
C19, round 2 — tie of the whole lexer state machine (lean/NunavutVerif/Model/LexerFull.lean, driver ops `lex`, `ptok`,
`isword`, `isdigit`) with the real bundled lexer (`Lexer.tokeniter`, `Lexer.wrap`), with the same lexer without
Nunavut's alternatives, and the lexer-level statements of the property evaluated on the real code:

  (T1)  a source without `{{*` / `{%*` gives the same (lineno, type, value) stream in the bundled lexer and in the lexer
        without Nunavut's alternatives — under every trim_blocks / lstrip_blocks / keep_trailing_newline /
        line statement prefix / line comment prefix setting;
  (T2)  `d w {c* rest` against `d w {c rest`: the streams differ in exactly the two tokens the theorem
        C19_marker_rewrites_two_tokens names.
"""
import ast
import itertools
import re

from .common import enc

LEX_ALPHA = ["{", "%", "#", "*", "}", "-", " ", "\t", "\n", "a"]
TAG_ALPHA = ["{", "%", "}", "1", ".", "'", "(", ")", " ", "\n", "-", "\\"]
FRAGS = ["{%", "{{", "{#", "%}", "}}", "#}", "*", "-", "+", " ", " ", "\t", "\n", "\n", "a", "raw", "endraw", "x", "'", '"', "|", "(", ")", "{", "}",
         "if", "\xa0", "%%", "##", "1", "1.5", ".", "'a'", '"b\\""', "[", "]", "**", "//", "!=", "<=", "-%}", "-}}", "{%-", "{{-", "{#-", "-#}",
         "{%+", "é", "١", "!", "\r", "\x0b", "x.y", "%}\n", "{{*", "{%*", "{#*", "  {%*", "\t{{*", "{% raw %}", "{% endraw %}", "\\",
         " ", "\x1c", "$", "_", "̀", "à", "2.", ".5", "1.2.3", "{%- endraw -%}", "%%-", "##-", "\n  %% if x", " ## note"]

_SETTINGS_LINE = [(None, None), ("%%", "##"), ("*", None), ("#", None), (None, "//"), ("%%-", "##"), ("::", "#"), ("a", "%"), ("//*", "*#"), ("%*", "##*")]


def _err(e):
    m = e.message
    if m == "Missing end of comment tag":
        return "E missing-comment"
    if m == "Missing end of raw directive":
        return "E missing-raw"
    mm = re.fullmatch(r"unexpected char (.+) at \d+", m, re.S)
    if mm:
        return f"E unexpected-char {ord(ast.literal_eval(mm.group(1)))}"
    mm = re.fullmatch(r"unexpected '(.)', expected '(.)'", m, re.S)
    if mm:
        return f"E unexpected-close {ord(mm.group(1))} {ord(mm.group(2))}"
    mm = re.fullmatch(r"unexpected '(.)'", m, re.S)
    if mm:
        return f"E unexpected-close {ord(mm.group(1))}"
    return None


def real_lex(lx, src, TSE):
    """`Lexer.tokeniter` as a list of 'lineno type value' / 'lineno E error' strings (the driver's answer format)."""
    out = []
    try:
        for l, t, v in lx.tokeniter(src, None):
            out.append(f"{l} {t} {enc(v)}")
    except TSE as e:
        out.append(f"{e.lineno} " + (_err(e) or "E other"))
    return out


_VALUE_BY_TEXT = {"data", "block_begin", "block_end", "variable_begin", "variable_end", "name"}


_MARKER = {"old": False}


def marker_of(ty):
    """what the parser under check tests the begin token text for (observed by `parser_variant`, not assumed)"""
    if _MARKER["old"]:
        return "*"
    return "{%*" if ty == "block_begin" else "{{*"


def real_ptok(lx, src, TSE, reverse_operators):
    """`Lexer.wrap(Lexer.tokeniter(src))` in the driver's `ptok` format; integer / float / string values are converted
    by wrap (not modelled): their value field is `?`.  Returns (tokens, complete)."""
    out = []
    try:
        for tok in lx.wrap(lx.tokeniter(src, None)):
            ty, val = tok.type, tok.value
            wraps = 1 if ty in ("block_begin", "variable_begin") and val and val.endswith(marker_of(ty)) else 0
            if ty in reverse_operators:
                out.append(f"{tok.lineno} operator {enc(val)} 0")
            elif ty in _VALUE_BY_TEXT:
                out.append(f"{tok.lineno} {ty} {enc(val)} {wraps}")
            else:
                out.append(f"{tok.lineno} {ty} ? 0")
    except TSE as e:
        k = _err(e)
        if k is None:        # raised by a value conversion inside wrap (identifier check, string unescape): outside the model
            return out, False
        out.append(f"{e.lineno} {k}")
    return out, True


def norm_ptok(ans):
    """model answer -> comparable list (values of converted token types blanked)"""
    if ans == "-":
        return []
    out = []
    for t in ans.split(";"):
        f = t.split(" ")
        if len(f) == 4 and f[1] in ("integer", "float", "string"):
            f[2] = "?"
        out.append(" ".join(f))
    return out


def envcode(variant, lstrip, trim):
    return variant + ("1" if lstrip else "0") + ("1" if trim else "0")


def opt(s):
    return "~" if s is None else enc(s)


# ---------------------------------------------------------------------------------------------------------------------
# the rule table the model transcribes, as pattern text (compared with `Lexer(env).rules`)
# ---------------------------------------------------------------------------------------------------------------------
def model_rules(L, star, comment_star, lstrip, trim, ls, lc):
    e = re.escape
    b, v, c, be, ve, ce = e("{%"), e("{{"), e("{#"), e("%}"), e("}}"), e("#}")
    nl = "\\n?" if trim else ""
    if lstrip:
        bp = r"^[ \t]*" + b + r"(?!\+)|" + b + r"\+?"
        cp = r"^[ \t]*" + c + "|" + c + r"\+?"
    else:
        bp, cp = b, c
    def st(s, on):
        return (r"[ \t]*" + s + r"\*|") if on else ""
    rules = [(2, "comment", c), (2, "block", b), (2, "variable", v)]
    if ls is not None:
        rules.append((len(ls), "linestatement", r"^[ \t\v]*" + e(ls)))
    if lc is not None:
        rules.append((len(lc), "linecomment", r"(?:^|(?<=\S))[^\S\r\n]*" + e(lc)))
    alts = [r"(?P<raw_begin>(?:\s*" + b + r"\-|" + st(b, star) + bp + r")\s*raw\s*(?:\-" + be + r"\s*|" + be + "))"]
    for _n, name, r in sorted(rules, reverse=True):
        pre = {"block": bp, "comment": cp}.get(name, r)
        on = star if name in ("block", "variable") else comment_star if name == "comment" else False
        alts.append(r"(?P<" + name + r"_begin>\s*" + r + r"\-|" + st(r, on) + pre + ")")
    tag = [(L.whitespace_re.pattern, "whitespace", None), (L.float_re.pattern, "float", None), (L.integer_re.pattern, "integer", None),
           (L.name_re.pattern, "name", None), (L.string_re.pattern, "string", None), (L.operator_re.pattern, "operator", None)]
    return {
        "root": [("(.*?)(?:" + "|".join(alts) + ")", ("data", "#bygroup"), "#bygroup"), (".+", "data", None)],
        "comment_begin": [(r"(.*?)((?:\-" + ce + r"\s*|" + ce + ")" + nl + ")", ("comment", "comment_end"), "#pop"), ("(.)", ("Failure:Missing end of comment tag",), None)],
        "block_begin": [(r"(?:\-" + be + r"\s*|" + be + ")" + nl, "block_end", "#pop")] + tag,
        "variable_begin": [(r"\-" + ve + r"\s*|" + ve, "variable_end", "#pop")] + tag,
        "raw_begin": [(r"(.*?)((?:\s*" + b + r"\-|" + bp + r")\s*endraw\s*(?:\-" + be + r"\s*|" + be + nl + "))", ("data", "raw_end"), "#pop"),
                      ("(.)", ("Failure:Missing end of raw directive",), None)],
        "linestatement_begin": [(r"\s*(\n|$)", "linestatement_end", "#pop")] + tag,
        "linecomment_begin": [(r"(.*?)()(?=\n|$)", ("linecomment", "linecomment_end"), "#pop")],
    }


def real_rules(L, lx):
    def tk(t):
        if isinstance(t, tuple):
            return tuple(("Failure:" + x.message) if x.__class__ is L.Failure else x for x in t)
        return t
    return {k: [(r.pattern, tk(t), n) for r, t, n in v] for k, v in lx.rules.items()}


# ---------------------------------------------------------------------------------------------------------------------
def parser_variant(bj):
    """'before-fix' when the real parser takes a line statement whose prefix ends in `*` for an auto-indent block"""
    import nunavut.jinja.jinja2.nodes as nodes
    env = bj.Environment(line_statement_prefix="//*")
    tree = env.parse("//* if true\nx\n//* endif\n")
    return "before-fix" if any(isinstance(n, nodes.FilterBlock) for n in tree.body) else "repaired"


def run_full_lexer(ctx, drv, bj, sj, corpus_lexer, variant_letter, fail):
    import nunavut.jinja.jinja2.lexer as L
    Lexer, TSE = L.Lexer, bj.TemplateSyntaxError
    from . import c19
    quick, rng = ctx.quick, ctx.rng
    _MARKER["old"] = parser_variant(bj) == "before-fix"
    ctx.extra["bundled_parser_marker_test"] = parser_variant(bj)

    def mkenv(lstrip, trim, ls, lc, keep):
        return bj.Environment(trim_blocks=trim, lstrip_blocks=lstrip, line_statement_prefix=ls, line_comment_prefix=lc, keep_trailing_newline=keep)

    # ---- the rule table: every state, every setting, pattern text + tokens + state change ---------------------
    nrules = 0
    for lstrip, trim, (ls, lc) in itertools.product((False, True), (False, True), _SETTINGS_LINE):
        real = real_rules(L, Lexer(mkenv(lstrip, trim, ls, lc, True)))
        want = model_rules(L, True, variant_letter == "O", lstrip, trim, ls, lc)
        nrules += 1
        if real != want:
            bad = sorted(k for k in set(real) | set(want) if real.get(k) != want.get(k))
            ctx.broken.append({"kind": "rule-table", "what": "a rule of the bundled lexer is not the one Model/LexerFull.lean transcribes",
                               "settings": {"lstrip_blocks": lstrip, "trim_blocks": trim, "line_statement_prefix": ls, "line_comment_prefix": lc},
                               "states": bad, "real": {k: repr(real.get(k))[:600] for k in bad}, "model": {k: repr(want.get(k))[:600] for k in bad}})
            break
    ctx.extra["lexer_rule_tables_compared"] = nrules

    if drv is None:
        return

    # ---- the character classes of the generated tables as compiled into the driver vs the real regexes -------------
    if quick:
        cps = list(range(0, 0x3100)) + sorted(rng.sample(range(0x3100, 0x110000), 20000))
        cps = [c for c in cps if not 0xD800 <= c <= 0xDFFF]
    else:
        cps = [c for c in range(0x110000) if not 0xD800 <= c <= 0xDFFF]
    for op, rx in (("isword", L.name_re), ("isdigit", L.integer_re)):
        ans = drv.ask([f"{op} {c}" for c in cps])
        for c, a in zip(cps, ans):
            r = "1" if rx.fullmatch(chr(c)) else "0"
            if a != r:
                ctx.disagree(op, c, a, r)
        ctx.traces += 1
    ctx.extra["lexer_class_codepoints_compared"] = len(cps)

    # ---- token streams ---------------------------------------------------------------------------------------------
    n1, n2 = (4, 3) if quick else (5, 4)
    exh1 = ["".join(t) for n in range(n1 + 1) for t in itertools.product(LEX_ALPHA, repeat=n)]
    tagbody = ["".join(t) for n in range(n2 + 1) for t in itertools.product(TAG_ALPHA, repeat=n)]
    # the second alphabet is the one of the tag rules: only interesting after a begin token
    exh2 = ["{{" + s for s in tagbody] + ["{%" + s for s in tagbody]
    nrand = 1000 if quick else 12000
    rand = ["".join(rng.choice(FRAGS) for _ in range(rng.randint(1, 16))) for _ in range(nrand)]
    corpus = list(corpus_lexer)
    grid_full = [(ls_, tr_, ls, lc) for ls_ in (False, True) for tr_ in (False, True) for ls, lc in _SETTINGS_LINE]
    grid_base = [(ls_, tr_, None, None) for ls_ in (False, True) for tr_ in (False, True)]
    grid_line = [(ls_, tr_, ls, lc) for ls_ in (False, True) for tr_ in (False, True) for ls, lc in (_SETTINGS_LINE[1:3] if quick else _SETTINGS_LINE[1:5])]
    grid_exh = grid_base + grid_line
    exh1_line = [s for s in exh1 if len(s) <= (3 if quick else 4)]
    plan = [("exhaustive-delimiters", exh1, grid_base), ("exhaustive-delimiters-line-prefixes", exh1_line, grid_line),
            ("exhaustive-tag-characters", exh2, grid_base), ("random+corpus", corpus + rand, grid_full)]
    ctx.extra["full_lexer_domain"] = {"exhaustive_delimiter_strings": len(exh1), "max_length": n1, "exhaustive_tag_strings": len(exh2),
                                      "random": nrand, "corpus": len(corpus), "settings_exhaustive": len(grid_exh), "settings_random": len(grid_full),
                                      "line_prefixes": [list(map(str, x)) for x in _SETTINGS_LINE]}
    ntrace = 0
    for stream, cases, grid in plan:
        for gi, (lstrip, trim, ls, lc) in enumerate(grid):
            keep = True if stream != "random+corpus" else (gi % 3 != 1)
            env = mkenv(lstrip, trim, ls, lc, keep)
            lxB, lxS = Lexer(env), c19.unedited_lexer(bj, env)
            head = f"{opt(ls)} {opt(lc)} {1 if keep else 0}"
            ansB = drv.ask([f"lex {envcode(variant_letter, lstrip, trim)} {head} {enc(s)}" for s in cases], timeout=3000)
            ansS = drv.ask([f"lex {envcode('S', lstrip, trim)} {head} {enc(s)}" for s in cases], timeout=3000)
            do_ptok = stream == "random+corpus" or gi == 0
            ansP = drv.ask([f"ptok {envcode(variant_letter, lstrip, trim)}{'o' if parser_variant(bj) == 'before-fix' else ''} {head} {enc(env.newline_sequence)} {enc(s)}" for s in cases], timeout=3000) if do_ptok else None
            setting = {"lstrip_blocks": lstrip, "trim_blocks": trim, "line_statement_prefix": ls, "line_comment_prefix": lc, "keep_trailing_newline": keep}
            for i, s in enumerate(cases):
                rb, ru = real_lex(lxB, s, TSE), real_lex(lxS, s, TSE)
                mb = [] if ansB[i] == "-" else ansB[i].split(";")
                mu = [] if ansS[i] == "-" else ansS[i].split(";")
                ntrace += 2
                ctx.case(("flex", lstrip, trim, ls, lc, keep, s), len(rb) > 1)
                if rb and " E " in rb[-1]:
                    ctx.count("flex:error:" + rb[-1].split(" ")[2])
                if mb != rb:
                    ctx.disagree("full-lexer-bundled", {"source": s, **setting}, mb[:40], rb[:40])
                if mu != ru:
                    ctx.disagree("full-lexer-unedited", {"source": s, **setting}, mu[:40], ru[:40])
                if ansP is not None:
                    rp, complete = real_ptok(lxB, s, TSE, L.reverse_operators)
                    mp = norm_ptok(ansP[i])
                    ntrace += 1
                    if (mp != rp) if complete else (mp[:len(rp)] != rp):
                        ctx.disagree("full-lexer-wrap", {"source": s, **setting}, mp[:40], rp[:40])
                    if not complete:
                        ctx.count("flex:wrap-conversion-error")
                # T1 on the implementation, every setting
                marker = any(m in s for m in c19.MARKERS)
                ctx.count("flex:marker" if marker else "flex:no-marker")
                if not marker and rb != ru:
                    kind = "comment-star-loses-blanks" if "{#*" in s else "lexer-differs-without-marker"
                    fail(ctx, {"kind": kind}, "the bundled lexer tokenises a template without auto-indent marker differently from the lexer without Nunavut's alternatives",
                         {"stream": "full-lexer", "source": s, **setting, "bundled_tokens": rb[:40], "unedited_tokens": ru[:40]})
    ctx.traces += ntrace

    # ---- T2 on the implementation: marker construct vs plain construct, token by token -------------------------------
    datas = ["", "a", "a\n", "x y\n", "}}\n", "%}", "a\n\n", "#", "- "]
    blanks = ["", " ", "\t", "  \t ", "    "]
    rests = [" x }}", " x %}", "x}}", " x -%}\n  b", " x }}\n", " 'a' ~ \"}}\" }} t", " {'a': 1}['a'] }}", " if x %}  {{* y }}\n{% endif %}", " raw %}", " include 'p' %}\n",
             " 1.5 }}", ".5 }}", " x", "", " x }} {{ y }} {% raw %} {{* {% endraw %}", "(x) }}", " set a = 1 %}", " x %}\n\n", "/x }}"]
    nmark = 0
    for lstrip, trim in itertools.product((False, True), (False, True)):
        env = mkenv(lstrip, trim, None, None, True)
        lx = Lexer(env)
        for d, w, c, rest in itertools.product(datas, blanks, "{%", rests):
            if "{" in d or d.endswith((" ", "\t")):
                continue
            if c == "%" and re.match(r"\s*raw\s*-?%}", rest):
                ctx.count("flex:marker-is-raw-begin")
                continue
            ok, src_m, src_p, tm, tp = marker_stream_check(lx, TSE, lstrip, d, w, c, rest)
            nmark += 1
            ctx.case(("flex-marker", lstrip, trim, src_m), True)
            if not ok:
                fail(ctx, {"kind": "marker-token-stream-other"}, "a marker construct is not tokenised as the plain construct with the begin token rewritten and the blanks taken out of the data",
                     {"stream": "full-lexer-marker", "data": d, "blanks": w, "begin": "{" + c, "rest": rest, "marker_source": src_m, "plain_source": src_p,
                      "lstrip_blocks": lstrip, "trim_blocks": trim, "marker_tokens": tm[:30], "plain_tokens": tp[:30]})
    ctx.extra["marker_token_stream_cases"] = nmark
    env = mkenv(False, False, None, None, True)
    ctx.sample({"full_lexer_source": "a\n  {%* if x(1.5) -%}\n b", "tokeniter": real_lex(Lexer(env), "a\n  {%* if x(1.5) -%}\n b", TSE)})


def marker_stream_check(lx, TSE, lstrip, d, w, c, rest):
    """C19_marker_rewrites_two_tokens evaluated on the real lexer"""
    src_m, src_p = d + w + "{" + c + "*" + rest, d + w + "{" + c + rest
    tm, tp = real_lex(lx, src_m, TSE), real_lex(lx, src_p, TSE)
    kind = "variable_begin" if c == "{" else "block_begin"
    cap = lstrip and c == "%" and (d == "" or d.endswith("\n"))

    def head(data, value):
        return ([f"1 data {enc(data)}"] if data else []) + [f"{1 + data.count(chr(10))} {kind} {enc(value)}"]
    hm, hp = head(d, w + "{" + c + "*"), (head(d, w + "{" + c) if cap else head(d + w, "{" + c))
    ok = tm[:len(hm)] == hm and tp[:len(hp)] == hp and tm[len(hm):] == tp[len(hp):]
    return ok, src_m, src_p, tm, tp


def replay_full_lexer(rp, bj):
    import nunavut.jinja.jinja2.lexer as L
    from . import c19
    if rp["stream"] == "full-lexer":
        env = bj.Environment(trim_blocks=rp["trim_blocks"], lstrip_blocks=rp["lstrip_blocks"], line_statement_prefix=rp["line_statement_prefix"],
                             line_comment_prefix=rp["line_comment_prefix"], keep_trailing_newline=rp["keep_trailing_newline"])
        a = real_lex(L.Lexer(env), rp["source"], bj.TemplateSyntaxError)
        b = real_lex(c19.unedited_lexer(bj, env), rp["source"], bj.TemplateSyntaxError)
        return {"bundled_tokens": a[:40], "unedited_tokens": b[:40]}, a == b
    env = bj.Environment(trim_blocks=rp["trim_blocks"], lstrip_blocks=rp["lstrip_blocks"], keep_trailing_newline=True)
    ok, _m, _p, tm, tp = marker_stream_check(L.Lexer(env), bj.TemplateSyntaxError, rp["lstrip_blocks"], rp["data"], rp["blanks"], rp["begin"][1], rp["rest"])
    return {"marker_tokens": tm[:30], "plain_tokens": tp[:30]}, ok
