// C14 correspondence: line-protocol wrapper around the *generated* nunavut/support/serialization.h.
// Same request lines as `lean/Drivers/Bits.lean` (C section).  Every buffer lives in its own exact-size heap
// allocation (AddressSanitizer sees any access outside it); every call is then repeated with the buffers placed
// between guard bytes, the guards are verified and both runs must print the same answer.
// Built by harness/c14.py with -fsanitize=address,undefined -fno-sanitize-recover=all.
#define _POSIX_C_SOURCE 200809L
#include <stdio.h>
#include <stdlib.h>
#include <string.h>
#include <stdint.h>
#include <inttypes.h>
#include "nunavut/support/serialization.h"

#define GUARD 16
#define GUARD_BYTE 0xA5

typedef struct { uint8_t* base; uint8_t* p; size_t n; int guarded; } Buf;

static int hexval(int c) { return (c >= '0' && c <= '9') ? c - '0' : (c >= 'a' && c <= 'f') ? c - 'a' + 10 : -1; }

static Buf mk(const char* hex, int guarded)
{
    Buf b; size_t n = (0 == strcmp(hex, "-")) ? 0 : strlen(hex) / 2;
    b.n = n; b.guarded = guarded;
    if (guarded) {
        b.base = (uint8_t*) malloc(n + 2 * GUARD);
        memset(b.base, GUARD_BYTE, n + 2 * GUARD);
        b.p = b.base + GUARD;
    } else {
        b.base = (uint8_t*) malloc(n);  // exact size; malloc(0) gives a unique pointer to zero accessible bytes
        b.p = b.base;
    }
    if (b.base == NULL) { fprintf(stderr, "malloc failed\n"); exit(3); }
    for (size_t i = 0; i < n; i++) { b.p[i] = (uint8_t)(hexval(hex[2 * i]) * 16 + hexval(hex[2 * i + 1])); }
    return b;
}
static int guards_ok(const Buf* b)
{
    if (!b->guarded) { return 1; }
    for (size_t i = 0; i < GUARD; i++) { if (b->base[i] != GUARD_BYTE || b->p[b->n + i] != GUARD_BYTE) { return 0; } }
    return 1;
}
static void put_hex(char* out, const Buf* b)
{
    static const char* d = "0123456789abcdef";
    if (b->n == 0) { strcat(out, "-"); return; }
    size_t k = strlen(out);
    for (size_t i = 0; i < b->n; i++) { out[k++] = d[b->p[i] >> 4]; out[k++] = d[b->p[i] & 15]; }
    out[k] = 0;
}
static void drop(Buf* b) { free(b->base); }

#define MAXTOK 8
// one request; `g` = guarded mode; answer written to `out`; returns 0 on bad-op
static int run(char** t, int nt, int g, char* out)
{
    const char* op = t[0];
    out[0] = 0;
    if (0 == strcmp(op, "copy") && nt == 6) {
        Buf dst = mk(t[1], g), src = mk(t[4], g);
        nunavutCopyBits(dst.p, strtoull(t[2], 0, 10), strtoull(t[3], 0, 10), src.p, strtoull(t[5], 0, 10));
        strcpy(out, (guards_ok(&dst) && guards_ok(&src)) ? "ok " : "GUARD ");
        put_hex(out, &dst); drop(&dst); drop(&src); return 1;
    }
    if (0 == strcmp(op, "copyself") && nt == 5) {   // overlapping regions of one buffer, byte aligned, destination above source
        Buf b = mk(t[1], g);
        const size_t d_off = strtoull(t[2], 0, 10), n = strtoull(t[3], 0, 10), s_off = strtoull(t[4], 0, 10);
        nunavutCopyBits(b.p + d_off / 8U, 0U, n, b.p, s_off);
        strcpy(out, guards_ok(&b) ? "ok " : "GUARD ");
        put_hex(out, &b); drop(&b); return 1;
    }
    if (0 == strcmp(op, "sat") && nt == 4) {
        sprintf(out, "ok %zu", nunavutSaturateBufferFragmentBitLength(strtoull(t[1], 0, 10), strtoull(t[2], 0, 10), strtoull(t[3], 0, 10)));
        return 1;
    }
    if (0 == strcmp(op, "getbits") && nt == 6) {
        Buf o = mk(t[1], g), b = mk(t[2], g);
        nunavutGetBits(o.p, b.p, strtoull(t[3], 0, 10), strtoull(t[4], 0, 10), strtoull(t[5], 0, 10));
        strcpy(out, (guards_ok(&o) && guards_ok(&b)) ? "ok " : "GUARD ");
        put_hex(out, &o); drop(&o); drop(&b); return 1;
    }
    if (0 == strcmp(op, "setbit") && nt == 5) {
        Buf b = mk(t[1], g);
        const int rc = nunavutSetBit(b.p, strtoull(t[2], 0, 10), strtoull(t[3], 0, 10), t[4][0] == '1');
        sprintf(out, "%s%d ", guards_ok(&b) ? "ok " : "GUARD ", rc);
        put_hex(out, &b); drop(&b); return 1;
    }
    if (0 == strcmp(op, "getbit") && nt == 4) {
        Buf b = mk(t[1], g);
        const bool v = nunavutGetBit(b.p, strtoull(t[2], 0, 10), strtoull(t[3], 0, 10));
        sprintf(out, "ok %d", v ? 1 : 0); drop(&b); return 1;
    }
    if ((0 == strcmp(op, "setu") || 0 == strcmp(op, "setu_le") || 0 == strcmp(op, "seti") || 0 == strcmp(op, "seti_le")) && nt == 6) {
        Buf b = mk(t[1], g);
        int rc;
        if (op[3] == 'u') { rc = nunavutSetUxx(b.p, strtoull(t[2], 0, 10), strtoull(t[3], 0, 10), strtoull(t[4], 0, 10), (uint8_t) strtoul(t[5], 0, 10)); }
        else              { rc = nunavutSetIxx(b.p, strtoull(t[2], 0, 10), strtoull(t[3], 0, 10), strtoll(t[4], 0, 10), (uint8_t) strtoul(t[5], 0, 10)); }
        sprintf(out, "%s%d ", guards_ok(&b) ? "ok " : "GUARD ", rc);
        put_hex(out, &b); drop(&b); return 1;
    }
    if ((0 == strncmp(op, "getu", 4) || 0 == strncmp(op, "geti", 4)) && nt == 5) {
        Buf b = mk(t[1], g);
        const size_t size = strtoull(t[2], 0, 10), off = strtoull(t[3], 0, 10);
        const uint8_t len = (uint8_t) strtoul(t[4], 0, 10);
        const int w = atoi(op + 4);
        int known = 1;
        if (op[3] == 'u') {
            uint64_t v = 0;
            if (w == 8) { v = nunavutGetU8(b.p, size, off, len); } else if (w == 16) { v = nunavutGetU16(b.p, size, off, len); }
            else if (w == 32) { v = nunavutGetU32(b.p, size, off, len); } else if (w == 64) { v = nunavutGetU64(b.p, size, off, len); }
            else { known = 0; }
            sprintf(out, "ok %" PRIu64, v);
        } else {
            int64_t v = 0;
            if (w == 8) { v = nunavutGetI8(b.p, size, off, len); } else if (w == 16) { v = nunavutGetI16(b.p, size, off, len); }
            else if (w == 32) { v = nunavutGetI32(b.p, size, off, len); } else if (w == 64) { v = nunavutGetI64(b.p, size, off, len); }
            else { known = 0; }
            sprintf(out, "ok %" PRId64, v);
        }
        drop(&b); return known;
    }
    if (0 == strcmp(op, "min") && nt == 3) {
        sprintf(out, "ok %zu", (size_t) nunavutChooseMin(strtoull(t[1], 0, 10), strtoull(t[2], 0, 10)));
        return 1;
    }
    if (0 == strncmp(op, "setf", 4) && nt == 5) {   // setf32 / setf64: the float is given (and observed) as its bit pattern
        const int w = atoi(op + 4);
        if (w != 32 && w != 64) { return 0; }
        Buf b = mk(t[1], g);
        const size_t size = strtoull(t[2], 0, 10), off = strtoull(t[3], 0, 10);
        const uint64_t bits = strtoull(t[4], 0, 10);
        int rc;
        if (w == 32) { const uint32_t b32 = (uint32_t) bits; float f; memcpy(&f, &b32, 4); rc = nunavutSetF32(b.p, size, off, f); }
        else         { double d; memcpy(&d, &bits, 8); rc = nunavutSetF64(b.p, size, off, d); }
        sprintf(out, "%s%d ", guards_ok(&b) ? "ok " : "GUARD ", rc);
        put_hex(out, &b); drop(&b); return 1;
    }
    if (0 == strncmp(op, "getf", 4) && nt == 4) {
        const int w = atoi(op + 4);
        if (w != 32 && w != 64) { return 0; }
        Buf b = mk(t[1], g);
        const size_t size = strtoull(t[2], 0, 10), off = strtoull(t[3], 0, 10);
        uint64_t bits = 0;
        if (w == 32) { const float f = nunavutGetF32(b.p, size, off); uint32_t b32; memcpy(&b32, &f, 4); bits = b32; }
        else         { const double d = nunavutGetF64(b.p, size, off); memcpy(&bits, &d, 8); }
        sprintf(out, "ok %" PRIu64, bits); drop(&b); return 1;
    }
    return 0;
}

int main(void)
{
    char* line = NULL; size_t cap = 0; ssize_t n;
    static char a[1 << 16], b[1 << 16], copy[1 << 16];
    setvbuf(stdout, NULL, _IOLBF, 1 << 16);  // an answer is out before the next call can crash
    while ((n = getline(&line, &cap, stdin)) > 0) {
        if (line[n - 1] == '\n') { line[--n] = 0; }
        if ((size_t) n >= sizeof(copy) / 4) { puts("bad-op"); continue; }
        char* t[MAXTOK]; int nt = 0;
        strcpy(copy, line);
        for (char* s = strtok(copy, " "); s != NULL && nt < MAXTOK; s = strtok(NULL, " ")) { t[nt++] = s; }
        if (nt == 0 || !run(t, nt, 0, a)) { puts("bad-op"); continue; }
        strcpy(copy, line); nt = 0;
        for (char* s = strtok(copy, " "); s != NULL && nt < MAXTOK; s = strtok(NULL, " ")) { t[nt++] = s; }
        run(t, nt, 1, b);
        if (0 != strcmp(a, b)) { printf("MISMATCH exact=[%s] guarded=[%s]\n", a, b); } else { puts(a); }
    }
    free(line);
    return 0;
}
