/* C14 float part, C target: adapter around the generated nunavut/support/serialization.h */
#include "nunavut/support/serialization.h"
#define F16_PACK(v) nunavutFloat16Pack(v)
#define F16_UNPACK(h) nunavutFloat16Unpack(h)
#define WRAP_SET_F16(buf, size, off, v) ((int) nunavutSetF16((buf), (size), (off), (v)))
#define WRAP_GET_F16(buf, size, off) nunavutGetF16((buf), (size), (off))
#define WRAP_SET_F32(buf, size, off, v) ((int) nunavutSetF32((buf), (size), (off), (v)))
#define WRAP_GET_F32(buf, size, off) nunavutGetF32((buf), (size), (off))
#define WRAP_SET_F64(buf, size, off, v) ((int) nunavutSetF64((buf), (size), (off), (v)))
#define WRAP_GET_F64(buf, size, off) nunavutGetF64((buf), (size), (off))
#include "c14_float_body.h"
