/*
 * Runtime of the generated C codec shim (harness/codec_targets.py writes the per-type part).
 * Hand-written, independent of Nunavut's templates.  One request line on stdin -> one answer line on stdout,
 * flushed, so that a crash loses only the request that caused it.
 *
 *   ser <idx> <V> | serbuf <idx> <V> <cap> | de <idx> <hex|-> | rt <idx> <V> | probe <idx>
 *   dereuse <idx> <hexA> <hexB>   decode A into an object, then B into the SAME object; answer as `de B`
 *   rtreuse <idx> <V1> | <V2>     round trip of V1, then V2 through the SAME source and destination objects; answer as `rt V2`
 *   api <idx>                     C only: return codes of the generated functions for NULL arguments
 * `de` is also answered for other spellings of the same call (input as a sub-range of a larger buffer, NULL buffer of
 * size 0, _initialize_); an alternative that differs from the primary answer is reported as err:spelling:<name>:<answer>.
 */
#ifndef CODEC_SHIM_RT_H
#define CODEC_SHIM_RT_H
#include <stdint.h>
#include <stdbool.h>
#include <stddef.h>
#include <stdio.h>
#include <stdlib.h>
#include <string.h>
#include <inttypes.h>

typedef struct { const char* p; int err; } P;

static void p_ws(P* p) { while (*p->p == ' ') { p->p++; } }
static int p_peek(P* p) { p_ws(p); return (unsigned char) *p->p; }
static void p_expect(P* p, char c) { p_ws(p); if (*p->p == c) { p->p++; } else { p->err = 1; } }
static uint64_t p_u64(P* p)
{
    p_ws(p);
    char* end = NULL;
    if (*p->p == '-') { const long long v = strtoll(p->p, &end, 10); if (end == p->p) { p->err = 1; } p->p = end; return (uint64_t) v; }
    const unsigned long long v = strtoull(p->p, &end, 10);
    if (end == p->p) { p->err = 1; }
    p->p = end;
    return (uint64_t) v;
}
static int64_t p_i64(P* p)
{
    p_ws(p);
    char* end = NULL;
    const long long v = strtoll(p->p, &end, 10);
    if (end == p->p) { p->err = 1; }
    p->p = end;
    return (int64_t) v;
}
static double p_f64(P* p)
{
    p_ws(p);
    if (*p->p != 'x') { p->err = 1; return 0.0; }
    p->p++;
    uint64_t bits = 0;
    if (strncmp(p->p, "NaN", 3) == 0) { p->p += 3; bits = UINT64_C(0x7ff8000000000000); }
    else
    {
        for (int i = 0; i < 16; i++)
        {
            const char c = *p->p;
            int d;
            if (c >= '0' && c <= '9') { d = c - '0'; } else if (c >= 'a' && c <= 'f') { d = c - 'a' + 10; }
            else if (c >= 'A' && c <= 'F') { d = c - 'A' + 10; } else { p->err = 1; return 0.0; }
            bits = (bits << 4) | (uint64_t) d;
            p->p++;
        }
    }
    double out;
    memcpy(&out, &bits, 8);
    return out;
}
/* value of a field whose storage is `float` (float16 / float32 fields): finite values and infinities by conversion; a NaN
   is rebuilt BIT BY BIT from the leading 23 mantissa bits of the binary64 token, so that signalling NaNs and NaNs whose
   payload sits in the low mantissa bits only reach the generated code as such (a conversion would quieten them) */
static float p_f32(P* p)
{
    const double d = p_f64(p);
    if (d == d) { return (float) d; }
    uint64_t b;
    memcpy(&b, &d, 8);
    uint32_t m = (uint32_t) ((b >> 29) & UINT32_C(0x7FFFFF));
    if (m == 0) { m = UINT32_C(0x400000); }    /* payload below binary32's reach: what the hardware conversion gives */
    const uint32_t fb = (uint32_t) ((b >> 63) << 31) | UINT32_C(0x7F800000) | m;
    float f;
    memcpy(&f, &fb, 4);
    return f;
}
static void p_void(P* p) { p_expect(p, '_'); }
/* skip one token or bracketed group (value of an invalid union option) */
static void p_skip(P* p)
{
    p_ws(p);
    int depth = 0;
    do
    {
        const char c = *p->p;
        if (c == 0) { p->err = 1; return; }
        if (c == '[' || c == '{' || c == '<') { depth++; p->p++; }
        else if (c == ']' || c == '}' || c == '>') { if (depth == 0) { return; } depth--; p->p++; }
        else if (c == ' ') { p->p++; if (depth == 0) { return; } }
        else { while (*p->p && *p->p != ' ' && !strchr("[]{}<>", *p->p)) { p->p++; } }
    } while (depth > 0);
}

/* ---- output ---- */
#if defined(__cplusplus) && !defined(CODEC_SHIM_MAIN)
extern char* g_out;            /* several C++ translation units share the answer buffer of the main one */
extern size_t g_out_len, g_out_cap;
#elif defined(__cplusplus)
char* g_out = NULL;
size_t g_out_len = 0, g_out_cap = 0;
#else
static char* g_out = NULL;
static size_t g_out_len = 0, g_out_cap = 0;
#endif
static void o_reserve(size_t n)
{
    if (g_out_len + n + 1 > g_out_cap)
    {
        g_out_cap = (g_out_len + n + 1) * 2 + 256;
        g_out = (char*) realloc(g_out, g_out_cap);
        if (!g_out) { abort(); }
    }
}
static void o_str(const char* s) { const size_t n = strlen(s); o_reserve(n); memcpy(g_out + g_out_len, s, n); g_out_len += n; g_out[g_out_len] = 0; }
static void o_sep(void) { if (g_out_len && !strchr("[{< ", g_out[g_out_len - 1])) { o_str(" "); } }
static void o_open(char c) { o_sep(); char b[2] = {c, 0}; o_str(b); }
static void o_close(char c) { char b[2] = {c, 0}; o_str(b); }
static void o_u64(uint64_t v) { o_sep(); char b[32]; snprintf(b, sizeof b, "%" PRIu64, v); o_str(b); }
static void o_i64(int64_t v) { o_sep(); char b[32]; snprintf(b, sizeof b, "%" PRId64, v); o_str(b); }
static void o_f64(double v)
{
    o_sep();
    if (v != v) { o_str("xNaN"); return; }
    uint64_t bits; memcpy(&bits, &v, 8);
    char b[32]; snprintf(b, sizeof b, "x%016" PRIx64, bits); o_str(b);
}
static void o_void(void) { o_sep(); o_str("_"); }
static void o_hex(const uint8_t* d, size_t n)
{
    o_sep();
    if (n == 0) { o_str("-"); return; }
    o_reserve(2 * n);
    static const char H[] = "0123456789abcdef";
    for (size_t i = 0; i < n; i++) { g_out[g_out_len++] = H[d[i] >> 4]; g_out[g_out_len++] = H[d[i] & 15]; }
    g_out[g_out_len] = 0;
}
static void o_reset(void) { g_out_len = 0; if (g_out) { g_out[0] = 0; } }
/* the answer written so far as a heap copy; the answer buffer starts again */
static char* o_take(void)
{
    char* c = (char*) malloc(g_out_len + 1);
    if (!c) { abort(); }
    memcpy(c, g_out ? g_out : "", g_out_len);
    c[g_out_len] = 0;
    o_reset();
    return c;
}
/* the answer buffer holds the answer of an alternative spelling of the request whose primary answer is `prim`:
   equal -> buffer cleared, 0; different -> buffer = "err:spelling:<name>:<alternative answer>", 1 */
static int o_differs(const char* prim, const char* name)
{
    if (strcmp(prim, g_out ? g_out : "") == 0) { o_reset(); return 0; }
    char* alt = o_take();
    o_str("err:spelling:"); o_str(name); o_str(":"); o_str(alt);
    free(alt);
    return 1;
}
static const char* second_token(const char* s)
{
    while (*s == ' ') { s++; }
    while (*s && *s != ' ') { s++; }
    while (*s == ' ') { s++; }
    return s;
}

static size_t hex_decode(const char* s, uint8_t** out)
{
    while (*s == ' ') { s++; }
    size_t n = 0;
    if (*s == '-' || *s == 0) { *out = (uint8_t*) malloc(1); return 0; }
    const size_t len = strlen(s);
    uint8_t* b = (uint8_t*) malloc(len / 2 + 1);
    for (size_t i = 0; i + 1 < len + 0 && s[i] && s[i + 1] && s[i] != ' '; i += 2)
    {
        unsigned v = 0;
        for (int k = 0; k < 2; k++)
        {
            const char c = s[i + (size_t) k];
            v = v * 16 + (unsigned) ((c >= '0' && c <= '9') ? c - '0' : (c >= 'a' && c <= 'f') ? c - 'a' + 10 : (c >= 'A' && c <= 'F') ? c - 'A' + 10 : 0);
        }
        b[n++] = (uint8_t) v;
    }
    /* exact-size copy so that a sanitizer sees any over-read */
    uint8_t* exact = (uint8_t*) malloc(n ? n : 1);
    memcpy(exact, b, n);
    free(b);
    *out = exact;
    return n;
}

static const char* err_name(int rc)
{
    switch (-rc)
    {
    case 2: return "err:invalid-argument";
    case 3: return "err:buffer-too-small";
    case 10: return "err:bad-array-length";
    case 11: return "err:bad-union-tag";
    case 12: return "err:bad-delimiter-header";
    default: return "err:unknown-code";
    }
}

#define GUARD 64
static uint8_t* guarded_alloc(size_t n, uint8_t fill)
{
    uint8_t* raw = (uint8_t*) malloc(n + 2 * GUARD);
    if (!raw) { abort(); }
    memset(raw, 0xC3, n + 2 * GUARD);
    memset(raw + GUARD, fill, n);
    return raw + GUARD;
}
static int guard_ok(const uint8_t* buf, size_t n)
{
    for (size_t i = 0; i < GUARD; i++) { if (buf[-(ptrdiff_t) (i + 1)] != 0xC3 || buf[n + i] != 0xC3) { return 0; } }
    return 1;
}
static int tail_untouched(const uint8_t* buf, size_t from, size_t n, uint8_t fill)
{
    for (size_t i = from; i < n; i++) { if (buf[i] != fill) { return 0; } }
    return 1;
}
static void guarded_free(uint8_t* buf) { free(buf - GUARD); }

#if !defined(__cplusplus) || defined(CODEC_SHIM_MAIN)
static int dispatch(int idx, const char* op, const char* rest);

int main(void)
{
    char* line = NULL;
    size_t cap = 0;
    ssize_t n;
    while ((n = getline(&line, &cap, stdin)) >= 0)
    {
        while (n > 0 && (line[n - 1] == '\n' || line[n - 1] == '\r')) { line[--n] = 0; }
        char op[16] = {0};
        int idx = -1, consumed = 0;
        o_reset();
        if (sscanf(line, "%15s %d%n", op, &idx, &consumed) < 2) { puts("err:bad-op"); fflush(stdout); continue; }
        const char* rest = line + consumed;
        while (*rest == ' ') { rest++; }
        if (!dispatch(idx, op, rest)) { o_reset(); o_str("err:bad-op"); }
        puts(g_out ? g_out : "");
        fflush(stdout);
    }
    free(line);
    free(g_out);
    return 0;
}
#endif
#endif
