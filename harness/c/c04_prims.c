// C04 stream P: every primitive getter / setter of the *generated* nunavut/support/serialization.h at every byte
// misalignment of the user buffer.  Built by harness/c04.py once per --target-endianness rendering (any, little, big) with
// -O0 -fsanitize=address,undefined -fno-sanitize-recover=all (-fsanitize=alignment is part of `undefined`).
//
// Request:  <k> <op> <args…>      k = 0..7: the buffer starts k bytes into a malloc'ed block (16-byte aligned under ASan) and
//                                 ends exactly at the end of the block: an access past the end is reported by ASan, the k
//                                 bytes in front are guard bytes that must keep their value, and the address of the buffer
//                                 is k modulo 8.  The request after <k> is a request line of lean/Drivers/Bits.lean (C section):
//   copy <dst> <dOff> <len> <src> <sOff>       -> ok <dst'>          (src is placed at misalignment (k + 3) % 8)
//   getbits <out> <buf> <size> <off> <len>     -> ok <out'>
//   setbit <buf> <size> <off> <0|1>            -> ok <rc> <buf'>
//   setu|seti <buf> <size> <off> <value> <len> -> ok <rc> <buf'>
//   getbit <buf> <size> <off>                  -> ok <0|1>
//   getu<W>|geti<W> <buf> <size> <off> <len>   -> ok <n>
// and, not in the Lean driver (reference: harness/c04.py):
//   setf<W> <buf> <size> <off> <bits hex>      -> ok <rc> <buf'>     (W = 16: the float32 whose bits are given is packed)
//   getf<W> <buf> <size> <off>                 -> ok <bits hex>      (W = 16: bits of the unpacked float32)
// Answers GUARD… when a guard byte changed.  Buffers as lower-case hex, `-` = empty.
#define _POSIX_C_SOURCE 200809L
#include <stdio.h>
#include <stdlib.h>
#include <string.h>
#include <stdint.h>
#include <inttypes.h>
#include "nunavut/support/serialization.h"

#define GUARD_BYTE 0xA5

typedef struct { uint8_t* base; uint8_t* p; size_t n; size_t k; } Buf;

static int hexval(int c) { return (c >= '0' && c <= '9') ? c - '0' : (c >= 'a' && c <= 'f') ? c - 'a' + 10 : -1; }

static Buf mk(const char* hex, size_t k)
{
    Buf b; size_t n = (0 == strcmp(hex, "-")) ? 0 : strlen(hex) / 2;
    b.n = n; b.k = k;
    b.base = (uint8_t*) malloc(n + k ? n + k : 1);
    if (b.base == NULL) { fprintf(stderr, "malloc failed\n"); exit(3); }
    if (n + k == 0) { b.p = b.base + 1; return b; }       // zero accessible bytes
    memset(b.base, GUARD_BYTE, k);
    b.p = b.base + k;
    for (size_t i = 0; i < n; i++) { b.p[i] = (uint8_t)(hexval(hex[2 * i]) * 16 + hexval(hex[2 * i + 1])); }
    return b;
}
static int guards_ok(const Buf* b)
{
    for (size_t i = 0; i < b->k; i++) { if (b->base[i] != GUARD_BYTE) { return 0; } }
    return 1;
}
static void put_hex(char* out, const Buf* b)
{
    static const char* d = "0123456789abcdef";
    if (b->n == 0) { strcat(out, "-"); return; }
    size_t j = strlen(out);
    for (size_t i = 0; i < b->n; i++) { out[j++] = d[b->p[i] >> 4]; out[j++] = d[b->p[i] & 15]; }
    out[j] = 0;
}
static void drop(Buf* b) { free(b->base); }

#define MAXTOK 9
static int run(char** t, int nt, char* out)
{
    const size_t k = strtoull(t[0], 0, 10) % 8U;
    const char* op = t[1];
    t += 1; nt -= 1;
    out[0] = 0;
    if (0 == strcmp(op, "copy") && nt == 6) {
        Buf dst = mk(t[1], k), src = mk(t[4], (k + 3U) % 8U);
        nunavutCopyBits(dst.p, strtoull(t[2], 0, 10), strtoull(t[3], 0, 10), src.p, strtoull(t[5], 0, 10));
        strcpy(out, (guards_ok(&dst) && guards_ok(&src)) ? "ok " : "GUARD ");
        put_hex(out, &dst); drop(&dst); drop(&src); return 1;
    }
    if (0 == strcmp(op, "getbits") && nt == 6) {
        Buf o = mk(t[1], (k + 5U) % 8U), b = mk(t[2], k);
        nunavutGetBits(o.p, b.p, strtoull(t[3], 0, 10), strtoull(t[4], 0, 10), strtoull(t[5], 0, 10));
        strcpy(out, (guards_ok(&o) && guards_ok(&b)) ? "ok " : "GUARD ");
        put_hex(out, &o); drop(&o); drop(&b); return 1;
    }
    if (0 == strcmp(op, "setbit") && nt == 5) {
        Buf b = mk(t[1], k);
        const int rc = nunavutSetBit(b.p, strtoull(t[2], 0, 10), strtoull(t[3], 0, 10), t[4][0] == '1');
        sprintf(out, "%s%d ", guards_ok(&b) ? "ok " : "GUARD ", rc);
        put_hex(out, &b); drop(&b); return 1;
    }
    if (0 == strcmp(op, "getbit") && nt == 4) {
        Buf b = mk(t[1], k);
        const bool v = nunavutGetBit(b.p, strtoull(t[2], 0, 10), strtoull(t[3], 0, 10));
        sprintf(out, "ok %d", v ? 1 : 0); drop(&b); return 1;
    }
    if ((0 == strcmp(op, "setu") || 0 == strcmp(op, "seti")) && nt == 6) {
        Buf b = mk(t[1], k);
        int rc;
        if (op[3] == 'u') { rc = nunavutSetUxx(b.p, strtoull(t[2], 0, 10), strtoull(t[3], 0, 10), strtoull(t[4], 0, 10), (uint8_t) strtoul(t[5], 0, 10)); }
        else              { rc = nunavutSetIxx(b.p, strtoull(t[2], 0, 10), strtoull(t[3], 0, 10), strtoll(t[4], 0, 10), (uint8_t) strtoul(t[5], 0, 10)); }
        sprintf(out, "%s%d ", guards_ok(&b) ? "ok " : "GUARD ", rc);
        put_hex(out, &b); drop(&b); return 1;
    }
    if ((0 == strncmp(op, "getu", 4) || 0 == strncmp(op, "geti", 4)) && nt == 5) {
        Buf b = mk(t[1], k);
        const size_t size = strtoull(t[2], 0, 10), off = strtoull(t[3], 0, 10);
        const uint8_t len = (uint8_t) strtoul(t[4], 0, 10);
        const int w = atoi(op + 4);
        int known = 1;
        if (op[3] == 'u') {
            uint64_t v = 0;
            if (w == 8) { v = nunavutGetU8(b.p, size, off, len); } else if (w == 16) { v = nunavutGetU16(b.p, size, off, len); }
            else if (w == 32) { v = nunavutGetU32(b.p, size, off, len); } else if (w == 64) { v = nunavutGetU64(b.p, size, off, len); }
            else { known = 0; }
            sprintf(out, "%s%" PRIu64, guards_ok(&b) ? "ok " : "GUARD ", v);
        } else {
            int64_t v = 0;
            if (w == 8) { v = nunavutGetI8(b.p, size, off, len); } else if (w == 16) { v = nunavutGetI16(b.p, size, off, len); }
            else if (w == 32) { v = nunavutGetI32(b.p, size, off, len); } else if (w == 64) { v = nunavutGetI64(b.p, size, off, len); }
            else { known = 0; }
            sprintf(out, "%s%" PRId64, guards_ok(&b) ? "ok " : "GUARD ", v);
        }
        drop(&b); return known;
    }
    if (0 == strncmp(op, "setf", 4) && nt == 5) {
        Buf b = mk(t[1], k);
        const size_t size = strtoull(t[2], 0, 10), off = strtoull(t[3], 0, 10);
        const uint64_t bits = strtoull(t[4], 0, 16);
        const int w = atoi(op + 4);
        int rc = 0;
        if (w == 64) { double d; memcpy(&d, &bits, 8); rc = nunavutSetF64(b.p, size, off, d); }
        else { const uint32_t b32 = (uint32_t) bits; float f; memcpy(&f, &b32, 4); rc = (w == 32) ? nunavutSetF32(b.p, size, off, f) : nunavutSetF16(b.p, size, off, f); }
        sprintf(out, "%s%d ", guards_ok(&b) ? "ok " : "GUARD ", rc);
        put_hex(out, &b); drop(&b); return w == 16 || w == 32 || w == 64;
    }
    if (0 == strncmp(op, "getf", 4) && nt == 4) {
        Buf b = mk(t[1], k);
        const size_t size = strtoull(t[2], 0, 10), off = strtoull(t[3], 0, 10);
        const int w = atoi(op + 4);
        uint64_t bits = 0;
        if (w == 64) { const double d = nunavutGetF64(b.p, size, off); memcpy(&bits, &d, 8); }
        else { const float f = (w == 32) ? nunavutGetF32(b.p, size, off) : nunavutGetF16(b.p, size, off); uint32_t b32; memcpy(&b32, &f, 4); bits = b32; }
        sprintf(out, "%s%" PRIx64, guards_ok(&b) ? "ok " : "GUARD ", bits);
        drop(&b); return w == 16 || w == 32 || w == 64;
    }
    return 0;
}

int main(void)
{
    char* line = NULL; size_t cap = 0; ssize_t n;
    static char a[1 << 16], copy[1 << 16];
    setvbuf(stdout, NULL, _IOLBF, 1 << 16);  // an answer is out before the next call can crash
    while ((n = getline(&line, &cap, stdin)) > 0) {
        if (line[n - 1] == '\n') { line[--n] = 0; }
        if ((size_t) n >= sizeof(copy) / 4) { puts("bad-op"); continue; }
        char* t[MAXTOK]; int nt = 0;
        strcpy(copy, line);
        for (char* s = strtok(copy, " "); s != NULL && nt < MAXTOK; s = strtok(NULL, " ")) { t[nt++] = s; }
        if (nt < 2 || !run(t, nt, a)) { puts("bad-op"); continue; }
        puts(a);
    }
    free(line);
    return 0;
}
