/*
 * C14 (float part): line/binary-protocol program around the GENERATED support header.
 * Included by c14_float_main.c (C header, nunavutFloat16Pack ...) and c14_float_main.cpp (C++ header,
 * nunavut::support::float16Pack ...), which define the adapter macros
 *   F16_PACK(float) -> uint16_t, F16_UNPACK(uint16_t) -> float,
 *   WRAP_SET_F16(buf,size,off,val) -> int (negative on error), WRAP_GET_F16(buf,size,off) -> float,
 *   WRAP_SET_F32/GET_F32/SET_F64/GET_F64 likewise.
 *
 * Modes (argv[1]):
 *   unpack-all            stdout: 65536 x u32 (F16_UNPACK), then 65536 x u32 (WRAP_GET_F16 at bit offset 5)
 *   pack-list             stdin: N x u32; stdout: N x u16 (F16_PACK), then N x u16 (WRAP_SET_F16 at bit offset 3)
 *   mul-list              stdin: N x (u32,u32); stdout: N x u32 = bits(float(a) * float(b))   (the hardware multiply)
 *   add-list              stdin: N x (u32,u32); stdout: N x u32 = bits(float(a) + float(b))   (the hardware add)
 *   sum START COUNT NBLK  per block of COUNT patterns from START (hex): one checksum line (16 hex digits)
 *   sumu                  checksum of F16_UNPACK over all 65536 patterns
 *   spec START COUNT      property predicates (independent double-precision reference) on F16_PACK over a range
 *   spec-unpack           property predicates on F16_UNPACK / round trip over all 65536 patterns
 *   wrap32                stdin: N x u32; stdout: per value 8 bytes: buffer image after WRAP_SET_F32 at offset 0 (4 bytes) and
 *                         bits of WRAP_GET_F32 from offset 7 after a set at offset 7 (4 bytes)
 *   wrap64                same with u64 / 8+8 bytes
 * All binary I/O little-endian host order (x86-64).
 */
#include <stdio.h>
#include <stdlib.h>
#include <string.h>
#include <math.h>
#include <stdint.h>

static float f_of(uint32_t b) { float f; memcpy(&f, &b, 4); return f; }
static uint32_t b_of(float f) { uint32_t b; memcpy(&b, &f, 4); return b; }
static double d_of(uint64_t b) { double f; memcpy(&f, &b, 8); return f; }
static uint64_t q_of(double f) { uint64_t b; memcpy(&b, &f, 8); return b; }

#define CK_INIT 0xCBF29CE484222325ULL
#define CK_MUL 0x100000001B3ULL

/* value of a finite/infinite binary16 magnitude pattern, exact in double; NaN for NaN patterns */
static double hval(uint16_t h)
{
    const int e = (h >> 10) & 31;
    const int m = h & 1023;
    if (e == 0) return ldexp((double) m, -24);
    if (e == 31) return (m == 0) ? INFINITY : NAN;
    return ldexp((double) (1024 + m), e - 25);
}

static uint8_t* slurp(size_t* n)
{
    size_t cap = 1 << 20, len = 0;
    uint8_t* buf = (uint8_t*) malloc(cap);
    for (;;)
    {
        if (len == cap) { cap *= 2; buf = (uint8_t*) realloc(buf, cap); }
        size_t r = fread(buf + len, 1, cap - len, stdin);
        if (r == 0) break;
        len += r;
    }
    *n = len;
    return buf;
}

struct spec_stat
{
    unsigned long long viol, nonnearest, ties, diff_rne, diff_not_tie, tie_rnedown_same, mono;
    uint32_t first[8];
    char     kind[8][12];
    int      nfirst;
};

static void spec_note(struct spec_stat* s, uint32_t x, const char* kind)
{
    s->viol++;
    if (s->nfirst < 8) { s->first[s->nfirst] = x; strncpy(s->kind[s->nfirst], kind, 11); s->kind[s->nfirst][11] = 0; s->nfirst++; }
}

/* The property's predicates for one input, written against real values (doubles are exact here). */
static void spec_one(struct spec_stat* s, uint32_t x, uint16_t out)
{
    const uint32_t a = x & 0x7FFFFFFFU;
    const uint16_t om = (uint16_t) (out & 0x7FFFU);
    if ((out >> 15) != (x >> 31)) { spec_note(s, x, "sign"); }
    if (a > 0x7F800000U)
    {
        if (!(om > 0x7C00U)) { spec_note(s, x, "nan"); }
        return;
    }
    if (om > 0x7C00U) { spec_note(s, x, "made-nan"); return; }
    if (a == 0x7F800000U)
    {
        if (om != 0x7C00U) { spec_note(s, x, "inf"); }
        return;
    }
    const double ax = fabs((double) f_of(x));
    const double res = hval(om);
    if (ax >= 65520.0)
    {
        if (om != 0x7C00U) { spec_note(s, x, "overflow"); }
        return;
    }
    double u;
    if (ax < ldexp(1.0, -14)) { u = ldexp(1.0, -24); }
    else { int e; (void) frexp(ax, &e); u = ldexp(1.0, e - 1 - 10); }
    const double q = ax / u;                 /* exact: division by a power of two */
    const double lo = floor(q) * u;
    const double hi = ceil(q) * u;           /* 65536 stands for +inf above 65504 */
    if (om == 0x7C00U) { spec_note(s, x, "early-inf"); return; }
    if (!(res == lo || res == hi)) { spec_note(s, x, "faithful"); return; }
    const double other = (res == lo) ? hi : lo;
    if (fabs(res - ax) > fabs(other - ax)) { s->nonnearest++; }
    const int tie = (lo != hi) && ((ax - lo) == (hi - ax));
    double rne;
    if (tie) { rne = (fmod(floor(q), 2.0) == 0.0) ? lo : hi; s->ties++; }
    else { rne = ((ax - lo) < (hi - ax)) ? lo : hi; }
    if (res != rne)
    {
        s->diff_rne++;
        if (!tie) { s->diff_not_tie++; }
    }
    else if (tie && rne == lo)
    {
        s->tie_rnedown_same++;
    }
}

int main(int argc, char** argv)
{
    if (argc < 2) { fprintf(stderr, "mode?\n"); return 2; }
    const char* mode = argv[1];
    if (strcmp(mode, "unpack-all") == 0)
    {
        uint32_t* o = (uint32_t*) malloc(2 * 65536 * 4);
        for (uint32_t h = 0; h < 65536; h++)
        {
            o[h] = b_of(F16_UNPACK((uint16_t) h));
            uint8_t buf[3] = {0, 0, 0};
            const uint32_t sh = (uint32_t) h << 5;
            buf[0] = (uint8_t) sh; buf[1] = (uint8_t) (sh >> 8); buf[2] = (uint8_t) (sh >> 16);
            o[65536 + h] = b_of(WRAP_GET_F16(buf, 3, 5));
        }
        fwrite(o, 4, 2 * 65536, stdout);
        return 0;
    }
    if (strcmp(mode, "pack-list") == 0)
    {
        size_t n; uint8_t* in = slurp(&n); n /= 4;
        uint16_t* o = (uint16_t*) malloc(2 * n * 2 + 2);
        for (size_t i = 0; i < n; i++)
        {
            uint32_t x; memcpy(&x, in + 4 * i, 4);
            o[i] = F16_PACK(f_of(x));
            uint8_t buf[3] = {0xFF, 0xFF, 0xFF};
            int rc = WRAP_SET_F16(buf, 3, 3, f_of(x));
            uint32_t img = (uint32_t) buf[0] | ((uint32_t) buf[1] << 8) | ((uint32_t) buf[2] << 16);
            /* bits outside [3,19) must be untouched (all ones) */
            o[n + i] = (rc < 0 || (img & 0xF80007U) != 0xF80007U) ? (uint16_t) 0xDEAD : (uint16_t) ((img >> 3) & 0xFFFFU);
        }
        fwrite(o, 2, 2 * n, stdout);
        return 0;
    }
    if (strcmp(mode, "mul-list") == 0)
    {
        size_t n; uint8_t* in = slurp(&n); n /= 8;
        uint32_t* o = (uint32_t*) malloc(n * 4 + 4);
        for (size_t i = 0; i < n; i++)
        {
            uint32_t a, b; memcpy(&a, in + 8 * i, 4); memcpy(&b, in + 8 * i + 4, 4);
            volatile float fa = f_of(a), fb = f_of(b);
            volatile float fc = fa * fb;
            o[i] = b_of(fc);
        }
        fwrite(o, 4, n, stdout);
        return 0;
    }
    if (strcmp(mode, "add-list") == 0)
    {
        size_t n; uint8_t* in = slurp(&n); n /= 8;
        uint32_t* o = (uint32_t*) malloc(n * 4 + 4);
        for (size_t i = 0; i < n; i++)
        {
            uint32_t a, b; memcpy(&a, in + 8 * i, 4); memcpy(&b, in + 8 * i + 4, 4);
            volatile float fa = f_of(a), fb = f_of(b);
            volatile float fc = fa + fb;
            o[i] = b_of(fc);
        }
        fwrite(o, 4, n, stdout);
        return 0;
    }
    if (strcmp(mode, "sum") == 0 && argc == 5)
    {
        unsigned long long start = strtoull(argv[2], NULL, 16), count = strtoull(argv[3], NULL, 16), nblk = strtoull(argv[4], NULL, 10);
        for (unsigned long long b = 0; b < nblk; b++)
        {
            uint64_t h = CK_INIT;
            for (unsigned long long i = 0; i < count; i++)
            {
                const uint32_t x = (uint32_t) (start + b * count + i);
                h = h * CK_MUL + ((uint64_t) F16_PACK(f_of(x)) + 1U);
            }
            printf("%016llx\n", (unsigned long long) h);
        }
        return 0;
    }
    if (strcmp(mode, "sumu") == 0)
    {
        uint64_t h = CK_INIT;
        for (uint32_t i = 0; i < 65536; i++) { h = h * CK_MUL + ((uint64_t) b_of(F16_UNPACK((uint16_t) i)) + 1U); }
        printf("%016llx\n", (unsigned long long) h);
        return 0;
    }
    if (strcmp(mode, "spec") == 0 && argc == 4)
    {
        unsigned long long start = strtoull(argv[2], NULL, 16), count = strtoull(argv[3], NULL, 16);
        struct spec_stat s; memset(&s, 0, sizeof s);
        int have_prev = 0; double prev = 0.0;
        if ((start & 0x7FFFFFFFULL) != 0)
        {
            const uint32_t xp = (uint32_t) (start - 1);
            if ((xp & 0x7FFFFFFFU) <= 0x7F800000U) { prev = hval((uint16_t) (F16_PACK(f_of(xp)) & 0x7FFFU)); have_prev = 1; }
        }
        for (unsigned long long i = 0; i < count; i++)
        {
            const uint32_t x = (uint32_t) (start + i);
            const uint16_t out = F16_PACK(f_of(x));
            spec_one(&s, x, out);
            const uint32_t a = x & 0x7FFFFFFFU;
            if (a == 0) { have_prev = 0; }
            if (a <= 0x7F800000U)
            {
                /* |x| grows with the pattern inside one sign: |result| must not shrink */
                const double cur = hval((uint16_t) (out & 0x7FFFU));
                if (have_prev && !(cur >= prev)) { s.mono++; spec_note(&s, x, "monotone"); }
                prev = cur; have_prev = 1;
            }
            else { have_prev = 0; }
        }
        printf("viol=%llu nonnearest=%llu ties=%llu diff_rne=%llu diff_not_tie=%llu tie_rnedown_same=%llu mono=%llu first=",
               s.viol, s.nonnearest, s.ties, s.diff_rne, s.diff_not_tie, s.tie_rnedown_same, s.mono);
        for (int k = 0; k < s.nfirst; k++) { printf("%s%08x:%s", k ? "," : "", s.first[k], s.kind[k]); }
        printf("\n");
        return 0;
    }
    if (strcmp(mode, "spec-unpack") == 0)
    {
        unsigned long long viol = 0; uint32_t first = 0xFFFFFFFFU; const char* kind = "";
        for (uint32_t h = 0; h < 65536; h++)
        {
            const uint16_t hm = (uint16_t) (h & 0x7FFFU);
            const float f = F16_UNPACK((uint16_t) h);
            const uint32_t u = b_of(f);
            const char* k = NULL;
            if ((u >> 31) != (h >> 15)) k = "sign";
            else if (hm > 0x7C00U) { if (!((u & 0x7FFFFFFFU) > 0x7F800000U)) k = "nan"; else if (!((F16_PACK(f) & 0x7FFFU) > 0x7C00U)) k = "nan-back"; }
            else if (hm == 0x7C00U) { if ((u & 0x7FFFFFFFU) != 0x7F800000U) k = "inf"; else if (F16_PACK(f) != h) k = "roundtrip"; }
            else { if (!(fabs((double) f) == hval(hm))) k = "inexact"; else if (F16_PACK(f) != h) k = "roundtrip"; }
            if (k) { viol++; if (first == 0xFFFFFFFFU) { first = h; kind = k; } }
        }
        printf("viol=%llu first=%04x:%s\n", viol, (unsigned) (first & 0xFFFFU), kind);
        return 0;
    }
    if (strcmp(mode, "wrap32") == 0)
    {
        size_t n; uint8_t* in = slurp(&n); n /= 4;
        uint8_t* o = (uint8_t*) malloc(n * 8 + 8);
        for (size_t i = 0; i < n; i++)
        {
            uint32_t x; memcpy(&x, in + 4 * i, 4);
            uint8_t b0[4] = {0, 0, 0, 0};
            uint8_t b1[5] = {0, 0, 0, 0, 0};
            int r0 = WRAP_SET_F32(b0, 4, 0, f_of(x));
            int r1 = WRAP_SET_F32(b1, 5, 7, f_of(x));
            uint32_t back = b_of(WRAP_GET_F32(b1, 5, 7));
            if (r0 < 0 || r1 < 0) { memset(b0, 0xEE, 4); }
            memcpy(o + 8 * i, b0, 4); memcpy(o + 8 * i + 4, &back, 4);
        }
        fwrite(o, 8, n, stdout);
        return 0;
    }
    if (strcmp(mode, "wrap64") == 0)
    {
        size_t n; uint8_t* in = slurp(&n); n /= 8;
        uint8_t* o = (uint8_t*) malloc(n * 16 + 16);
        for (size_t i = 0; i < n; i++)
        {
            uint64_t x; memcpy(&x, in + 8 * i, 8);
            uint8_t b0[8] = {0};
            uint8_t b1[9] = {0};
            int r0 = WRAP_SET_F64(b0, 8, 0, d_of(x));
            int r1 = WRAP_SET_F64(b1, 9, 7, d_of(x));
            uint64_t back = q_of(WRAP_GET_F64(b1, 9, 7));
            if (r0 < 0 || r1 < 0) { memset(b0, 0xEE, 8); }
            memcpy(o + 16 * i, b0, 8); memcpy(o + 16 * i + 8, &back, 8);
        }
        fwrite(o, 16, n, stdout);
        return 0;
    }
    fprintf(stderr, "bad mode\n");
    return 2;
}
