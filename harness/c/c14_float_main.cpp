// C14 float part, C++ target: adapter around the generated nunavut/support/serialization.hpp
#include "nunavut/support/serialization.hpp"
#define F16_PACK(v) nunavut::support::float16Pack(v)
#define F16_UNPACK(h) nunavut::support::float16Unpack(h)
static inline int cpp_res(const nunavut::support::VoidResult& r) { return r.has_value() ? 0 : -1; }
#define WRAP_SET_F16(buf, size, off, v) cpp_res(nunavut::support::bitspan((buf), (size), (off)).setF16(v))
#define WRAP_GET_F16(buf, size, off) nunavut::support::const_bitspan((buf), (size), (off)).getF16()
#define WRAP_SET_F32(buf, size, off, v) cpp_res(nunavut::support::bitspan((buf), (size), (off)).setF32(v))
#define WRAP_GET_F32(buf, size, off) nunavut::support::const_bitspan((buf), (size), (off)).getF32()
#define WRAP_SET_F64(buf, size, off, v) cpp_res(nunavut::support::bitspan((buf), (size), (off)).setF64(v))
#define WRAP_GET_F64(buf, size, off) nunavut::support::const_bitspan((buf), (size), (off)).getF64()
#include "c14_float_body.h"
