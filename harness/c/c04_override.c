/* C04: driver for the C types of corpus/C04/override generated with --enable-override-variable-array-capacity.
 * Compiled once per configuration with -Dov_<T>_1_0_xs_ARRAY_CAPACITY_=<n>U (or without, = default build).
 * Requests (one per line):
 *   info <T>                    -> ok sl=<elements really in the array> cap=<DSDL capacity> check=<0|1 capacity check compiled in>
 *   de <T> <hex>                -> ok <count> <consumed> | err:<kind> | guard:<what>
 *        deserializes from an exact-size heap copy into an exact-size heap object pre-filled with 0xAA; afterwards every
 *        byte of the object that belongs to no member written by the routine (padding, element slots beyond the array)
 *        must still be 0xAA
 *   ser <T> <count> <cap>       -> ok <hex> | err:<kind>
 *        object from calloc, count as given (may exceed every capacity), the elements that exist set to 0x11.., output
 *        buffer malloc(<cap>) exactly
 * T = S8 | S16 | S7 (capacity 6) | B255 | W255 | B65535 | B15 | B7 (capacity = 2^k-1).  Hand-written against the PyDSDL definitions, not derived from the templates.
 */
#define _POSIX_C_SOURCE 200809L
#include "ov/S8_1_0.h"
#include "ov/S16_1_0.h"
#include "ov/S7_1_0.h"
#include "ov/B255_1_0.h"
#include "ov/W255_1_0.h"
#include "ov/B65535_1_0.h"
#include "ov/B15_1_0.h"
#include "ov/B7_1_0.h"
#include <stddef.h>
#include <stdio.h>
#include <stdlib.h>
#include <string.h>

static const char* err_name(int rc)
{
    switch (-rc)
    {
    case 2: return "err:invalid-argument";
    case 3: return "err:buffer-too-small";
    case 10: return "err:bad-array-length";
    case 11: return "err:bad-union-tag";
    case 12: return "err:bad-delimiter-header";
    default: return "err:unknown-code";
    }
}

static size_t unhex(const char* s, uint8_t** out)
{
    while (*s == ' ') { s++; }
    size_t len = (*s == '-') ? 0 : strlen(s);
    size_t n = len / 2;
    /* exactly n accessible bytes; for n == 0 a pointer one past a 1-byte allocation: ANY access is reported */
    uint8_t* base = (uint8_t*) malloc(n ? n : 1);
    uint8_t* b = n ? base : base + 1;
    for (size_t i = 0; i < n; i++) { unsigned v = 0; sscanf(s + 2 * i, "%2x", &v); b[i] = (uint8_t) v; }
    *out = b;
    return n;
}

#ifdef C04_NO_CHECK_MACRO
#endif

#define HANDLE(T, NAME, CHECKMACRO, CAP)                                                                                   \
    static int handle_##NAME(const char* op, const char* rest)                                                        \
    {                                                                                                                 \
        const size_t sl = sizeof(((T*) 0)->xs.elements) / sizeof(((T*) 0)->xs.elements[0]);                           \
        if (!strcmp(op, "info"))                                                                                      \
        {                                                                                                             \
            printf("ok sl=%zu cap=%d check=%d sizeof=%zu\n", sl, CAP, CHECKMACRO, sizeof(T));                          \
            return 1;                                                                                                 \
        }                                                                                                             \
        if (!strcmp(op, "de"))                                                                                        \
        {                                                                                                             \
            uint8_t* in = NULL;                                                                                       \
            const size_t n = unhex(rest, &in);                                                                        \
            T* o = (T*) malloc(sizeof(T));                                                                            \
            memset(o, 0xAA, sizeof(T));                                                                               \
            size_t sz = n;                                                                                            \
            const int rc = T##_deserialize_(o, in, &sz);                                                              \
            /* bytes that no correct run may touch: everything outside a, elements[0..sl), count, b */                \
            uint8_t* mask = (uint8_t*) calloc(1, sizeof(T));                                                          \
            memset(mask + offsetof(T, a), 1, sizeof(o->a));                                                           \
            memset(mask + offsetof(T, xs.elements), 1, sizeof(o->xs.elements));                                       \
            memset(mask + offsetof(T, xs.count), 1, sizeof(o->xs.count));                                             \
            memset(mask + offsetof(T, b), 1, sizeof(o->b));                                                           \
            int guard = 0;                                                                                            \
            for (size_t i = 0; i < sizeof(T); i++) { if (!mask[i] && ((const uint8_t*) o)[i] != 0xAA) { guard = 1; } } \
            if (guard) { printf("guard:object-bytes-outside-members-modified rc=%d count=%zu\n", rc, o->xs.count); }  \
            else if (rc < 0) { printf("%s\n", err_name(rc)); }                                                        \
            else { printf("ok %zu %zu\n", o->xs.count, sz); }                                                         \
            free(mask); free(o); free(n ? in : in - 1);                                                               \
            return 1;                                                                                                 \
        }                                                                                                             \
        if (!strcmp(op, "ser"))                                                                                       \
        {                                                                                                             \
            unsigned long count = 0, cap = 0;                                                                         \
            if (sscanf(rest, "%lu %lu", &count, &cap) != 2) { return 0; }                                             \
            T* o = (T*) calloc(1, sizeof(T));                                                                         \
            o->a = 0x0A; o->b = 0x0B;                                                                                 \
            for (size_t i = 0; i < sl; i++) { o->xs.elements[i] = (uint8_t) (0x11 * (i + 1)); }                       \
            o->xs.count = count;                                                                                      \
            uint8_t* bufbase = (uint8_t*) malloc(cap ? cap : 1);                                                      \
            uint8_t* buf = cap ? bufbase : bufbase + 1;                                                               \
            size_t size = cap;                                                                                        \
            const int rc = T##_serialize_(o, buf, &size);                                                             \
            if (rc < 0) { printf("%s\n", err_name(rc)); }                                                             \
            else { printf("ok "); for (size_t i = 0; i < size; i++) { printf("%02x", buf[i]); } printf("%s\n", size ? "" : "-"); } \
            free(bufbase); free(o);                                                                                   \
            return 1;                                                                                                 \
        }                                                                                                             \
        return 0;                                                                                                     \
    }

#ifdef ov_S8_1_0_DISABLE_SERIALIZATION_BUFFER_CHECK_
#    define S8_CHECK 0
#else
#    define S8_CHECK 1
#endif
#ifdef ov_S16_1_0_DISABLE_SERIALIZATION_BUFFER_CHECK_
#    define S16_CHECK 0
#else
#    define S16_CHECK 1
#endif
#ifdef ov_S7_1_0_DISABLE_SERIALIZATION_BUFFER_CHECK_
#    define S7_CHECK 0
#else
#    define S7_CHECK 1
#endif
#ifdef ov_B255_1_0_DISABLE_SERIALIZATION_BUFFER_CHECK_
#    define B255_CHECK 0
#else
#    define B255_CHECK 1
#endif
#ifdef ov_W255_1_0_DISABLE_SERIALIZATION_BUFFER_CHECK_
#    define W255_CHECK 0
#else
#    define W255_CHECK 1
#endif
#ifdef ov_B65535_1_0_DISABLE_SERIALIZATION_BUFFER_CHECK_
#    define B65535_CHECK 0
#else
#    define B65535_CHECK 1
#endif
#ifdef ov_B15_1_0_DISABLE_SERIALIZATION_BUFFER_CHECK_
#    define B15_CHECK 0
#else
#    define B15_CHECK 1
#endif
#ifdef ov_B7_1_0_DISABLE_SERIALIZATION_BUFFER_CHECK_
#    define B7_CHECK 0
#else
#    define B7_CHECK 1
#endif

HANDLE(ov_S8_1_0, S8, S8_CHECK, 6)
HANDLE(ov_S16_1_0, S16, S16_CHECK, 6)
HANDLE(ov_S7_1_0, S7, S7_CHECK, 6)
HANDLE(ov_B255_1_0, B255, B255_CHECK, 255)
HANDLE(ov_W255_1_0, W255, W255_CHECK, 255)
HANDLE(ov_B65535_1_0, B65535, B65535_CHECK, 65535)
HANDLE(ov_B15_1_0, B15, B15_CHECK, 15)
HANDLE(ov_B7_1_0, B7, B7_CHECK, 7)

int main(void)
{
    char* line = NULL;
    size_t cap = 0;
    ssize_t n;
    while ((n = getline(&line, &cap, stdin)) >= 0)
    {
        while (n > 0 && (line[n - 1] == '\n' || line[n - 1] == '\r')) { line[--n] = 0; }
        char op[16] = {0}, ty[16] = {0};
        int used = 0;
        int ok = 0;
        if (sscanf(line, "%15s %15s%n", op, ty, &used) >= 2)
        {
            const char* rest = line + used;
            while (*rest == ' ') { rest++; }
            if (!strcmp(ty, "S8")) { ok = handle_S8(op, rest); }
            else if (!strcmp(ty, "S16")) { ok = handle_S16(op, rest); }
            else if (!strcmp(ty, "S7")) { ok = handle_S7(op, rest); }
            else if (!strcmp(ty, "B255")) { ok = handle_B255(op, rest); }
            else if (!strcmp(ty, "W255")) { ok = handle_W255(op, rest); }
            else if (!strcmp(ty, "B65535")) { ok = handle_B65535(op, rest); }
            else if (!strcmp(ty, "B15")) { ok = handle_B15(op, rest); }
            else if (!strcmp(ty, "B7")) { ok = handle_B7(op, rest); }
        }
        if (!ok) { puts("err:bad-op"); }
        fflush(stdout);
    }
    free(line);
    return 0;
}
