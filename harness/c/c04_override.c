/* C04: driver for the C types of corpus/C04/override generated with --enable-override-variable-array-capacity.
 * Compiled once per configuration with -Dov_<T>_1_0_xs_ARRAY_CAPACITY_=<n>U (or without, = default build).
 * Requests (one per line):
 *   info <T>                    -> ok sl=<elements really in the array> cap=<DSDL capacity> check=<0|1 capacity check compiled in>
 *   de <T> <hex>                -> ok <count> <consumed> | err:<kind> | guard:<what>
 *        deserializes from an exact-size heap copy into an exact-size heap object pre-filled with 0xAA; afterwards every
 *        byte of the object that belongs to no member written by the routine (padding, element slots beyond the array)
 *        must still be 0xAA
 *   ser <T> <count> <cap>       -> ok <hex> | err:<kind>
 *        object from calloc, count as given (may exceed every capacity), the elements that exist set to 0x11.., output
 *        buffer malloc(<cap>) exactly
 *   null <T> ser|de <mask> [<hex>]  -> as ser / de; mask bit 1: object pointer NULL, 2: buffer pointer NULL, 4: size pointer NULL
 * T = S8 | S16 | S7 (capacity 6) | B255 | W255 | B65535 | B15 | B7 (capacity = 2^k-1) | Bits20 | Bits255 | Bits9u (bool arrays:
 * `sl` of `info` is sizeof(bitpacked) in BYTES).  Hand-written against the PyDSDL definitions, not derived from the templates.
 * Error names come from c04_codes.h, which the harness writes from the translator's table of documented codes
 * (translate/c_array_kinds.py); a code outside the table is answered err:undocumented-code-<n>.
 */
#define _POSIX_C_SOURCE 200809L
#include "ov/S8_1_0.h"
#include "ov/S16_1_0.h"
#include "ov/S7_1_0.h"
#include "ov/B255_1_0.h"
#include "ov/W255_1_0.h"
#include "ov/B65535_1_0.h"
#include "ov/B15_1_0.h"
#include "ov/B7_1_0.h"
#include "ov/Bits20_1_0.h"
#include "ov/Bits255_1_0.h"
#include "ov/Bits9u_1_0.h"
#include "c04_codes.h"
#include <stddef.h>
#include <stdio.h>
#include <stdlib.h>
#include <string.h>

#define err_name(rc) c04_c_err_name(rc)

static size_t unhex(const char* s, uint8_t** out)
{
    while (*s == ' ') { s++; }
    size_t len = (*s == '-') ? 0 : strlen(s);
    size_t n = len / 2;
    /* exactly n accessible bytes; for n == 0 a pointer one past a 1-byte allocation: ANY access is reported */
    uint8_t* base = (uint8_t*) malloc(n ? n : 1);
    uint8_t* b = n ? base : base + 1;
    for (size_t i = 0; i < n; i++) { unsigned v = 0; sscanf(s + 2 * i, "%2x", &v); b[i] = (uint8_t) v; }
    *out = b;
    return n;
}

#ifdef C04_NO_CHECK_MACRO
#endif

#define HANDLE_M(T, NAME, CHECKMACRO, CAP, MEMBER, SLDIV)                                                                                  \
    static int handle_##NAME(const char* op, const char* rest)                                                        \
    {                                                                                                                 \
        const size_t sl = sizeof(((T*) 0)->xs.MEMBER) / SLDIV;                                                        \
        if (!strcmp(op, "info"))                                                                                      \
        {                                                                                                             \
            printf("ok sl=%zu cap=%d check=%d sizeof=%zu\n", sl, CAP, CHECKMACRO, sizeof(T));                          \
            return 1;                                                                                                 \
        }                                                                                                             \
        if (!strcmp(op, "de"))                                                                                        \
        {                                                                                                             \
            uint8_t* in = NULL;                                                                                       \
            const size_t n = unhex(rest, &in);                                                                        \
            T* o = (T*) malloc(sizeof(T));                                                                            \
            memset(o, 0xAA, sizeof(T));                                                                               \
            size_t sz = n;                                                                                            \
            const int rc = T##_deserialize_(o, in, &sz);                                                              \
            /* bytes that no correct run may touch: everything outside a, elements[0..sl), count, b */                \
            uint8_t* mask = (uint8_t*) calloc(1, sizeof(T));                                                          \
            memset(mask + offsetof(T, a), 1, sizeof(o->a));                                                           \
            memset(mask + offsetof(T, xs.MEMBER), 1, sizeof(o->xs.MEMBER));                                           \
            memset(mask + offsetof(T, xs.count), 1, sizeof(o->xs.count));                                             \
            memset(mask + offsetof(T, b), 1, sizeof(o->b));                                                           \
            int guard = 0;                                                                                            \
            for (size_t i = 0; i < sizeof(T); i++) { if (!mask[i] && ((const uint8_t*) o)[i] != 0xAA) { guard = 1; } } \
            if (guard) { printf("guard:object-bytes-outside-members-modified rc=%d count=%zu\n", rc, o->xs.count); }  \
            else if (rc < 0) { printf("%s\n", err_name(rc)); }                                                        \
            else { printf("ok %zu %zu\n", o->xs.count, sz); }                                                         \
            free(mask); free(o); free(n ? in : in - 1);                                                               \
            return 1;                                                                                                 \
        }                                                                                                             \
        if (!strcmp(op, "ser"))                                                                                       \
        {                                                                                                             \
            unsigned long count = 0, cap = 0;                                                                         \
            if (sscanf(rest, "%lu %lu", &count, &cap) != 2) { return 0; }                                             \
            T* o = (T*) calloc(1, sizeof(T));                                                                         \
            o->a = 0x0A; o->b = 0x0B;                                                                                 \
            for (size_t i = 0; i < sl; i++) { o->xs.MEMBER[i] = (uint8_t) (0x11 * (i + 1)); }                         \
            o->xs.count = count;                                                                                      \
            uint8_t* bufbase = (uint8_t*) malloc(cap ? cap : 1);                                                      \
            uint8_t* buf = cap ? bufbase : bufbase + 1;                                                               \
            size_t size = cap;                                                                                        \
            const int rc = T##_serialize_(o, buf, &size);                                                             \
            if (rc < 0) { printf("%s\n", err_name(rc)); }                                                             \
            else { printf("ok "); for (size_t i = 0; i < size; i++) { printf("%02x", buf[i]); } printf("%s\n", size ? "" : "-"); } \
            free(bufbase); free(o);                                                                                   \
            return 1;                                                                                                 \
        }                                                                                                             \
        if (!strcmp(op, "null"))                                                                                      \
        {                                                                                                             \
            char which[8] = {0};                                                                                      \
            unsigned mask = 0;                                                                                        \
            int used = 0;                                                                                             \
            if (sscanf(rest, "%7s %u%n", which, &mask, &used) < 2) { return 0; }                                      \
            T* o = (T*) calloc(1, sizeof(T));                                                                         \
            o->a = 0x0A; o->b = 0x0B;                                                                                 \
            int rc = 0;                                                                                               \
            if (!strcmp(which, "ser"))                                                                                \
            {                                                                                                         \
                uint8_t* buf = (uint8_t*) malloc(80000);                                                              \
                size_t size = 80000;                                                                                  \
                rc = T##_serialize_((mask & 1U) ? NULL : o, (mask & 2U) ? NULL : buf, (mask & 4U) ? NULL : &size);    \
                if (rc < 0) { printf("%s\n", err_name(rc)); } else { printf("ok %zu\n", size); }                      \
                free(buf);                                                                                            \
            }                                                                                                         \
            else                                                                                                      \
            {                                                                                                         \
                uint8_t* in = NULL;                                                                                   \
                const size_t n = unhex(rest + used, &in);                                                             \
                size_t sz = n;                                                                                        \
                rc = T##_deserialize_((mask & 1U) ? NULL : o, (mask & 2U) ? NULL : in, (mask & 4U) ? NULL : &sz);     \
                if (rc < 0) { printf("%s\n", err_name(rc)); } else { printf("ok %zu %zu\n", o->xs.count, sz); }       \
                free(n ? in : in - 1);                                                                                \
            }                                                                                                         \
            free(o);                                                                                                  \
            return 1;                                                                                                 \
        }                                                                                                             \
        return 0;                                                                                                     \
    }

#define HANDLE(T, NAME, CHECKMACRO, CAP) HANDLE_M(T, NAME, CHECKMACRO, CAP, elements, sizeof(((T*) 0)->xs.elements[0]))
#define HANDLE_BITS(T, NAME, CHECKMACRO, CAP) HANDLE_M(T, NAME, CHECKMACRO, CAP, bitpacked, 1U)

#ifdef ov_S8_1_0_DISABLE_SERIALIZATION_BUFFER_CHECK_
#    define S8_CHECK 0
#else
#    define S8_CHECK 1
#endif
#ifdef ov_S16_1_0_DISABLE_SERIALIZATION_BUFFER_CHECK_
#    define S16_CHECK 0
#else
#    define S16_CHECK 1
#endif
#ifdef ov_S7_1_0_DISABLE_SERIALIZATION_BUFFER_CHECK_
#    define S7_CHECK 0
#else
#    define S7_CHECK 1
#endif
#ifdef ov_B255_1_0_DISABLE_SERIALIZATION_BUFFER_CHECK_
#    define B255_CHECK 0
#else
#    define B255_CHECK 1
#endif
#ifdef ov_W255_1_0_DISABLE_SERIALIZATION_BUFFER_CHECK_
#    define W255_CHECK 0
#else
#    define W255_CHECK 1
#endif
#ifdef ov_B65535_1_0_DISABLE_SERIALIZATION_BUFFER_CHECK_
#    define B65535_CHECK 0
#else
#    define B65535_CHECK 1
#endif
#ifdef ov_B15_1_0_DISABLE_SERIALIZATION_BUFFER_CHECK_
#    define B15_CHECK 0
#else
#    define B15_CHECK 1
#endif
#ifdef ov_B7_1_0_DISABLE_SERIALIZATION_BUFFER_CHECK_
#    define B7_CHECK 0
#else
#    define B7_CHECK 1
#endif
#ifdef ov_Bits20_1_0_DISABLE_SERIALIZATION_BUFFER_CHECK_
#    define Bits20_CHECK 0
#else
#    define Bits20_CHECK 1
#endif
#ifdef ov_Bits255_1_0_DISABLE_SERIALIZATION_BUFFER_CHECK_
#    define Bits255_CHECK 0
#else
#    define Bits255_CHECK 1
#endif
#ifdef ov_Bits9u_1_0_DISABLE_SERIALIZATION_BUFFER_CHECK_
#    define Bits9u_CHECK 0
#else
#    define Bits9u_CHECK 1
#endif

HANDLE(ov_S8_1_0, S8, S8_CHECK, 6)
HANDLE(ov_S16_1_0, S16, S16_CHECK, 6)
HANDLE(ov_S7_1_0, S7, S7_CHECK, 6)
HANDLE(ov_B255_1_0, B255, B255_CHECK, 255)
HANDLE(ov_W255_1_0, W255, W255_CHECK, 255)
HANDLE(ov_B65535_1_0, B65535, B65535_CHECK, 65535)
HANDLE(ov_B15_1_0, B15, B15_CHECK, 15)
HANDLE(ov_B7_1_0, B7, B7_CHECK, 7)
HANDLE_BITS(ov_Bits20_1_0, Bits20, Bits20_CHECK, 20)
HANDLE_BITS(ov_Bits255_1_0, Bits255, Bits255_CHECK, 255)
HANDLE_BITS(ov_Bits9u_1_0, Bits9u, Bits9u_CHECK, 9)

int main(void)
{
    char* line = NULL;
    size_t cap = 0;
    ssize_t n;
    while ((n = getline(&line, &cap, stdin)) >= 0)
    {
        while (n > 0 && (line[n - 1] == '\n' || line[n - 1] == '\r')) { line[--n] = 0; }
        char op[16] = {0}, ty[16] = {0};
        int used = 0;
        int ok = 0;
        if (sscanf(line, "%15s %15s%n", op, ty, &used) >= 2)
        {
            const char* rest = line + used;
            while (*rest == ' ') { rest++; }
            if (!strcmp(ty, "S8")) { ok = handle_S8(op, rest); }
            else if (!strcmp(ty, "S16")) { ok = handle_S16(op, rest); }
            else if (!strcmp(ty, "S7")) { ok = handle_S7(op, rest); }
            else if (!strcmp(ty, "B255")) { ok = handle_B255(op, rest); }
            else if (!strcmp(ty, "W255")) { ok = handle_W255(op, rest); }
            else if (!strcmp(ty, "B65535")) { ok = handle_B65535(op, rest); }
            else if (!strcmp(ty, "B15")) { ok = handle_B15(op, rest); }
            else if (!strcmp(ty, "B7")) { ok = handle_B7(op, rest); }
            else if (!strcmp(ty, "Bits20")) { ok = handle_Bits20(op, rest); }
            else if (!strcmp(ty, "Bits255")) { ok = handle_Bits255(op, rest); }
            else if (!strcmp(ty, "Bits9u")) { ok = handle_Bits9u(op, rest); }
        }
        if (!ok) { puts("err:bad-op"); }
        fflush(stdout);
    }
    free(line);
    return 0;
}
