/* C04 additions to the generated C codec shim (harness/c04.py splices this in after the base handler of
 * harness/codec_targets.py, which is renamed base_handle_<idx>).  Extra requests:
 *   dep  <idx> <fill> <hex>          deserialize into an object filled with byte <fill> (hex), exact-size input buffer
 *   de2  <idx> <fill> <hexA> <hexB>  fill the object, deserialize A into it (result ignored), then B into the same object
 *   serx <idx> <V> <cap>             serialize into malloc(<cap>) exactly, so that a sanitizer sees an overrun by one byte
 * Answers as for `de` / `serbuf`.  The object is an exact-size heap allocation as well.
 */
#ifndef C04_HANDLER_H
#define C04_HANDLER_H
#include "c04_codes.h" /* written by harness/c04.py from the translated table of documented codes */

/* exactly n accessible bytes: for n == 0 a pointer one past a 1-byte allocation, so that ANY access is reported */
static uint8_t* c04_exact_alloc(size_t n, void** base)
{
    *base = malloc(n ? n : 1);
    return n ? (uint8_t*) *base : ((uint8_t*) *base) + 1;
}
static uint8_t* c04_exact_copy(const uint8_t* src, size_t n, void** base)
{
    uint8_t* p = c04_exact_alloc(n, base);
    if (n) { memcpy(p, src, n); }
    return p;
}

static const char* c04_token(const char* s, char* out, size_t cap)
{
    while (*s == ' ') { s++; }
    size_t n = 0;
    while (*s && *s != ' ') { if (n + 1 < cap) { out[n++] = *s; } s++; }
    out[n] = 0;
    return s;
}

/* every byte of the object that belongs to no member (padding) must still hold the fill byte after deserialization;
 * only on unoptimised builds (an optimiser may legally widen a member store over padding) */
#ifdef C04_GUARD_PADDING
#    define C04_CHECK_PADDING(T, OBJ, FILL, FLAG)                                                                     \
        do {                                                                                                          \
            uint8_t* mask_ = (uint8_t*) calloc(1, sizeof(T));                                                         \
            c04_mask_##T(mask_, 0);                                                                                   \
            for (size_t i_ = 0; i_ < sizeof(T); i_++)                                                                 \
            {                                                                                                         \
                if (!mask_[i_] && ((const uint8_t*) (OBJ))[i_] != (uint8_t) (FILL)) { (FLAG) = 1; }                    \
            }                                                                                                         \
            free(mask_);                                                                                              \
        } while (0)
#else
#    define C04_CHECK_PADDING(T, OBJ, FILL, FLAG) do { (void) (FLAG); } while (0)
#endif

#define C04_DEFINE_HANDLER(IDX, T)                                                                                    \
    static int handle_##IDX(const char* op, const char* rest)                                                         \
    {                                                                                                                 \
        const int is_dep = !strcmp(op, "dep"), is_de2 = !strcmp(op, "de2");                                           \
        if (is_dep || is_de2)                                                                                         \
        {                                                                                                             \
            char tok[8];                                                                                              \
            rest = c04_token(rest, tok, sizeof tok);                                                                  \
            const int fill = (int) strtol(tok, NULL, 16);                                                             \
            T* o2 = (T*) malloc(sizeof(T));                                                                           \
            memset(o2, fill, sizeof(T));                                                                              \
            if (is_de2)                                                                                               \
            {                                                                                                         \
                while (*rest == ' ') { rest++; }                                                                      \
                const char* sp = strchr(rest, ' ');                                                                   \
                if (!sp) { free(o2); return 0; }                                                                      \
                char* first = (char*) malloc((size_t) (sp - rest) + 1);                                               \
                memcpy(first, rest, (size_t) (sp - rest));                                                            \
                first[sp - rest] = 0;                                                                                 \
                uint8_t* a = NULL;                                                                                    \
                const size_t na = hex_decode(first, &a);                                                              \
                void* abase = NULL;                                                                                   \
                uint8_t* ax = c04_exact_copy(a, na, &abase);                                                          \
                size_t sa = na;                                                                                       \
                (void) T##_deserialize_(o2, ax, &sa);                                                                 \
                free(abase);                                                                                          \
                free(a);                                                                                              \
                free(first);                                                                                          \
                rest = sp + 1;                                                                                        \
            }                                                                                                         \
            uint8_t* in = NULL;                                                                                       \
            const size_t n = hex_decode(rest, &in);                                                                   \
            void* inbase = NULL;                                                                                      \
            uint8_t* inx = c04_exact_copy(in, n, &inbase);                                                            \
            size_t sz = n;                                                                                            \
            const int rc = T##_deserialize_(o2, inx, &sz);                                                            \
            int guard = 0;                                                                                            \
            C04_CHECK_PADDING(T, o2, fill, guard);                                                                    \
            if (guard) { o_str("guard:padding-modified"); }                                                           \
            else if (rc < 0) { o_str(c04_c_err_name(rc)); }                                                                 \
            else { o_str("ok"); dump_##T(o2); o_u64(sz); }                                                            \
            free(o2);                                                                                                 \
            free(inbase);                                                                                             \
            free(in);                                                                                                 \
            return 1;                                                                                                 \
        }                                                                                                             \
        if (!strcmp(op, "serx"))                                                                                      \
        {                                                                                                             \
            T* obj = (T*) calloc(1, sizeof(T));                                                                       \
            P p = {rest, 0};                                                                                          \
            parse_##T(&p, obj);                                                                                       \
            const size_t cap = (size_t) p_u64(&p);                                                                    \
            if (p.err) { free(obj); return 0; }                                                                       \
            void* bufbase = NULL;                                                                                     \
            uint8_t* buf = c04_exact_alloc(cap, &bufbase);                                                            \
            if (cap) { memset(buf, 0x55, cap); }                                                                      \
            size_t size = cap;                                                                                        \
            const int rc = T##_serialize_(obj, buf, &size);                                                           \
            if (rc < 0) { o_str(c04_c_err_name(rc)); }                                                                      \
            else if (size > cap) { o_str("err:size-above-capacity"); }                                                \
            else { o_str("ok"); o_hex(buf, size); }                                                                   \
            free(bufbase);                                                                                            \
            free(obj);                                                                                                \
            return 1;                                                                                                 \
        }                                                                                                             \
        return base_handle_##IDX(op, rest);                                                                           \
    }
#endif
