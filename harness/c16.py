"""
C16 — template resolution and environment contract hold for all types and templates.

Proof: lean/NunavutVerif/Properties/C16.lean over lean/NunavutVerif/Model/{Resolve,ResolveDirs,EnvCtor}.lean; the class table,
the instance-test enumeration (roots OBSERVED) and the reserved names are regenerated from the running PyDSDL / the tree under
check by translate/pydsdl_classes.py, the construction of the environment (every assignment to `_allow_replacements`, the
statement order of CodeGenEnvironment.__init__ and of the generators, the per-language instance tests of the finished
environment) by translate/env_ctor.py (Python ast), on every run.

Tie (real implementation in-process versus the compiled `resolve` driver):
  A  generated table / instance-test map versus an independent walk of the running PyDSDL and the real
     `_create_all_dsdl_tests()`;
  B  alias rule on arbitrary class names (dynamic classes through the real `_create_instance_tests_for_type`),
     pathlib suffix/stem on arbitrary file names (real `_filter_template_list_by_suffix` + `Path.stem`);
  C  `type_to_template` on real `DSDLTemplateLoader` objects over a scratch user directory and a scratch package,
     for every PyDSDL class x assignments of its chain to {none, user, built-in, both}, cold and after warm-up
     look-ups, loaders with both / only one source, final lookup cache included;
  C2 loaders over a LIST of 1-3 user directories (model: union listing `sorted(set(...))`, first-hit get_source, get_templates
     over every directory): every class x (class, ancestor) x every distribution of the two templates over the directories and
     the package, random distributions over whole chains, FIND_ALL / FIND_FIRST / no package; `get_templates()` against
     resolution; `DSDLTemplateLoader.__init__` (which Jinja loaders exist);
  D  synthetic class hierarchies (multiple inheritance, shared names, duplicate stems) for the search loop itself;
  E  `get_source` with several user directories and a package;
  F  `env.tests[...]` of a real `DSDLCodeGenerator` on PyDSDL instances obtained by parsing generated DSDL;
  G  colliding / reserved / fresh additional filters, tests and globals through the real `DSDLCodeGenerator`
     constructor and the real `CodeGenEnvironmentBuilder` (with and without the allow flag), crossed with the LOADER
     CONFIGURATION the environment is created over (no templates_dir / templates_dir(s) FIND_FIRST / SupportGenerator with
     and without support_templates_dir FIND_ALL / builder over fs-only, fs+package, FIND_FIRST, DictLoader); the model side
     is both the hand-written `construct` and the state machine over the REGENERATED statement list (`envsm`), which also
     reports the final `_allow_replacements`.

Failing-input search: the statements of the property as independent predicates over the implementation only
(`expected_*` below never look at the model).
"""
import gc
import importlib
import inspect
import itertools
import json
import logging
import os
import pathlib
import shutil
import sys

from . import common
from .common import enc, dec

SUFFIX = ".j2"
NONE, USER, BUILTIN, BOTH = 0, 1, 2, 3


# ======================================================================================================================
# helpers: protocol
# ======================================================================================================================
def enc_list(xs):
    xs = list(xs)
    return ",".join(enc(x) for x in xs) if xs else "~"


def opt_files(xs):
    return "!" if xs is None else enc_list(xs)


def parse_seq_answer(ans):
    """-> (results [str|None], cache {idx: path}) or the raw string for fuel / bad-op."""
    if "|" not in ans:
        return ans
    rs, cache = ans.split("|")
    res = [None if r == "N" else dec(r) for r in rs.split(",")] if rs else []
    c = {}
    if cache != "~":
        for e in cache.split(","):
            i, p = e.split(":")
            c[int(i)] = dec(p)
    return res, c


# ======================================================================================================================
# the running PyDSDL, walked independently of the translator
# ======================================================================================================================
def walk_pydsdl():
    import pydsdl
    import nunavut  # noqa: F401
    seen = []
    stack = [pydsdl.Any]
    while stack:
        c = stack.pop()
        if c in seen:
            continue
        seen.append(c)
        stack.extend(c.__subclasses__())
    allc = list(seen)
    k = 0
    while k < len(allc):
        for b in allc[k].__bases__:
            if b is not object and b not in allc:
                allc.append(b)
        k += 1
    return seen, allc


def chain_to_any(cls):
    """The inheritance chain the property speaks of: the class, its base, ... ending at pydsdl.Any."""
    import pydsdl
    out = []
    c = cls
    while True:
        out.append(c)
        if c is pydsdl.Any:
            return out
        bs = [b for b in c.__bases__ if b is not object]
        if len(bs) != 1:
            return out  # not under Any / not single inheritance: chain ends here
        c = bs[0]


def oracle_alias(name):
    """The 'short lower-case alias' of the property, written independently."""
    low = name.lower()
    for suf in ("type", "field"):
        if low.endswith(suf) and len(low) > len(suf):
            return low[: len(low) - len(suf)]
    return low


# ======================================================================================================================
# scratch template sources
# ======================================================================================================================
class Sources:
    """A user template directory and an importable scratch package with a `templates` directory."""
    _n = 0

    def __init__(self, ctx, layout):
        Sources._n += 1
        self.layout = layout  # 0: flat (same names in both sets), 1: user under u/, built-in under b/
        self.root = ctx.scratch / f"src{Sources._n}"
        self.usr = self.root / "usr"
        self.pkgname = f"c16pkg_{os.getpid()}_{Sources._n}"
        self.pkgroot = self.root / "pk"
        self.tpl = self.pkgroot / self.pkgname / "templates"
        self.tpl.mkdir(parents=True)
        self.usr.mkdir(parents=True)
        (self.pkgroot / self.pkgname / "__init__.py").write_text("")
        (self.tpl / "__init__.py").write_text("")
        if layout == 1:
            (self.usr / "u").mkdir()
            (self.tpl / "b").mkdir()
        if str(self.pkgroot) not in sys.path:
            sys.path.insert(0, str(self.pkgroot))
        importlib.invalidate_caches()
        self.user = {}     # stem -> relative name
        self.builtin = {}
        self.extra_user = []     # decoys: listed by the loader, must be ignored or not match
        self.extra_builtin = ["__init__.py"]

    def rel(self, stem, user):
        if self.layout == 1:
            return ("u/" if user else "b/") + stem + SUFFIX
        return stem + SUFFIX

    def set(self, stem, state):
        for user, present in ((True, state in (USER, BOTH)), (False, state in (BUILTIN, BOTH))):
            d = self.user if user else self.builtin
            base = self.usr if user else self.tpl
            if present and stem not in d:
                r = self.rel(stem, user)
                (base / r).write_text(("USR " if user else "PKG ") + stem)
                d[stem] = r
            elif not present and stem in d:
                (base / d.pop(stem)).unlink()

    def add_decoy(self, user, relname):
        base = self.usr if user else self.tpl
        p = base / relname
        p.parent.mkdir(parents=True, exist_ok=True)
        p.write_text("DECOY")
        (self.extra_user if user else self.extra_builtin).append(relname)

    def clear(self):
        for stem in list(self.user) + list(self.builtin):
            self.set(stem, NONE)

    def set_strays(self, rng, class_names, density=0.35):
        """Stray files around the templates of `class_names`: listed by the loaders, nobody's template.  Multi-dot names
        (Class.orig.j2), backup suffixes (Class.j2.bak), other case, hidden files, directories named like templates."""
        for user, rel in getattr(self, "strays", []):
            base = self.usr if user else self.tpl
            (base / rel).unlink()
            (self.extra_user if user else self.extra_builtin).remove(rel)
        self.strays = []
        sub = {True: "u/", False: "b/"} if self.layout == 1 else {True: "", False: ""}
        for n in class_names:
            for user in (True, False):
                if rng.random() > density:
                    continue
                forms = [n + ".orig" + SUFFIX, n + ".wip" + SUFFIX, n + SUFFIX + ".bak", "." + n + SUFFIX, n + "." + SUFFIX, n + SUFFIX + SUFFIX[:-1],
                         "strays/" + n + SUFFIX + "/inner.txt", "strays/" + n + SUFFIX + "/part" + SUFFIX, n + ".v2.final" + SUFFIX, n + SUFFIX.upper()]
                if n.upper() != n:
                    forms.append(n.upper() + SUFFIX)
                if n.lower() != n:
                    forms.append(n.lower() + SUFFIX)
                for f in rng.sample(forms, rng.randint(1, 3)):
                    rel = (rng.choice(["", sub[user]]) if not f.startswith("strays/") else "") + f
                    if (user, rel) in self.strays or rel in (self.extra_user if user else self.extra_builtin):
                        continue
                    self.add_decoy(user, rel)
                    self.strays.append((user, rel))

    def listing(self, user):
        """What the Jinja loader lists: every file, sorted."""
        d, ex = (self.user, self.extra_user) if user else (self.builtin, self.extra_builtin)
        return sorted(list(d.values()) + ex)

    def loader(self, mode):
        """mode: 'both' (FIND_ALL), 'fs', 'pkg', 'first' (FIND_FIRST with both arguments)."""
        from nunavut.jinja.loaders import DSDLTemplateLoader
        from nunavut._utilities import ResourceSearchPolicy
        if mode == "both":
            return DSDLTemplateLoader(templates_dirs=[self.usr], package_name_for_templates=self.pkgname,
                                      search_policy=ResourceSearchPolicy.FIND_ALL)
        if mode == "fs":
            return DSDLTemplateLoader(templates_dirs=[self.usr], package_name_for_templates=None)
        if mode == "pkg":
            return DSDLTemplateLoader(templates_dirs=None, package_name_for_templates=self.pkgname)
        if mode == "first":
            return DSDLTemplateLoader(templates_dirs=[self.usr], package_name_for_templates=self.pkgname,
                                      search_policy=ResourceSearchPolicy.FIND_FIRST)
        raise ValueError(mode)

    def model_sets(self, loader):
        """(fs listing | None, package listing | None) as the real loader object is configured."""
        fs = self.listing(True) if loader._fsloader is not None else None
        pk = self.listing(False) if loader._package_loader is not None else None
        return fs, pk


def run_lookups(loader, classes):
    out = []
    for c in classes:
        r = loader.type_to_template(c)
        out.append(None if r is None else r.as_posix())
    return out


def origin_of(loader, env, relpath):
    """'user' / 'builtin' / None: which source get_source takes the resolved name from."""
    from nunavut.jinja.jinja2 import TemplateNotFound
    try:
        src = loader.get_source(env, relpath)[0]
    except TemplateNotFound:
        return None
    return "user" if src.startswith("USR") else "builtin" if src.startswith("PKG") else "other"


# ======================================================================================================================
# the property's statement about resolution, over the implementation's inputs only
# ======================================================================================================================
def expected_resolution(cls, user_stems, builtin_stems):
    """(stem, origin) of the nearest class of the chain (ending at Any) with a template in either set; None."""
    for c in chain_to_any(cls):
        n = c.__name__
        if n in user_stems:
            return n, "user"
        if n in builtin_stems:
            return n, "builtin"
    return None


class LookupCase:
    __slots__ = ("sources", "mode", "classes", "user", "builtin", "fs", "pk", "impl", "cache", "line")


def lookup_case(src, mode, classes, index_of, hier="@", extra=None):
    """Run `classes` (a look-up sequence) on one fresh real loader; build the model request."""
    ld = src.loader(mode)
    fs, pk = src.model_sets(ld)
    impl = run_lookups(ld, classes)
    cache = {index_of.get(c, -1): ("<None>" if p is None else p.as_posix()) for c, p in ld._type_to_template_lookup_cache.items()}
    lc = LookupCase()
    lc.sources, lc.mode, lc.classes = src, mode, classes
    lc.user = set(src.user) if ld._fsloader is not None else set()
    lc.builtin = set(src.builtin) if ld._package_loader is not None else set()
    lc.fs, lc.pk, lc.impl, lc.cache = fs, pk, impl, cache
    lc.line = "seq new " + hier + " " + opt_files(fs) + " " + opt_files(pk) + " " + ",".join(str(index_of[c]) for c in classes)
    return lc, ld


def describe(lc, names):
    return {"mode": lc.mode, "layout": lc.sources.layout, "user_templates": sorted(lc.sources.user.values()),
            "builtin_templates": sorted(lc.sources.builtin.values()), "lookups": [names(c) for c in lc.classes],
            "other_user_files": sorted(lc.sources.extra_user), "other_builtin_files": sorted(x for x in lc.sources.extra_builtin if x != "__init__.py"),
            "results": lc.impl}


# ======================================================================================================================
def run(ctx: common.Ctx):
    logging.disable(logging.INFO)
    rng = ctx.rng
    import time
    phase_t = {"_": time.time()}

    def phase(name):
        now = time.time()
        phase_t[name] = round(now - phase_t["_"], 2)
        phase_t["_"] = now
        ctx.extra["phase_seconds"] = {k: v for k, v in phase_t.items() if k != "_"}

    ctx.rule = ("C2: every class x (class, ancestor) x every distribution of their templates over 1-3 user directories (+ package; quick: package only for <= 2 directories); "
                "G: every built-in name x generator/builder, a category-covering slice x 8 further loader configurations.  "
                "C: every class of the running PyDSDL x every assignment of the nearest K classes of its chain to {none,user,built-in,both} "
                "(K=4 quick, K=7 = the whole chain up to Any thorough; farther classes random) in a scratch user dir + scratch package, cold and after random "
                "warm-up look-ups, loaders with both/one source; D: random synthetic hierarchies; F: every instance test x every PyDSDL "
                "object of a parsed generated namespace; G: additional filters/tests/globals drawn from built-in, prefixed, reserved and "
                "fresh names.  Non-trivial = at least one template present / a colliding or prefixed name; distinct by full input.")
    ctx.assumptions = [
        "Jinja's PackageLoader lists and loads files as documented; FileSystemLoader.list_templates/get_source over a directory list ARE modelled (union, sorted; first hit) and tied in stream C2; streams C/D/F still start from the loaders' listings",
        "user directories in the enumeration stream hold regular files only (no directory named *.j2: get_templates() globs and would list it, the loader walks files)",
        "template sets do not change between look-ups on one loader object",
        "class names are ASCII (the translator refuses anything else)",
        "user callables are plain functions (no language-filter annotation)",
    ]
    # ---- translator --------------------------------------------------------------------------------------------
    sys.path.insert(0, str(common.VERIF))
    from translate import pydsdl_classes
    gen = None
    try:
        gen = pydsdl_classes.run()
        ctx.extra["translator"] = {"classes": len(gen["classes"]), "instance_tests": len(gen["code_tests"]),
                                   "pydsdl": gen["pydsdl_version"], "rewritten": gen["_rewritten"]}
    except Exception as e:  # tie broken
        ctx.broken.append({"kind": "translator", "error": f"{type(e).__name__}: {e}"})
    try:
        from translate import env_ctor
        ec = env_ctor.run()
        reads = []

        def walk(e):
            if e[0] == "loaderAttr":
                reads.append((e[1], e[2]))
            for x in e[1:]:
                if isinstance(x, tuple):
                    walk(x)
        for st in ec["ctor_steps"]:
            if st[0] == "setAllow":
                walk(st[1])
        ctx.extra["allow_flag_loader_attributes_read"] = sorted(set(reads))
        inputs = []
        for a in ec["assignments"]:
            env_ctor.expr_inputs(a["expr"], inputs)
        ctx.extra["translator_env_ctor"] = {"allow_assignments": [f"{a['file']}:{a['line']} {a['func']}" for a in ec["assignments"]],
                                            "allow_inputs": sorted(set(inputs)),
                                            "constructor_steps": [s_[0] for s_ in ec["ctor_steps"]], "rewritten": ec["_rewritten"]}
    except Exception as e:  # tie broken
        ctx.broken.append({"kind": "translator", "which": "env_ctor", "error": f"{type(e).__name__}: {e}"})
    drivers = ctx.prove(["C16"], exes=["resolve"])
    drv = drivers.get("resolve")

    phase("prove")
    import pydsdl
    import nunavut
    under_any, all_classes = walk_pydsdl()
    by_name = {c.__name__: c for c in all_classes}

    def ask(lines, timeout=1200):
        if drv is None:
            return [None] * len(lines)
        out = []
        for i in range(0, len(lines), 20000):
            out += drv.ask(lines[i:i + 20000], timeout=timeout)
        return out

    # ================================================================================================================
    # A. table and instance-test enumeration
    # ================================================================================================================
    index_of = {}
    if drv is not None:
        tab = drv.ask(["table", "tests"])
        rows = []
        for e in tab[0].split(";"):
            n, bs = e.split(":")
            rows.append((dec(n), [] if bs == "!" else [dec(b) for b in bs.split(",")]))
        real_rows = {c.__name__: [b.__name__ for b in c.__bases__ if b is not object] for c in all_classes}
        ctx.traces += 1
        if dict(rows) != real_rows or len(rows) != len(real_rows):
            ctx.disagree("table", "pydsdl class graph", sorted(rows), sorted(real_rows.items()))
        for i, (n, _) in enumerate(rows):
            if n in by_name:
                index_of[by_name[n]] = i
        model_tests = {}
        if tab[1] != "fuel":
            for e in tab[1].split(";"):
                a, b = e.split("=")
                model_tests.setdefault(dec(a), set()).add(dec(b))
    else:
        model_tests = None
        for i, c in enumerate(all_classes):
            index_of[c] = i
    from nunavut.jinja import DSDLCodeGenerator
    code_tests = DSDLCodeGenerator._create_all_dsdl_tests()

    def bound_class(fn):
        cl = [c.cell_contents for c in (fn.__closure__ or ()) if isinstance(c.cell_contents, type)]
        return cl[0] if len(cl) == 1 else None

    impl_tests = {k: {getattr(bound_class(f), "__name__", "?")} for k, f in code_tests.items()}
    if model_tests is not None:
        ctx.traces += 1
        if model_tests != impl_tests:
            ctx.disagree("tests", "_create_all_dsdl_tests()", sorted((k, sorted(v)) for k, v in model_tests.items()),
                         sorted((k, sorted(v)) for k, v in impl_tests.items()))
    # property: every PyDSDL type class (and what else the code enumerates) has its name and alias, unambiguous
    type_classes = [c for c in under_any if issubclass(c, pydsdl.SerializableType)]
    attr_classes = [c for c in under_any if issubclass(c, pydsdl.Attribute)]
    want = {}
    # ... and whatever else the code registers instance tests for (e.g. expression-value classes): every class a test is
    # bound to claims its name and its alias; no name may be claimed by two classes
    also = sorted({bound_class(f) for f in code_tests.values() if bound_class(f) is not None} - set(type_classes) - set(attr_classes),
                  key=lambda c: c.__name__)
    for c in type_classes + attr_classes + also:
        for nm in (c.__name__, oracle_alias(c.__name__)):
            want.setdefault(nm, set()).add(c.__name__)
    ctx.count("other_classes_with_instance_tests", len(also))
    for nm, cls_names in sorted(want.items()):
        ctx.case(("testname", nm), True)
        if len(cls_names) > 1:
            ctx.fail({"kind": "instance-test-name-ambiguous"}, f"test name {nm!r} stands for several classes", {"name": nm, "classes": sorted(cls_names)})
        elif nm not in code_tests:
            ctx.fail({"kind": "instance-test-missing"}, f"no instance test {nm!r}", {"name": nm, "class": sorted(cls_names)})
        elif impl_tests[nm] != cls_names:
            ctx.fail({"kind": "instance-test-wrong-class"}, f"instance test {nm!r} is bound to {impl_tests[nm]}", {"name": nm, "class": sorted(cls_names)})
    ctx.count("type_classes", len(type_classes))
    ctx.count("attribute_classes", len(attr_classes))

    phase("A")
    # ================================================================================================================
    # B. alias rule and suffix/stem on arbitrary names
    # ================================================================================================================
    alias_names = ["Type", "type", "XType", "Field", "AField", "field", "TYPE", "FIELD", "typeType", "FieldType", "TypeField", "x",
                   "Typ", "aType_", "Fieldtype", "T", "StructureTyp", "Mytype", "A1Type", "fieldfield", "__Type", "typefield"]
    pool = "TYPEFILDtypefildXx_9"
    for _ in range(150 if ctx.quick else 2000):
        alias_names.append("".join(rng.choice(pool) for _ in range(rng.randint(1, 10))))
    alias_names = [n for n in dict.fromkeys(alias_names) if n.isidentifier()]
    m_alias = ask(["alias " + enc(n) for n in alias_names])
    for n, m in zip(alias_names, m_alias):
        dyn = type(n, (), {})
        keys = set(DSDLCodeGenerator._create_instance_tests_for_type(dyn))
        del dyn
        impl_alias = (keys - {n}).pop() if len(keys) == 2 else n
        ctx.case(("alias", n), n.lower().endswith(("type", "field")))
        if m is not None:
            ctx.traces += 1
            if dec(m) != impl_alias:
                ctx.disagree("alias", n, dec(m), impl_alias)
    gc.collect()
    from nunavut.jinja.loaders import DSDLTemplateLoader
    split_names = ["X.j2", ".j2", "X.tar.j2", "X.j2.bak", "X.", "X..j2", "sub/X.j2", "X.J2", ".X.j2", "a.b/c", "a/.j2", "a.j2/b", "j2", "X.j2.j2",
                   "..j2", "a/b/c.d.j2", "x.j22", "x.j"]
    for _ in range(150 if ctx.quick else 3000):
        split_names.append("".join(rng.choice("ab.j2/") for _ in range(rng.randint(1, 9))))
    split_names = [n for n in dict.fromkeys(split_names) if not n.endswith("/") and "//" not in n and not n.startswith("/")
                   and all(part not in ("", ".", "..") for part in n.split("/"))]
    m_split = ask(["split " + enc(n) for n in split_names])
    for n, m in zip(split_names, m_split):
        kept = DSDLTemplateLoader._filter_template_list_by_suffix([n])
        impl = (pathlib.Path(n).stem, pathlib.Path(n).suffix)
        ctx.case(("split", n), "." in n)
        if m is not None:
            ctx.traces += 1
            ms, mx = m.split("|")
            if (dec(ms), dec(mx)) != impl or (dec(mx) == SUFFIX) != bool(kept):
                ctx.disagree("split", n, (dec(ms), dec(mx)), {"stem_suffix": impl, "kept": bool(kept)})

    phase("B")
    # ================================================================================================================
    # C. type_to_template on the PyDSDL classes
    # ================================================================================================================
    from nunavut.jinja.jinja2 import Environment
    jenv = Environment()
    names = lambda c: c.__name__  # noqa: E731
    srcs = [Sources(ctx, 0), Sources(ctx, 1)]
    for s in srcs:
        for user in (True, False):
            for d in ("StructureType.txt", "structuretype.j2", "CompositeType.j2.bak", "Any.J2", "readme.md", "deep/er/notaclass.j2"):
                s.add_decoy(user, d)
    lookup_cases = []   # (LookupCase, kind, extra), flushed to the model in batches
    cold_cache = {}
    nseq = [0]

    def flush_lookups(cases):
        """Model side: the same look-up sequences through the driver; results and final cache must agree."""
        answers = ask([lc.line for lc in cases])
        for lc, a in zip(cases, answers):
            if a is None:
                continue
            ctx.traces += 1
            m = parse_seq_answer(a)
            if isinstance(m, str) or m[0] != lc.impl or m[1] != lc.cache:
                ctx.disagree("type_to_template", {"mode": lc.mode, "fs": lc.fs, "pkg": lc.pk, "lookups": [getattr(c, "__name__", "?") for c in lc.classes],
                                                  "request": lc.line if len(lc.line) < 600 else lc.line[:600] + "..."},
                             m if isinstance(m, str) else {"results": m[0], "cache": sorted(m[1].items())},
                             {"results": lc.impl, "cache": sorted(lc.cache.items())})
        nseq[0] += len(cases)

    def maybe_flush():
        if len(lookup_cases) >= 20000:
            if not ctx.samples:
                ctx.sample({"stream": "lookup", **describe(lookup_cases[len(lookup_cases) // 2][0], names)})
            flush_lookups([lc for lc, _, _ in lookup_cases])
            lookup_cases.clear()
            cold_cache.clear()

    def one_config(src, target, all_for_warm, want_modes, fixed_warm=None):
        """All look-ups for the current directory state and one target class."""
        key_state = (src.layout, tuple(sorted(src.user)), tuple(sorted(src.builtin)))
        for mode in want_modes:
            lc, ld = lookup_case(src, mode, [target], index_of)
            lookup_cases.append((lc, "cold", None))
            cold_cache[(key_state, mode, target)] = lc.impl[0]
            # property: nearest class, precedence of the user's template
            exp = expected_resolution(target, lc.user, lc.builtin)
            got = lc.impl[0]
            got_stem = None if got is None else pathlib.PurePosixPath(got).stem
            nontrivial = bool(lc.user or lc.builtin)
            ctx.case(("lookup", key_state, mode, target.__name__), nontrivial)
            ctx.count("mode=" + mode)
            if exp is None:
                ctx.count("expect-none")
            else:
                ctx.count("expect-" + exp[1] + ("-self" if exp[0] == target.__name__ else "-ancestor"))
            if (exp[0] if exp else None) != got_stem:
                past_any = got_stem is not None and got_stem in by_name and got_stem not in [c.__name__ for c in chain_to_any(target)]
                if got_stem is not None and got_stem not in by_name:
                    ctx.fail({"kind": "stray-file-taken-as-template"},
                             f"{target.__name__} resolved to {got}, whose stem {got_stem!r} (name minus the last suffix) is not the name of any class",
                             {"stream": "lookup", **describe(lc, names), "expected": exp})
                elif past_any:
                    ctx.fail({"kind": "chain-passes-any", "stem": got_stem},
                             f"{target.__name__} resolved to {got}: a class beyond pydsdl.Any in __bases__ (the chain of the property ends at Any)",
                             {"stream": "lookup", **describe(lc, names), "expected": exp})
                else:
                    ctx.fail({"kind": "not-nearest-class"},
                             f"{target.__name__} resolved to {got}, the nearest class of its chain with a template is {exp}",
                             {"stream": "lookup", **describe(lc, names), "expected": exp})
            elif exp is not None:
                org = origin_of(ld, jenv, got)
                if org != exp[1]:
                    ctx.fail({"kind": "wrong-source-for-name"},
                             f"{target.__name__} -> {got} is loaded from the {org} set, expected {exp[1]}",
                             {"stream": "lookup", **describe(lc, names), "expected": exp, "origin": org})
        # warm: the same target after earlier look-ups on the same loader object
        mode = want_modes[0]
        warm = fixed_warm if fixed_warm else [rng.choice(all_for_warm) for _ in range(rng.randint(1, 4))]
        lc, ld = lookup_case(src, mode, warm + [target], index_of)
        lookup_cases.append((lc, "warm", None))
        ctx.case(("lookup-warm", key_state, mode, tuple(c.__name__ for c in warm), target.__name__), bool(lc.user or lc.builtin))
        ctx.count("warm-sequences")
        cold = cold_cache[(key_state, mode, target)]
        if lc.impl[-1] != cold:
            ctx.fail({"kind": "lookup-depends-on-earlier-lookups"},
                     f"{target.__name__} resolves to {cold} on a fresh loader and to {lc.impl[-1]} after looking up {[c.__name__ for c in warm]}",
                     {"stream": "lookup", **describe(lc, names), "cold_result": cold})

    # corpus first
    corpus_dir = common.VERIF / "corpus" / "C16"
    corpus = []
    if corpus_dir.exists():
        for f in sorted(corpus_dir.glob("*.json")):
            corpus += json.loads(f.read_text())
    ncorpus = 0
    for c in corpus:
        if c.get("stream") != "lookup":
            continue
        if any(n not in by_name for n in c["user"] + c["builtin"] + c["warm"] + [c["query"]]):
            continue
        ncorpus += 1
        src = srcs[c.get("layout", 0)]
        src.clear()
        for n in set(c["user"]) | set(c["builtin"]):
            src.set(n, (USER if n in c["user"] else 0) | (BUILTIN if n in c["builtin"] else 0))
        target = by_name[c["query"]]
        one_config(src, target, [target], [c.get("mode", "both")], fixed_warm=[by_name[n] for n in c["warm"]])
    # exhaustive over the nearest K classes of each chain
    K = 4 if ctx.quick else 7
    table_classes = sorted(index_of, key=lambda c: index_of[c])
    nconf = 0
    for ci, target in enumerate(table_classes):
        src = srcs[ci % 2]
        src.clear()
        full_chain = []
        c = target
        while True:
            full_chain.append(c)
            bs = [b for b in c.__bases__ if b is not object]
            if not bs:
                break
            c = bs[0]
        near, far = full_chain[:K], full_chain[K:]
        src.set_strays(rng, [c.__name__ for c in full_chain])
        relatives = list(dict.fromkeys(full_chain + [d for a in full_chain for d in a.__subclasses__() if d in index_of]))
        for k, assign in enumerate(itertools.product((NONE, USER, BUILTIN, BOTH), repeat=len(near))):
            for cl in far:
                src.set(cl.__name__, rng.choice((NONE, NONE, USER, BUILTIN, BOTH)))
            for cl, st in zip(near, assign):
                src.set(cl.__name__, st)
            modes = ["both"]
            if k % 4 == 0:
                modes += [rng.choice(["fs", "pkg", "first"])]
            one_config(src, target, relatives, modes)
            nconf += 1
            maybe_flush()
    # random: global assignments over all classes, both layouts, longer warm-ups
    nrand = 1500 if ctx.quick else 6000
    for it in range(nrand):
        src = rng.choice(srcs)
        if it % 25 == 0:
            src.set_strays(rng, [c.__name__ for c in table_classes], density=0.3)
        dens = rng.choice([0.1, 0.3, 0.6])
        for cl in table_classes:
            src.set(cl.__name__, rng.choice((USER, BUILTIN, BOTH)) if rng.random() < dens else NONE)
        target = rng.choice(table_classes)
        one_config(src, target, table_classes, [rng.choice(["both", "both", "fs", "pkg", "first"])])
        nconf += 1
    if lookup_cases and not ctx.samples:
        ctx.sample({"stream": "lookup", **describe(lookup_cases[len(lookup_cases) // 2][0], names)})
    flush_lookups([lc for lc, _, _ in lookup_cases])
    lookup_cases.clear()
    ctx.extra["lookup_domain"] = {"corpus": ncorpus, "configurations": nconf, "lookup_sequences": nseq[0],
                                  "classes": len(table_classes), "K": K}
    # listing sanity (harness bookkeeping == what Jinja lists), on the final state
    for s in srcs:
        ld = s.loader("both")
        if sorted(ld._fsloader.list_templates()) != s.listing(True) or sorted(ld._package_loader.list_templates()) != s.listing(False):
            raise RuntimeError("harness bookkeeping of the scratch directories differs from the loaders' listings")
    # enumeration order (implementation only): the search over the same names in another order
    for _ in range(200 if ctx.quick else 2000):
        src = rng.choice(srcs)
        target = rng.choice(table_classes)
        files = [f for f in src.listing(True) + src.listing(False) if f.endswith(SUFFIX)]
        d1 = {pathlib.Path(x).stem: pathlib.Path(x) for x in files}
        if len(d1) != len(files):
            files = list({pathlib.Path(x).stem: x for x in files}.values())
        sh = files[:]
        rng.shuffle(sh)
        a = src.loader("fs")._type_to_template_internal(target, {pathlib.Path(x).stem: pathlib.Path(x) for x in files})
        b = src.loader("fs")._type_to_template_internal(target, {pathlib.Path(x).stem: pathlib.Path(x) for x in sh})
        ctx.case(("order", tuple(sh), target.__name__), True)
        if a != b:
            ctx.fail({"kind": "enumeration-order-dependence"}, "result depends on the order templates are listed in",
                     {"stream": "order", "files": files, "shuffled": sh, "query": target.__name__, "a": str(a), "b": str(b)})

    phase("C")
    msets = run_multidir_stream(ctx, ask, table_classes, index_of, by_name, jenv, corpus)
    phase("C2")
    # ================================================================================================================
    # D. synthetic hierarchies: the loop itself (multiple inheritance, shared names, duplicate stems)
    # ================================================================================================================
    syn_cases = []
    nsyn = 250 if ctx.quick else 3000
    syn_src = Sources(ctx, 0)
    for it in range(nsyn):
        n = rng.randint(1, 6)
        nm_pool = ["K%d" % i for i in range(n)]
        clss, spec_rows = [], []
        for i in range(n):
            nm = rng.choice(nm_pool[: i + 1]) if rng.random() < 0.15 else nm_pool[i]
            nb = 0 if i == 0 else rng.choice([0, 1, 1, 1, 2, 3])
            bases = []
            if nb:
                cand = list(range(i))
                rng.shuffle(cand)
                chosen = sorted(cand[:nb], reverse=True)  # more derived first keeps the MRO consistent most of the time
                rng.random() < 0.3 and rng.shuffle(chosen)
                bases = chosen
            try:
                k = type(nm, tuple(clss[b] for b in bases), {})
            except TypeError:  # inconsistent MRO
                bases = bases[:1]
                k = type(nm, tuple(clss[b] for b in bases), {})
            clss.append(k)
            spec_rows.append((nm, bases))
        idx = {k: i for i, k in enumerate(clss)}
        hier = ";".join(enc(nm) + ":" + (",".join(map(str, bs)) if bs else "!") for nm, bs in spec_rows)
        # files: flat names, sometimes the same stem in two directories
        shutil.rmtree(syn_src.usr)
        syn_src.usr.mkdir()
        shutil.rmtree(syn_src.tpl)
        syn_src.tpl.mkdir()
        (syn_src.tpl / "__init__.py").write_text("")
        syn_src.user, syn_src.builtin, syn_src.extra_user, syn_src.extra_builtin = {}, {}, [], ["__init__.py"]
        for nm in set(nm_pool):
            r = rng.random()
            if r < 0.35:
                syn_src.set(nm, rng.choice((USER, BUILTIN, BOTH)))
            if rng.random() < 0.1:
                syn_src.add_decoy(rng.random() < 0.5, rng.choice(["a/", "z/"]) + nm + SUFFIX)
        qs = [rng.choice(clss) for _ in range(rng.randint(1, 4))]
        lc, _ = lookup_case(syn_src, rng.choice(["both", "both", "fs", "pkg"]), qs, idx, hier=hier)
        syn_cases.append(lc)
        ctx.case(("syn", hier, tuple(lc.fs or ()), tuple(lc.pk or ()), tuple(idx[q] for q in qs)), bool(lc.fs or lc.pk))
        ctx.count("synthetic-multiple-inheritance" if any(len(b) > 1 for _, b in spec_rows) else "synthetic-single-inheritance")
    del clss
    gc.collect()

    # ---- model side of D ----------------------------------------------------------------------------------------------
    flush_lookups(syn_cases)

    phase("D")
    # ================================================================================================================
    # E. get_source
    # ================================================================================================================
    from nunavut.jinja.jinja2 import TemplateNotFound
    e_root = ctx.scratch / "gs"
    e_dirs = [e_root / "u1", e_root / "u2"]
    e_pkg = Sources(ctx, 0)
    tnames = ["A.j2", "sub/C.j2", "link/L.j2", "D.txt"]   # `link` is a symbolic link in the user directories (followlinks off)

    def spellings(t, legal):
        if legal:
            return list(dict.fromkeys([t, "./" + t, "/" + t, t + "/", "./" + t.replace("/", "/./"), t.replace("/", "//"), ".//" + t, "/./" + t]))
        return ["../" + t, "sub/../" + t, "x/../" + t, t + "/.."]

    def oracle_canonical(name):
        pieces = name.split("/")
        return None if ".." in pieces else "/".join(x for x in pieces if x not in ("", "."))

    src_lines, src_impl = [], []
    for k, assign in enumerate(itertools.product(range(8), repeat=len(tnames))):
        if ctx.quick and k % 11 and rng.random() < 0.95:
            continue
        shutil.rmtree(e_root, ignore_errors=True)
        for d in e_dirs:
            d.mkdir(parents=True)
        for f in sorted(e_pkg.tpl.rglob("*"), reverse=True):
            if f.is_file() and f.name != "__init__.py":
                f.unlink()
        stores = [[], [], []]
        for t, bits in zip(tnames, assign):
            for j, base in enumerate(e_dirs + [e_pkg.tpl]):
                if bits >> j & 1:
                    if j < 2 and t.startswith("link/"):
                        side = e_root / f"side{j}"
                        side.mkdir(exist_ok=True)
                        (side / t.split("/", 1)[1]).write_text(f"USR {j}")
                        if not (base / "link").exists():
                            os.symlink(side, base / "link", target_is_directory=True)
                    else:
                        p = base / t
                        p.parent.mkdir(parents=True, exist_ok=True)
                        p.write_text(f"{'USR' if j < 2 else 'PKG'} {j}")
                    stores[j].append((t, j))
        for cfg in ("both", "fs", "pkg"):
            ld = DSDLTemplateLoader(templates_dirs=e_dirs if cfg != "pkg" else None,
                                    package_name_for_templates=e_pkg.pkgname if cfg != "fs" else None)
            requests = []
            for t in tnames + ["missing.j2"]:
                legal = spellings(t, True)
                requests += [t] + (legal[1:] if not ctx.quick else rng.sample(legal[1:], 2)) + \
                    (spellings(t, False) if not ctx.quick else [rng.choice(spellings(t, False))])
            for t in requests:
                try:
                    s = ld.get_source(jenv, t)[0]
                    impl = ("user:" if s.startswith("USR") else "builtin:") + s.split()[1]
                except TemplateNotFound:
                    impl = "notfound"
                store = lambda xs: ",".join(enc(n) + "=" + str(v) for n, v in xs) if xs else "~"  # noqa: E731
                fs = "!" if cfg == "pkg" else store(stores[0]) + ";" + store(stores[1])
                pk = "!" if cfg == "fs" else store(stores[2])
                src_lines.append(f"src {fs} {pk} {enc(t)}")
                src_impl.append(impl)
                canon = oracle_canonical(t)
                in_user = cfg != "pkg" and canon is not None and any(canon == n for n, _ in stores[0] + stores[1])
                ctx.case(("src", assign, cfg, t), in_user or any(canon == n for n, _ in stores[2]))
                ctx.count("get_source-" + ("refused-spelling" if canon is None else "canonical" if canon == t else "other-spelling"))
                rp = {"stream": "get_source", "config": cfg, "request": t, "result": impl,
                      "user_dirs": [[n for n, _ in stores[0]], [n for n, _ in stores[1]]], "package": [n for n, _ in stores[2]]}
                if in_user and not impl.startswith("user:"):
                    ctx.fail({"kind": "builtin-shadows-user-source"}, f"get_source({t!r}) returned {impl} although a user directory has {canon!r}", rp)
                if in_user and impl.startswith("user:"):
                    first = 0 if any(canon == n for n, _ in stores[0]) else 1
                    if impl != f"user:{first}":
                        ctx.fail({"kind": "user-directory-order"}, "get_source does not take the first user directory that has the name", rp)
                if canon is None and impl != "notfound":
                    ctx.fail({"kind": "parent-directory-request-served"}, f"get_source({t!r}) served a name with a '..' piece", rp)
    for ln, impl, m in zip(src_lines, src_impl, ask(src_lines)):
        if m is not None:
            ctx.traces += 1
            if m != impl:
                ctx.disagree("get_source", ln, m, impl)
    ctx.extra["get_source_cases"] = len(src_lines)

    phase("E")
    # ================================================================================================================
    # F. instance tests on parsed objects
    # ================================================================================================================
    ns_dir = ctx.scratch / "dsdl" / "vt"
    ns_dir.mkdir(parents=True)
    w = lambda lo, hi: rng.randint(lo, hi)  # noqa: E731
    (ns_dir / "D.1.0.dsdl").write_text(f"uint{w(1, 64)} x\n@extent {8 * w(8, 20)}\n")
    (ns_dir / "U.1.0.dsdl").write_text(f"@union\nuint{w(1, 64)} a\nint{w(2, 64)}[<={w(1, 9)}] b\nfloat{rng.choice([16, 32, 64])} c\n@sealed\n")
    (ns_dir / "E.1.0.dsdl").write_text("@sealed\n")
    (ns_dir / "S.1.0.dsdl").write_text(
        f"bool b\nint{w(2, 64)} i\nuint{w(1, 64)} u\nfloat{rng.choice([16, 32, 64])} f\nvoid{w(1, 64)}\n"
        f"uint{w(1, 64)}[{w(1, 9)}] fa\nint{w(2, 64)}[<={w(1, 9)}] va\nbyte[<={w(1, 9)}] by\nutf8[<={w(1, 9)}] s\nbool[{w(1, 9)}] ba\n"
        f"U.1.0 un\nD.1.0 de\nD.1.0[{w(1, 4)}] dea\nU.1.0[<={w(1, 4)}] una\nE.1.0 e\n"
        f"uint8 C1 = {w(0, 255)}\nfloat32 C2 = 1.5\nbool C3 = true\nint{w(8, 64)} C4 = -{w(0, 100)}\n@sealed\n")
    (ns_dir / "Svc.1.0.dsdl").write_text(f"uint{w(1, 64)} q\n@sealed\n---\nuint{w(1, 64)} r\nvoid{w(1, 8)}\n@extent {8 * w(8, 20)}\n")
    (ns_dir / "DU.1.0.dsdl").write_text(f"@union\nuint{w(1, 64)} a\nD.1.0 d\n@extent {8 * w(20, 40)}\n")
    types = pydsdl.read_namespace(str(ns_dir), [])
    from nunavut.lang import LanguageContextBuilder
    lctx = LanguageContextBuilder(include_experimental_languages=True).set_target_language(rng.choice(["c", "cpp", "py", "html"])).create()
    root_ns = nunavut.build_namespace_tree(types, str(ns_dir), str(ctx.scratch / "out"), lctx)
    generator = DSDLCodeGenerator(root_ns)
    env_tests = generator._env.tests
    values = []

    def add_value(v):
        if any(v is x for x in values):
            return
        values.append(v)
        if isinstance(v, pydsdl.Attribute):
            add_value(v.data_type)
        if isinstance(v, pydsdl.ArrayType):
            add_value(v.element_type)
        if isinstance(v, pydsdl.CompositeType):
            for a in v.attributes:
                add_value(a)
        if isinstance(v, pydsdl.DelimitedType):
            add_value(v.inner_type)
        if isinstance(v, pydsdl.ServiceType):
            add_value(v.request_type)
            add_value(v.response_type)
        if isinstance(v, pydsdl.UnionType):
            add_value(v.tag_field_type)

    for t in types:
        add_value(t)
    values += [5, None, "x", root_ns]
    value_classes = sorted({type(v).__name__ for v in values})
    ctx.extra["instance_values"] = {"objects": len(values), "classes": value_classes}
    missing_cls = [c.__name__ for c in type_classes + attr_classes
                   if not c.__subclasses__() and not any(type(v) is c for v in values)]
    if missing_cls:
        raise RuntimeError(f"generated namespace has no object of classes {missing_cls}")
    test_names = sorted(set(code_tests) | {"NoSuchType", "any", "Any", "namespace"})
    f_lines, f_impl, f_meta = [], [], []
    for v in values:
        vc = type(v).__name__
        dt = type(v.data_type).__name__ if isinstance(v, pydsdl.Attribute) else None
        for tn in test_names:
            if tn in env_tests and tn in code_tests:
                impl = "1" if env_tests[tn](v) else "0"
            elif tn in code_tests:
                impl = "err:notest"  # enumerated by the code but not installed in the environment
            else:
                impl = "err:notest"
            f_lines.append(f"istest {enc(tn)} {enc(vc)} {enc(dt) if dt else '!'}")
            f_impl.append(impl)
            f_meta.append((tn, vc, dt))
            ctx.case(("istest", tn, vc, dt), impl == "1")
    # property: for every type class C, tests C and alias(C) == membership of the value / of the attribute's data type
    for c in type_classes + attr_classes:
        for nm in (c.__name__, oracle_alias(c.__name__)):
            fn = env_tests.get(nm)
            if fn is None:
                ctx.fail({"kind": "instance-test-not-in-environment"}, f"env.tests has no {nm!r}", {"stream": "tests", "name": nm})
                continue
            for v in values:
                subject = v.data_type if isinstance(v, pydsdl.Attribute) else v
                exp = isinstance(subject, c)
                got = bool(fn(v))
                if got != exp:
                    ctx.fail({"kind": "instance-test-value", "test": nm},
                             f"test {nm!r} on {type(v).__name__} (data type {type(subject).__name__}) is {got}",
                             {"stream": "tests", "name": nm, "value_class": type(v).__name__, "subject_class": type(subject).__name__, "expected": exp})
                if c in attr_classes and isinstance(v, c):
                    ctx.count("attribute-class-test-false-on-own-instance" if not got else "attribute-class-test-true-on-own-instance")
    for ln, impl, meta, m in zip(f_lines, f_impl, f_meta, ask(f_lines)):
        if m is not None:
            ctx.traces += 1
            if m != impl:
                ctx.disagree("instance-test", {"test": meta[0], "value_class": meta[1], "data_type_class": meta[2]}, m, impl)
    ctx.sample({"stream": "tests", "test": "padding", "on": "PaddingField",
                "value": bool(env_tests["padding"](next(v for v in values if isinstance(v, pydsdl.PaddingField)))) if "padding" in env_tests else None})

    # ---- F3. histories of tests on SHORT-LIVED objects in the one environment: create, test, drop, create an object of
    # another class (CPython hands out the freed address again), test.  The tests must be a function of the value alone.
    import copy
    CM = pydsdl.PrimitiveType.CastMode
    pyd = [v for v in values if isinstance(v, pydsdl.Any) and type(v).__name__ in by_name and v is not root_ns]
    makers = [lambda: pydsdl.UnsignedIntegerType(rng.randint(1, 64), CM.TRUNCATED), lambda: pydsdl.SignedIntegerType(rng.randint(2, 64), CM.SATURATED),
              lambda: pydsdl.FloatType(rng.choice([16, 32, 64]), CM.SATURATED), lambda: pydsdl.BooleanType(), lambda: pydsdl.VoidType(rng.randint(1, 64)),
              lambda: pydsdl.ByteType(), lambda: pydsdl.UTF8Type(),
              lambda: pydsdl.FixedLengthArrayType(pydsdl.UnsignedIntegerType(8, CM.TRUNCATED), rng.randint(1, 9)),
              lambda: pydsdl.VariableLengthArrayType(pydsdl.SignedIntegerType(8, CM.SATURATED), rng.randint(1, 9)),
              lambda: pydsdl.Field(pydsdl.UnsignedIntegerType(8, CM.TRUNCATED), "x"), lambda: pydsdl.Field(pydsdl.FloatType(32, CM.SATURATED), "y"),
              lambda: pydsdl.PaddingField(pydsdl.VoidType(rng.randint(1, 64)))] + [lambda: copy.copy(rng.choice(pyd))] * 8
    instance_test_names = sorted(code_tests)
    f3_seen, f3_reuse, last = {}, 0, None
    n_short = 4000 if ctx.quick else 40000
    for it in range(n_short):
        try:
            obj = rng.choice(makers)()
        except Exception:  # a constructor signature of another PyDSDL version
            obj = copy.copy(rng.choice(pyd))
        if last is not None and last[0] == id(obj) and last[1] is not type(obj):
            f3_reuse += 1
        last = (id(obj), type(obj))
        subject = obj.data_type if isinstance(obj, pydsdl.Attribute) else obj
        asked = instance_test_names if it % 4 == 0 else rng.sample(instance_test_names, 6)
        for tn in asked:
            if tn not in env_tests:
                continue
            got = bool(env_tests[tn](obj))
            exp = isinstance(subject, bound_class(code_tests[tn]))
            f3_seen.setdefault((tn, type(obj).__name__, type(subject).__name__ if subject is not obj else None), set()).add(got)
            if got != exp:
                ctx.fail({"kind": "instance-test-depends-on-history"},
                         f"after {it} earlier short-lived objects, test {tn!r} on a fresh {type(obj).__name__} (subject {type(subject).__name__}) is {got}; "
                         f"class membership says {exp}",
                         {"stream": "tests-short-lived", "iteration": it, "name": tn, "value_class": type(obj).__name__,
                          "subject_class": type(subject).__name__, "expected": exp, "seed": ctx.seed, "tier": ctx.tier})
        ctx.case(("short-lived", it, type(obj).__name__), True)
        del obj, subject
    ctx.count("short-lived-objects", n_short)
    ctx.count("short-lived-address-reused-by-another-class", f3_reuse)
    f3_keys = sorted(f3_seen, key=lambda k: (k[0], k[1], k[2] or ""))
    for key, m in zip(f3_keys, ask([f"istest {enc(k[0])} {enc(k[1])} {enc(k[2]) if k[2] else '!'}" for k in f3_keys])):
        if m is None:
            continue
        ctx.traces += 1
        impl = {"1" if g else "0" for g in f3_seen[key]}
        if impl != {m}:
            ctx.disagree("instance-test-history", {"test": key[0], "value_class": key[1], "data_type_class": key[2]}, m, sorted(impl))

    # ---- F2. the product path: DSDLCodeGenerator.filter_type_to_template(value) on the parsed objects ------------------
    f2_lines, f2_impl, f2_meta = [], [], []
    for variant in ["builtin"] + ["userdir"] * (6 if ctx.quick else 40) + ["userdirs"] * (8 if ctx.quick else 60):
        if variant == "userdir":
            src = srcs[0]
            for cl in table_classes:
                src.set(cl.__name__, rng.choice((USER, BUILTIN, BOTH)) if rng.random() < 0.3 else NONE)
            g = DSDLCodeGenerator(root_ns, templates_dir=src.usr, followlinks=rng.random() < 0.5)
        elif variant == "userdirs":
            # templates_dir=[common, specific, ...]: class templates spread over 2-3 directories
            ms = msets[rng.choice((2, 3))]
            for cl in table_classes:
                if issubclass(cl, pydsdl.Any):
                    ms.set(cl.__name__, frozenset(rng.sample(range(len(ms.dirs)), rng.randint(1, len(ms.dirs)))) if rng.random() < 0.3 else frozenset())
            g = DSDLCodeGenerator(root_ns, templates_dir=list(ms.dirs), followlinks=rng.random() < 0.5)
        else:
            g = generator
        ld = g.dsdl_loader
        fs = sorted(ld._fsloader.list_templates()) if ld._fsloader is not None else None
        pk = sorted(ld._package_loader.list_templates()) if ld._package_loader is not None else None
        seq = [v for v in values if type(v) in index_of]
        rng.shuffle(seq)
        seq = seq[: 40]
        impl = []
        for v in seq:
            try:
                impl.append(g.filter_type_to_template(v))
            except RuntimeError:
                impl.append(None)
        f2_lines.append("seq new @ " + opt_files(fs) + " " + opt_files(pk) + " " + ",".join(str(index_of[type(v)]) for v in seq))
        f2_impl.append(impl)
        f2_meta.append({"variant": variant, "fs": fs, "pkg": None if pk is None else [x for x in pk if x.endswith(SUFFIX)], "objects": [type(v).__name__ for v in seq]})
        ustems = {pathlib.PurePosixPath(x).stem for x in (fs or []) if x.endswith(SUFFIX)}
        if variant == "userdirs":
            ustems = ms.user_stems()   # from the harness' own bookkeeping of ALL directories, not from the loader's listing
        if variant == "userdir":
            ustems = {pathlib.PurePosixPath(x).stem for x in src.listing(True) if x.endswith(SUFFIX)}
        bstems = {pathlib.PurePosixPath(x).stem for x in (pk or []) if x.endswith(SUFFIX)}
        if variant == "userdirs":
            f2_lines[-1] = "seqd @ " + dirs_field([ms.listing(i) for i in range(len(ms.dirs))]) + " " + opt_files(pk) + " " + ",".join(str(index_of[type(v)]) for v in seq)
        if variant in ("userdir", "userdirs") and pk is not None:
            ctx.fail({"kind": "generator-uses-both-sources"}, "DSDLCodeGenerator with a templates directory still searches the package", {"stream": "generator"})
        for v, got in zip(seq, impl):
            exp = expected_resolution(type(v), ustems, bstems)
            ctx.case(("filter_type_to_template", variant, tuple(sorted(ustems)) if variant != "builtin" else lctx.get_target_language().name, type(v).__name__), exp is not None)
            ctx.count("generator-" + variant)
            if (None if exp is None else exp[0] + SUFFIX) != got:
                beyond = got is not None and pathlib.PurePosixPath(got).stem in by_name and \
                    pathlib.PurePosixPath(got).stem not in [c.__name__ for c in chain_to_any(type(v))]
                ctx.fail({"kind": "chain-passes-any", "stem": pathlib.PurePosixPath(got).stem} if beyond else
                         {"kind": "stray-file-taken-as-template"} if got is not None and pathlib.PurePosixPath(got).stem not in by_name else
                         {"kind": "not-nearest-class", "via": "filter_type_to_template", **({"user_directories": len(ms.dirs)} if variant == "userdirs" else {})},
                         f"filter_type_to_template({type(v).__name__} object) gave {got}, nearest class with a template is {exp}",
                         {"stream": "generator", "variant": variant, "user_stems": sorted(ustems), "builtin_stems": sorted(bstems), "object": type(v).__name__, "result": got})
    for ln, impl, meta, m in zip(f2_lines, f2_impl, f2_meta, ask(f2_lines)):
        if m is None:
            continue
        ctx.traces += 1
        pm = parse_seq_answer(m)
        model = pm if isinstance(pm, str) else [None if x is None else pathlib.PurePosixPath(x).name for x in pm[0]]
        if model != impl:
            ctx.disagree("filter_type_to_template", meta, model, impl)
    generation_stream(ctx, ask, types, ns_dir, index_of, by_name)
    phase("F")
    # ================================================================================================================
    # G. the environment
    # ================================================================================================================
    for lang in ("c", "cpp", "py", "html"):
        l_ctx = LanguageContextBuilder(include_experimental_languages=True).set_target_language(lang).create()
        l_ns = nunavut.build_namespace_tree(types, str(ns_dir), str(ctx.scratch / "out"), l_ctx)
        run_env_stream(ctx, ask, l_ns, l_ctx, corpus)
    phase("G")



# ======================================================================================================================
# F4. the product path end to end: which template RENDERS each generated type
# ======================================================================================================================
GEN_CLASSES = ["SerializableType", "CompositeType", "StructureType", "UnionType", "DelimitedType", "ServiceType"]


def generate_with_sentinels(ctx, types, ns_dir, present, tag, followlinks, lang="c"):
    """generate_all() over a user template set in which <Class>.j2 renders `SENTINEL <Class> <T.full_name>`.
    -> [(type object, class named by the template that rendered it | None)]"""
    import re
    import nunavut
    from nunavut.jinja import DSDLCodeGenerator
    from nunavut.lang import LanguageContextBuilder
    gdir = ctx.scratch / "gentpl"
    shutil.rmtree(gdir, ignore_errors=True)
    gdir.mkdir()
    for c in present:
        (gdir / (c + SUFFIX)).write_text("SENTINEL " + c + " {{ T.full_name }}\n")
    lctx = LanguageContextBuilder(include_experimental_languages=True).set_target_language(lang).create()
    ns = nunavut.build_namespace_tree(types, str(ns_dir), str(ctx.scratch / "genout" / tag), lctx)
    g = DSDLCodeGenerator(ns, templates_dir=gdir, followlinks=followlinks)
    g.generate_all()
    out = []
    for t, path in ns.get_all_datatypes():
        m = re.search(r"SENTINEL (\w+) (\S+)", pathlib.Path(path).read_text())
        out.append((t, m.group(1) if m and m.group(2) == t.full_name else None))
    return out


def generation_stream(ctx, ask, types, ns_dir, index_of, by_name):
    """Every subset of the composite-type class templates (Any.j2 always there) as the user's template set; every parsed type
    (sealed / delimited structure, sealed / delimited union, service) must be rendered by the template named after the nearest
    class of ITS OWN class's chain."""
    rng = ctx.rng
    lines, impls, metas = [], [], []
    subsets = [c for k in range(len(GEN_CLASSES) + 1) for c in itertools.combinations(GEN_CLASSES, k)]
    if ctx.quick:
        subsets = [sub for i, sub in enumerate(subsets) if "DelimitedType" in sub or i % 2 == 0]
    seen_classes = set()
    for k, sub in enumerate(subsets):
        present = ["Any"] + list(sub)
        lang = ("c", "py", "cpp", "html")[k % 4]
        rendered = generate_with_sentinels(ctx, types, ns_dir, present, str(k), followlinks=bool(k % 2), lang=lang)
        for t, got in rendered:
            cls = type(t)
            seen_classes.add(cls.__name__ + ("<" + type(t.inner_type).__name__ + ">" if cls.__name__ == "DelimitedType" else ""))
            exp = expected_resolution(cls, set(present), set())
            ctx.case(("generate", tuple(present), t.full_name), True)
            ctx.count("generated-" + cls.__name__)
            if got != (exp[0] if exp else None):
                ctx.fail({"kind": "generated-with-wrong-template", "class": cls.__name__},
                         f"{t.full_name} (a {cls.__name__}) was rendered by {got}.j2; the user's template set has {sorted(present)}, the nearest class of "
                         f"{cls.__name__}'s chain with a template is {exp[0] if exp else None}",
                         {"stream": "generate", "templates": present, "type": t.full_name, "class": cls.__name__, "rendered_by": got,
                          "expected": exp[0] if exp else None, "followlinks": bool(k % 2), "language": lang})
            if cls in index_of:
                lines.append("seq new @ " + enc_list(sorted(c + SUFFIX for c in present)) + " ! " + str(index_of[cls]))
                impls.append(got)
                metas.append({"templates": present, "type": t.full_name, "class": cls.__name__})
    need = {"StructureType", "UnionType", "ServiceType", "DelimitedType<StructureType>", "DelimitedType<UnionType>"}
    if not need <= seen_classes:
        raise RuntimeError(f"generation stream: the parsed namespace lacks {sorted(need - seen_classes)}")
    for ln, impl, meta, m in zip(lines, impls, metas, ask(lines)):
        if m is None:
            continue
        ctx.traces += 1
        pm = parse_seq_answer(m)
        model = pm if isinstance(pm, str) else (None if pm[0][0] is None else pathlib.PurePosixPath(pm[0][0]).stem)
        if model != impl:
            ctx.disagree("generate_all-template", meta, model, impl)
    ctx.extra["generation_stream"] = {"template_sets": len(subsets), "rendered_types": len(lines), "kinds_of_type": sorted(seen_classes)}


# ======================================================================================================================
# C2. loaders over a LIST of user template directories
# ======================================================================================================================
class MultiSources:
    """1-3 user template directories (in search-path order) and an importable scratch package."""

    def __init__(self, ctx, ndirs):
        self.pk = Sources(ctx, 0)                    # only its package part is used
        self.dirs = [self.pk.root / f"d{i}" for i in range(ndirs)]
        for d in self.dirs:
            d.mkdir(parents=True)
        self.user = [dict() for _ in self.dirs]      # per directory: stem -> relative name
        self.extra = [list() for _ in self.dirs]     # per directory: other files (relative names)

    @property
    def builtin(self):
        return self.pk.builtin

    def set(self, stem, where):
        """`where`: set of directory indices, plus 'p' for the package."""
        for i, d in enumerate(self.dirs):
            if i in where and stem not in self.user[i]:
                (d / (stem + SUFFIX)).write_text(f"USR {i} {stem}")
                self.user[i][stem] = stem + SUFFIX
            elif i not in where and stem in self.user[i]:
                (d / self.user[i].pop(stem)).unlink()
        self.pk.set(stem, BUILTIN if "p" in where else NONE)

    def add_file(self, i, rel):
        p = self.dirs[i] / rel
        p.parent.mkdir(parents=True, exist_ok=True)
        p.write_text(f"USR {i} extra")
        self.extra[i].append(rel)

    def drop_extras(self):
        for i, d in enumerate(self.dirs):
            for rel in self.extra[i]:
                (d / rel).unlink()
            self.extra[i] = []

    def clear(self):
        for i in range(len(self.dirs)):
            for stem in list(self.user[i]):
                (self.dirs[i] / self.user[i].pop(stem)).unlink()
        self.pk.clear()

    def listing(self, i):
        return sorted(list(self.user[i].values()) + self.extra[i])

    def user_stems(self):
        """Stems for which ANY user directory has a template file (root of the directory or below)."""
        out = set()
        for i in range(len(self.dirs)):
            out |= {pathlib.PurePosixPath(r).stem for r in self.listing(i) if pathlib.PurePosixPath(r).suffix == SUFFIX}
        return out

    def loader(self, mode):
        from nunavut.jinja.loaders import DSDLTemplateLoader
        from nunavut._utilities import ResourceSearchPolicy
        # mode: both | first | fs, optionally "+follow" (followlinks=True; no links in the directories, so nothing may change) and
        # "+alt" (builtin_template_path="alt": an empty template directory of the same package)
        base, *opts = mode.split("+")
        kw = {"followlinks": True} if "follow" in opts else {}
        if "alt" in opts:
            alt = self.pk.tpl.parent / "alt"
            alt.mkdir(exist_ok=True)
            (alt / "__init__.py").write_text("")
            kw["builtin_template_path"] = "alt"
        if base == "fs":
            return DSDLTemplateLoader(templates_dirs=list(self.dirs), package_name_for_templates=None, **kw)
        return DSDLTemplateLoader(templates_dirs=list(self.dirs), package_name_for_templates=self.pk.pkgname,
                                  search_policy=ResourceSearchPolicy.FIND_ALL if base == "both" else ResourceSearchPolicy.FIND_FIRST, **kw)

    def describe(self):
        return {"user_dirs": [self.listing(i) for i in range(len(self.dirs))], "builtin_templates": sorted(self.pk.builtin.values())}


def dirs_field(listings):
    return "!" if listings is None else ";".join(enc_list(x) for x in listings)


def multidir_case(ctx, ms, mode, seq, index_of, by_name, jenv, check_enum):
    """One real loader over the directory list: look-ups `seq`, oracle on the last of them, optional enumeration.
    Returns the model request lines with the implementation's answers."""
    ld = ms.loader(mode)
    has_pkg = ld._package_loader is not None
    res = run_lookups(ld, seq)
    cache = {index_of.get(c, -1): ("<None>" if p is None else p.as_posix()) for c, p in ld._type_to_template_lookup_cache.items()}
    listings = [ms.listing(i) for i in range(len(ms.dirs))]
    alt = "+alt" in mode
    pk = (["__init__.py"] if alt else ms.pk.listing(False)) if has_pkg else None
    out = [("seqd @ " + dirs_field(listings) + " " + opt_files(pk) + " " + ",".join(str(index_of[c]) for c in seq), (res, cache))]
    target, got = seq[-1], res[-1]
    ustems, bstems = ms.user_stems(), (set(ms.pk.builtin) if has_pkg and not alt else set())
    exp = expected_resolution(target, ustems, bstems)
    got_stem = None if got is None else pathlib.PurePosixPath(got).stem
    rp = {"stream": "lookup-dirs", "mode": mode, **ms.describe(), "lookups": [c.__name__ for c in seq], "results": res, "expected": exp}
    ctx.case(("lookup-dirs", mode, tuple(map(tuple, listings)), tuple(sorted(bstems)), tuple(c.__name__ for c in seq)), bool(ustems or bstems))
    ctx.count(f"dirs={len(ms.dirs)},mode={mode}")
    ctx.count("loader-option-followlinks" if "+follow" in mode else "loader-option-default-links")
    if exp is not None and exp[1] == "user":
        first = min(i for i in range(len(ms.dirs)) if exp[0] in {pathlib.PurePosixPath(r).stem for r in listings[i] if r.endswith(SUFFIX)})
        ctx.count("expect-user-template-in-" + ("first-directory" if first == 0 else "later-directory"))
    if (exp[0] if exp else None) != got_stem:
        ctx.fail({"kind": "stray-file-taken-as-template"} if got_stem is not None and got_stem not in by_name else {"kind": "not-nearest-class", "user_directories": len(ms.dirs)},
                 f"{target.__name__} resolved to {got} on a loader over {len(ms.dirs)} user directories; the nearest class of its chain with a template "
                 f"(in any of the directories or the package) is {exp}", rp)
    elif exp is not None:
        # which file is it? get_source must take the FIRST directory that has the resolved name; the package only if no directory has it
        from nunavut.jinja.jinja2 import TemplateNotFound
        try:
            txt = ld.get_source(jenv, got)[0]
        except TemplateNotFound:
            txt = "notfound"
        holders = [i for i in range(len(ms.dirs)) if got in listings[i]]
        want = f"USR {holders[0]} " if holders else "PKG "
        if not txt.startswith(want):
            ctx.fail({"kind": "wrong-source-for-name" if (txt[:3] == "USR") != bool(holders) else "user-directory-order"},
                     f"{target.__name__} -> {got}: get_source loads {txt!r}, expected the file of {'user directory %d' % holders[0] if holders else 'the package'}",
                     {**rp, "loaded": txt})
    if check_enum:
        # get_templates() (the templates among what --list-inputs reports) against resolution
        enum = [os.path.normpath(str(x)) for x in ld.get_templates()]
        impl_enum = []
        for x in enum:
            if not os.path.isfile(x):
                ctx.count("get_templates-lists-a-directory")
                continue
            for i, d in enumerate(ms.dirs):
                if x.startswith(str(d) + os.sep):
                    impl_enum.append(f"u{i}:" + pathlib.Path(x).relative_to(d).as_posix())
                    break
            else:
                impl_enum.append("b:" + pathlib.Path(x).relative_to(ms.pk.tpl.parent / "alt" if alt else ms.pk.tpl).as_posix())
        out.append(("enum " + dirs_field(listings) + " " + opt_files(pk), sorted(impl_enum)))
        ctx.count("enumerations")
        for e in impl_enum:
            st = pathlib.PurePosixPath(e.split(":", 1)[1]).stem
            if st in by_name and index_of.get(by_name[st]) is not None:
                r = ms.loader(mode).type_to_template(by_name[st])
                if r is None or r.stem != st:
                    ctx.fail({"kind": "enumerated-template-not-resolvable"},
                             f"get_templates() lists {e} but type_to_template({st}) gives {r}: the loader enumerates a template named after a class that resolution does not see",
                             {**rp, "enumerated": e, "lookups": [st], "results": [None if r is None else r.as_posix()]})
        if got is not None:
            fn = os.path.normpath(ld.get_source(jenv, got)[1])
            if fn not in enum:
                ctx.fail({"kind": "resolved-template-not-enumerated"}, f"{target.__name__} resolves to {fn}, which get_templates() does not list", {**rp, "file": fn})
    return out


def run_multidir_stream(ctx, ask, table_classes, index_of, by_name, jenv, corpus=()):
    """Every class x (class, one ancestor) x every distribution of the two templates over 1-3 user directories and the
    package, plus random distributions over whole chains, cold and warm; enumeration against resolution."""
    import pydsdl
    rng = ctx.rng
    lines, impls = [], []
    dec_files = ["structuretype.j2", "Any.J2", "readme.md", "deep/notaclass.j2", "StructureType.j2.bak"]
    msets = {}
    for n in (1, 2, 3):
        msets[n] = MultiSources(ctx, n)
        for i in range(n):
            for f in dec_files[i:]:
                msets[n].add_file(i, f)
    nconf = 0

    def states(n, with_pkg):
        subs = [frozenset(c) for k in range(n + 1) for c in itertools.combinations(range(n), k)]
        return [s | {"p"} for s in subs] + subs if with_pkg else subs

    under = [c for c in table_classes if issubclass(c, pydsdl.Any)]
    # corpus first
    for c in corpus:
        if c.get("stream") != "lookup-dirs":
            continue
        stems = {pathlib.PurePosixPath(r).stem for d in c["dirs"] for r in d} | set(c["builtin"])
        if any(n not in by_name for n in list(stems) + c["warm"] + [c["query"]]) or len(c["dirs"]) not in msets:
            continue
        ms = msets[len(c["dirs"])]
        ms.clear()
        for n in stems:
            ms.set(n, frozenset([i for i, d in enumerate(c["dirs"]) if n + SUFFIX in d] + (["p"] if n in c["builtin"] else [])))
        for ln, im in multidir_case(ctx, ms, c.get("mode", "both"), [by_name[n] for n in c["warm"]] + [by_name[c["query"]]], index_of, by_name, jenv, check_enum=True):
            lines.append(ln)
            impls.append(im)
        ctx.count("corpus-lookup-dirs")
    for ci, target in enumerate(under):
        chain = chain_to_any(target)
        pairs = list(dict.fromkeys([(chain[0], a) for a in (chain[1:2] + chain[-1:]) if a is not chain[0]]))
        if not pairs:
            pairs = [(chain[0], None)]
        others = [c for c in chain[1:]]
        for n in (1, 2, 3):
            ms = msets[n]
            ms.clear()
            for near, far in pairs:
                for c in others:
                    ms.set(c.__name__, frozenset())
                # thorough: the package is part of every distribution; quick: only for one and two directories
                st = states(n, with_pkg=(n < 3 or not ctx.quick))
                for k, (a, b) in enumerate(itertools.product(st, st if far is not None else [frozenset()])):
                    ms.set(near.__name__, a)
                    if far is not None:
                        ms.set(far.__name__, b)
                    mode = ("both" if k % 4 else "first") + ("+follow" if (k // 2) % 2 else "") + ("+alt" if k % 7 == 3 else "")
                    seq = [target]
                    if k % 5 == 0:
                        seq = [rng.choice(chain + target.__subclasses__()) for _ in range(rng.randint(1, 3))] + [target]
                    for ln, im in multidir_case(ctx, ms, mode, seq, index_of, by_name, jenv, check_enum=(k % 16 == ci % 16)):
                        lines.append(ln)
                        impls.append(im)
                    nconf += 1
    # random: whole chains, files below sub-directories with the stem of a class, same name in several directories
    for it in range(600 if ctx.quick else 6000):
        n = rng.choice((2, 3, 3))
        ms = msets[n]
        target = rng.choice(under)
        if it % 20 == 0:
            ms.clear()
            ms.drop_extras()
            for i in range(n):
                for f in rng.sample(dec_files, 2):
                    ms.add_file(i, f)
                if rng.random() < 0.5:
                    ms.add_file(i, rng.choice(["sub/", "z/", "A/"]) + rng.choice(under).__name__ + SUFFIX)
        for c in chain_to_any(target):
            r = rng.random()
            ms.set(c.__name__, frozenset() if r < 0.45 else frozenset(rng.sample(list(range(n)) + ["p"], rng.randint(1, n + 1))))
        seq = [rng.choice(under) for _ in range(rng.randint(0, 3))] + [target]
        rmode = rng.choice(["both", "both", "first", "fs"]) + rng.choice(["", "+follow"]) + rng.choice(["", "", "", "+alt"])
        for ln, im in multidir_case(ctx, ms, rmode, seq, index_of, by_name, jenv, check_enum=(it % 5 == 0)):
            lines.append(ln)
            impls.append(im)
        nconf += 1
    # DSDLTemplateLoader.__init__: which Jinja loaders exist, for both policies x with/without directories x with/without package
    from nunavut.jinja.loaders import DSDLTemplateLoader
    from nunavut._utilities import ResourceSearchPolicy
    for pol, pname in ((ResourceSearchPolicy.FIND_FIRST, "first"), (ResourceSearchPolicy.FIND_ALL, "all")):
        for with_dirs in (0, 1):
            for with_pkg in (0, 1):
                ld = DSDLTemplateLoader(templates_dirs=list(msets[2].dirs) if with_dirs else None,
                                        package_name_for_templates=msets[2].pk.pkgname if with_pkg else None, search_policy=pol)
                lines.append(f"ldr {pname} {with_dirs} {with_pkg}")
                impls.append(("1" if ld._fsloader is not None else "0") + ("1" if ld._package_loader is not None else "0"))
                ctx.case(("loader-sources", pname, with_dirs, with_pkg), True)
    # FileSystemLoader.list_templates itself: names in arbitrary order in, `sorted(set(...))` out
    for n, ms in msets.items():
        ld = ms.loader("fs")
        listings = [ms.listing(i) for i in range(n)]
        for x in listings:
            rng.shuffle(x)
        lines.append("fslist " + dirs_field(listings))
        impls.append(list(ld._fsloader.list_templates()))
    for (ln, impl), m in zip(zip(lines, impls), ask(lines)):
        if m is None:
            continue
        ctx.traces += 1
        if ln.startswith("seqd "):
            pm = parse_seq_answer(m)
            if isinstance(pm, str) or pm[0] != impl[0] or pm[1] != impl[1]:
                ctx.disagree("type_to_template-dirs", ln if len(ln) < 700 else ln[:700] + "...",
                             pm if isinstance(pm, str) else {"results": pm[0], "cache": sorted(pm[1].items())}, {"results": impl[0], "cache": sorted(impl[1].items())})
        elif ln.startswith("ldr "):
            if m != impl:
                ctx.disagree("loader-sources", ln, m, impl)
        elif ln.startswith("enum "):
            model = [] if m == "~" else sorted(e.split(":")[0] + ":" + dec(e.split(":")[1]) for e in m.split(","))
            if model != impl:
                ctx.disagree("get_templates", ln if len(ln) < 700 else ln[:700] + "...", model, impl)
        else:
            model = [] if m == "~" else [dec(e) for e in m.split(",")]
            if model != impl:
                ctx.disagree("list_templates", ln if len(ln) < 700 else ln[:700] + "...", model, impl)
    ctx.extra["lookup_dirs_domain"] = {"configurations": nconf, "requests": len(lines), "classes": len(under)}
    return msets


# ======================================================================================================================
class Marker:
    """A user-supplied callable / value with an identity."""

    def __init__(self, i):
        self.i = i

    def __call__(self, *a, **k):
        return True


def reference_environment(factory):
    """Construct an environment without additions through `factory()` and record, from the real code, every
    `_add_to_environment` call, the phase (inside / after CodeGenEnvironment.__init__) and the statement it came from
    ('lang': language modules, 'own' / 'genm': add_conventional_methods_to_environment inside / after the constructor,
    'inst': add_test after the constructor)."""
    from nunavut.jinja.environment import CodeGenEnvironment
    rec, phase = [], {"p": "pre", "s": "lang"}
    orig_add, orig_init = CodeGenEnvironment._add_to_environment, CodeGenEnvironment.__init__
    orig_conv, orig_add_test = CodeGenEnvironment.add_conventional_methods_to_environment, CodeGenEnvironment.add_test

    def add(self, item_name, item, collection):
        kind = "f" if collection is self.filters else "t" if collection is self.tests else "g" if collection is self.globals else "o"
        rec.append((phase["p"], kind, item_name, phase["s"]))
        return orig_add(self, item_name, item, collection)

    def init(self, *a, **k):
        phase["p"], phase["s"] = "pre", "lang"
        orig_init(self, *a, **k)
        phase["p"], phase["s"] = "post", "other"

    def conv(self, obj):
        old = phase["s"]
        phase["s"] = "own" if phase["p"] == "pre" else "genm"
        try:
            return orig_conv(self, obj)
        finally:
            phase["s"] = old

    def add_test(self, *a, **k):
        old = phase["s"]
        phase["s"] = "inst" if phase["p"] == "post" else old
        try:
            return orig_add_test(self, *a, **k)
        finally:
            phase["s"] = old

    CodeGenEnvironment._add_to_environment, CodeGenEnvironment.__init__ = add, init
    CodeGenEnvironment.add_conventional_methods_to_environment, CodeGenEnvironment.add_test = conv, add_test
    try:
        env = factory()
    finally:
        CodeGenEnvironment._add_to_environment, CodeGenEnvironment.__init__ = orig_add, orig_init
        CodeGenEnvironment.add_conventional_methods_to_environment, CodeGenEnvironment.add_test = orig_conv, orig_add_test
    return env, rec


BASE_ENTRIES = ("generator", "builder")


def env_entries(root_ns, lctx, tdirs):
    """The ways an environment is constructed, by loader configuration.  name -> factory(allow, globals, filters, tests) -> env.
    generator*: DSDLCodeGenerator (FIND_FIRST: a templates directory REPLACES the built-in set); support*: SupportGenerator
    (FIND_ALL: support templates directory AND package); builder*: CodeGenEnvironmentBuilder over a loader object."""
    from nunavut.jinja import DSDLCodeGenerator, SupportGenerator, CodeGenEnvironmentBuilder
    from nunavut.jinja.loaders import DSDLTemplateLoader
    from nunavut.jinja.jinja2 import DictLoader
    from nunavut._utilities import ResourceSearchPolicy
    pkg = "nunavut.lang.c"

    def gen(cls, **kw):
        return lambda allow, g, f, t: cls(root_ns, additional_globals=g, additional_filters=f, additional_tests=t, **kw)._env

    def bld(mk_loader):
        def make(allow, g, f, t):
            b = CodeGenEnvironmentBuilder(mk_loader(), lctx)
            b.set_allow_filter_test_or_use_query_overwrite(allow)
            for add, d in ((b.add_globals, g), (b.add_filters, f), (b.add_tests, t)):
                if d:
                    add(**d)
            return b.create()
        return make

    return {
        "generator": gen(DSDLCodeGenerator),
        "generator+templates_dir": gen(DSDLCodeGenerator, templates_dir=tdirs[0]),
        "generator+templates_dirs": gen(DSDLCodeGenerator, templates_dir=list(tdirs)),
        "support": gen(SupportGenerator),
        "support+templates_dir": gen(SupportGenerator, support_templates_dir=tdirs[0]),
        "builder": bld(lambda: DSDLTemplateLoader(package_name_for_templates=pkg)),
        "builder+fs": bld(lambda: DSDLTemplateLoader(templates_dirs=[tdirs[0]])),
        "builder+fs+package": bld(lambda: DSDLTemplateLoader(templates_dirs=list(tdirs), package_name_for_templates=pkg)),
        "builder+fs-first": bld(lambda: DSDLTemplateLoader(templates_dirs=[tdirs[0]], package_name_for_templates=pkg,
                                                            search_policy=ResourceSearchPolicy.FIND_FIRST)),
        "builder+dict": bld(lambda: DictLoader({"Any.j2": "x"})),
    }


def env_template_dirs(ctx):
    out = []
    for i in range(2):
        d = ctx.scratch / f"envtd{i}"
        d.mkdir(exist_ok=True)
        (d / ("Any.j2" if i == 0 else "StructureType.j2")).write_text("{{ T.short_name }}\n")
        out.append(d)
    return out


class EntryRef:
    """What one way of constructing the environment holds without additions."""

    def __init__(self, name, factory, reserved, lang_globals):
        self.name, self.factory = name, factory
        self.env, rec = reference_environment(lambda: factory(False, None, None, None))
        self.pre_f = [n for p, k, n, _ in rec if p == "pre" and k == "f"]
        self.pre_t = [n for p, k, n, _ in rec if p == "pre" and k == "t"]
        self.post = [(k, n) for p, k, n, _ in rec if p == "post" and k in "ft"]
        unknown = [r for r in rec if r[1] in "ft" and r[3] not in ("lang", "own", "inst", "genm")]
        if unknown:
            raise RuntimeError(f"{name}: additions from a statement the harness does not attribute: {unknown[:3]}")
        sel = lambda st, k: [n for p, kk, n, s_ in rec if s_ == st and kk == k]  # noqa: E731
        kinded = lambda st: ",".join(k + ":" + enc(n) for p, k, n, s_ in rec if s_ == st and k in "ft") or "~"  # noqa: E731
        self.which = "gen" if name.startswith("generator") else "sup" if name.startswith("support") else "bld"
        self.sm_fields = lambda: " ".join([enc_list(self.jf), enc_list(self.jt), enc_list(self.jg), enc_list(lang_globals), enc_list(sel("lang", "f")),
                                           enc_list(sel("lang", "t")), enc_list(sel("own", "f")), enc_list(sel("own", "t")), kinded("inst"), kinded("genm")])
        added_f = set(self.pre_f) | {n for k, n in self.post if k == "f"}
        added_t = set(self.pre_t) | {n for k, n in self.post if k == "t"}
        self.jf = [n for n in self.env.filters if n not in added_f]
        self.jt = [n for n in self.env.tests if n not in added_t]
        self.jg = [n for n in self.env.globals if n not in reserved and n not in lang_globals]
        self.cfg_fields = " ".join([enc_list(self.jf), enc_list(self.jt), enc_list(self.jg), enc_list(lang_globals), enc_list(self.pre_f), enc_list(self.pre_t)])
        self.post_field = ",".join(k + ":" + enc(n) for k, n in self.post) if self.post else "~"
        self.names = {"f": set(self.env.filters), "t": set(self.env.tests), "g": set(self.env.globals)}
        self.allow_possible = name.startswith("builder")
        ld = self.env.loader
        self.loader_object = ld
        self.loader_summary = ("user-directories+package" if getattr(ld, "_fsloader", None) is not None and getattr(ld, "_package_loader", None) is not None
                               else "user-directories-only" if getattr(ld, "_fsloader", None) is not None
                               else "package-only" if getattr(ld, "_package_loader", None) is not None else type(ld).__name__)
        self.loader = {"class": type(ld).__name__, "fs": getattr(ld, "_fsloader", None) is not None, "package": getattr(ld, "_package_loader", None) is not None}

    def category(self, kind, n, reserved, lang_globals):
        if kind == "g":
            return "reserved" if n in reserved else "language-global" if n in lang_globals else "jinja-default"
        if n in (self.jf if kind == "f" else self.jt):
            return "jinja-default"
        if (kind, n) in self.post:
            return "nunavut-after-create"
        return "nunavut-ln" if n.startswith("ln.") else "nunavut"


def run_env_stream(ctx, ask, root_ns, lctx, corpus):
    from nunavut.jinja.environment import CodeGenEnvironment
    rng = ctx.rng
    lang = lctx.get_target_language().name
    reserved = set(CodeGenEnvironment.RESERVED_GLOBAL_NAMESPACES) | set(CodeGenEnvironment.RESERVED_GLOBAL_NAMES)
    lang_globals = list(lctx.get_target_language().get_globals().keys())
    factories = env_entries(root_ns, lctx, env_template_dirs(ctx))
    refs = {name: EntryRef(name, f, reserved, lang_globals) for name, f in factories.items()}
    g_ref = refs["generator"]
    jf, jt, jg = g_ref.jf, g_ref.jt, g_ref.jg
    ctx.extra.setdefault("environment", {})[lang] = {
        "jinja_filters": len(jf), "jinja_tests": len(jt), "jinja_globals": sorted(jg), "language_globals": len(lang_globals),
        "pre_filters": len(g_ref.pre_f), "pre_tests": len(g_ref.pre_t), "post_additions": len(g_ref.post), "target": lang,
        "loader_configurations": {n: r.loader for n, r in refs.items()}}
    builtin_names = g_ref.names

    def pick(kind):
        """A name for an additional filter ('f') / test ('t') / global ('g')."""
        r = rng.random()
        fresh = rng.choice(["mine", "my_filter", "zzz", "Custom", "x1", "is", "filter", "uses", "Is_odd", "ln", "T"]) + rng.choice(["", "", "_2", "X"])
        if kind == "g":
            if r < 0.25:
                return rng.choice(sorted(reserved))
            if r < 0.5:
                return rng.choice(jg) if jg else fresh
            if r < 0.6:
                return rng.choice(lang_globals) if lang_globals else fresh
            if r < 0.7:
                return rng.choice(sorted(builtin_names["f"] | builtin_names["t"]))
            return fresh
        own = sorted(builtin_names[kind])
        other = sorted(builtin_names["t" if kind == "f" else "f"])
        if r < 0.3:
            n = rng.choice(own)
        elif r < 0.4:
            n = rng.choice(other)
        elif r < 0.5:
            n = rng.choice(sorted(reserved | set(jg)))
        else:
            n = fresh
        if rng.random() < 0.35:
            n = rng.choice(["is_", "filter_", "uses_", "is_filter_", "IS_"]) + n
        if rng.random() < 0.05:
            n = rng.choice(["is_", "filter_", "uses_"])  # nothing left after the prefix
        return n

    import functools

    def user_value(ref, kind, i, n, vkind):
        """The user's object for additional item `n`.  marker: an unrelated callable; samename: a NEW function whose __name__ is
        that of the built-in callable registered under (the conventional name of) `n`; partial: functools.partial of such a
        function; sameobject: the object a reference environment holds under that name."""
        if vkind == "marker":
            return Marker(i)
        cur = {"g": ref.env.globals, "f": ref.env.filters, "t": ref.env.tests}[kind].get(strip_prefix(n) if kind != "g" else n)
        nm = getattr(getattr(cur, "func", cur), "__name__", None)
        if cur is None or not isinstance(nm, str) or not nm.isidentifier():
            return Marker(i)
        if vkind == "sameobject":
            return cur

        def same_named(*a, **k):
            return True
        same_named.__name__ = same_named.__qualname__ = nm
        same_named.i = i
        if vkind == "partial":
            pf = functools.partial(same_named)
            return pf
        return same_named

    def build(entry, allow, ug, uf, ut, vkind="marker"):
        """Real construction. Returns ('ok', env) or ('err', kind, name)."""
        mk = lambda kind, names: {n: user_value(refs[entry], kind, i, n, vkind) for i, n in enumerate(names)}  # noqa: E731
        g, f, t = mk("g", ug), mk("f", uf), mk("t", ut)
        try:
            env = factories[entry](allow, g if ug else None, f if uf else None, t if ut else None)
        except RuntimeError as e:
            msg = str(e)
            if msg.endswith(" was already defined."):
                return ("err", "already", msg[: -len(" was already defined.")]), (g, f, t)
            if "uses a reserved global name" in msg:
                return ("err", "reserved", msg.split('"')[1]), (g, f, t)
            return ("err", "other", f"RuntimeError: {msg[:80]}"), (g, f, t)
        except Exception as e:  # a changed constructor may stumble over a user object where it expects its own
            return ("err", "other", f"{type(e).__name__}: {str(e)[:80]}"), (g, f, t)
        return ("ok", env), (g, f, t)

    def owners(coll, markers, vkind="marker"):
        # sameobject: the user's object IS a built-in object (possibly shared between environments): identity says nothing
        ms_ = [m for m in markers.values() if vkind != "sameobject" or isinstance(m, Marker)]
        out = {}
        for k, v in coll.items():
            hit = [j for j, m in enumerate(ms_) if v is m]
            out[k] = "U%d" % hit[0] if hit else "B"
        return out

    one = lambda k, x: ([x] if k == "g" else [], [x] if k == "f" else [], [x] if k == "t" else [])  # noqa: E731
    cases = []
    for c in corpus:
        if c.get("stream") == "env" and c.get("entry", "generator") in factories:
            cases.append((c.get("entry", "generator"), bool(c.get("allow", False)), c.get("globals", []), c.get("filters", []), c.get("tests", [])))
    # EVERY name the finished environment holds (globals, filters, tests of a real environment built without additions: Jinja
    # defaults, reserved namespaces, now_utc, language-support globals/filters/tests incl. ln.<lang>.<x>, instance tests, the
    # generator's own) as an additional item of its own collection through both entry points, as an item of the two other
    # collections through the generator, and - filters and tests - once more with the conventional prefix in front
    # (quick tier: the cross-collection and prefixed variants for every third name, rotating with the seed; globals always all)
    rot = rng.randrange(3)
    for kind in "gft":
        for i, n in enumerate(sorted(builtin_names[kind])):
            cases.append(("generator", False) + one(kind, n))
            cases.append(("builder", False) + one(kind, n))
            if kind == "g" or not ctx.quick or (i + rot) % 3 == 0:
                cases.append(("builder", True) + one(kind, n))   # the allow flag exists on the builder only
            if kind == "g":
                cases.append(("builder", True, [n], [n], [n]))
            if ctx.quick and kind != "g" and (i + rot) % 3:
                continue
            for other in "gft".replace(kind, ""):
                cases.append(("generator", False) + one(other, n))
            if kind == "f":
                cases.append(("generator", False, [], ["filter_" + n], []))
            if kind == "t":
                cases.append(("generator", False, [], [], ["is_" + n]))
    ctx.count("env-exhaustive-names-" + lang, sum(len(v) for v in builtin_names.values()))
    # ... crossed with the LOADER CONFIGURATION the environment is created over: whether a collision is refused must not depend
    # on it.  Per configuration: of every collection and every category of built-in name (Jinja default, reserved, language
    # global, language support ln.<x>, target-language support, installed after create()) the first name and a random one, every
    # global, and every `step`-th other name (quick: 6th, rotating with the seed; thorough: all).
    step = 6 if ctx.quick else 1
    rot2 = rng.randrange(step)
    for entry, ref in refs.items():
        if entry in BASE_ENTRIES:
            continue
        for kind in "gft":
            by_cat = {}
            for n in sorted(ref.names[kind]):
                by_cat.setdefault(ref.category(kind, n, reserved, lang_globals), []).append(n)
            chosen = set()
            for cat, ns in by_cat.items():
                chosen |= {ns[0], rng.choice(ns)}
                ctx.count(f"env-loader-config-category:{kind}:{cat}")
            chosen |= {n for i, n in enumerate(sorted(ref.names[kind])) if kind == "g" or (i + rot2) % step == 0}
            for n in sorted(chosen):
                cases.append((entry, False) + one(kind, n))
                if ref.allow_possible and (kind == "g" or not ctx.quick):
                    cases.append((entry, True) + one(kind, n))
    # ... and with the user's object being a callable NAMED like the built-in callable (a new function with the same __name__,
    # a functools.partial of one, the very object of a reference environment): "it is the same function" must not be judged by
    # name.  Per collection: the first name of every category with all three kinds; same-named functions for every 3rd name
    # through the generator and every 6th through the builder, partials for every 9th (thorough: every name, both entries).
    for kind in "gft":
        names_k = sorted(builtin_names[kind])
        firsts = {}
        for n in names_k:
            firsts.setdefault(g_ref.category(kind, n, reserved, lang_globals), n)
        for i, n in enumerate(names_k):
            rep = n in firsts.values()
            for entry in BASE_ENTRIES:
                every = (3 if entry == "generator" else 6) if ctx.quick else 1
                if rep or (i + rot) % every == 0:
                    cases.append((entry, False) + one(kind, n) + ("samename",))
                if rep or (i + rot) % (9 if ctx.quick else 1) == 0:
                    cases.append((entry, False) + one(kind, n) + ("partial",))
                if rep:
                    cases.append((entry, False) + one(kind, n) + ("sameobject",))
    for _ in range(40 if ctx.quick else 400):
        entry = rng.choice(["generator", "builder", "builder"] + [e for e in refs if e not in BASE_ENTRIES])
        allow = refs[entry].allow_possible and rng.random() < 0.4
        ug = list(dict.fromkeys(pick("g") for _ in range(rng.choice([0, 0, 1, 1, 2, 3]))))
        uf = list(dict.fromkeys(pick("f") for _ in range(rng.choice([0, 0, 1, 1, 2, 3]))))
        ut = list(dict.fromkeys(pick("t") for _ in range(rng.choice([0, 0, 1, 1, 2, 3]))))
        if not all(n.isidentifier() or "." in n for n in ug + uf + ut):
            continue
        cases.append((entry, allow, ug, uf, ut))
    lines, impls, metas = [], [], []
    sm_lines, sm_flags = [], []
    # the boolean attributes of the loader object the regenerated flag expression reads (none on the unchanged tree)
    attr_reads = ctx.extra.get("allow_flag_loader_attributes_read", [])
    for r in refs.values():
        r.attrs_field = ",".join(enc(a) + "=" + ("1" if getattr(r.loader_object, a, d) else "0") for a, d in attr_reads) or "~"
        r.sm_cfg = r.sm_fields()
    for entry, allow, ug, uf, ut, *rest in cases:
        vkind = rest[0] if rest else "marker"
        ref = refs[entry]
        res, (mg, mf, mt) = build(entry, allow, ug, uf, ut, vkind)
        user_objs = list(mg.values()) + list(mf.values()) + list(mt.values())
        is_user = lambda v: any(v is m for m in user_objs) and (vkind != "sameobject" or isinstance(v, Marker))  # noqa: E731
        ctx.count("env-user-value=" + vkind)
        lines.append(f"env new {1 if allow else 0} {ref.cfg_fields} {ref.post_field} {enc_list(ug)} {enc_list(uf)} {enc_list(ut)}")
        sm_lines.append(f"envsm {ref.which} {1 if allow else 0} {ref.attrs_field} {ref.sm_cfg} {enc_list(ug)} {enc_list(uf)} {enc_list(ut)}")
        sm_flags.append(("1" if res[1]._allow_replacements else "0") if res[0] == "ok" else None)
        collides = any(n in ref.names["g"] for n in ug) or any(strip_prefix(n) in ref.names["f"] for n in uf) \
            or any(strip_prefix(n) in ref.names["t"] for n in ut)
        ctx.case(("env", lang, entry, allow, tuple(ug), tuple(uf), tuple(ut), vkind), collides or any("_" in n for n in uf + ut))
        ctx.count("env-entry=" + entry + (",allow" if allow else ""))
        rp = {"stream": "env", "language": lang, "entry": entry, "loader": ref.loader, "allow": allow, "globals": ug, "filters": uf, "tests": ut,
              "user_value": vkind,
              "allow_replacements_assigned_at": ctx.extra.get("translator_env_ctor", {}).get("allow_assignments"),
              "allow_replacements_reads_inputs": ctx.extra.get("translator_env_ctor", {}).get("allow_inputs")}
        if res[0] == "err":
            impls.append(("err", res[1], res[2]))
            ctx.count("env-raised-" + res[1])
        else:
            env = res[1]
            impls.append(("ok", owners(env.filters, mf, vkind), owners(env.tests, mt, vkind), owners(env.globals, mg, vkind)))
            ctx.count("env-constructed")
            # property: every name the environment defines without the additions keeps its built-in value (allow flag off):
            # (a) compared with the value in the reference environment, (b) it is not the user's object
            if not allow:
                for cname, coll, rcoll in (("filters", env.filters, ref.env.filters), ("tests", env.tests, ref.env.tests), ("globals", env.globals, ref.env.globals)):
                    for k, r in rcoll.items():
                        v = coll.get(k, None)
                        if is_user(v) or k not in coll or type(v) is not type(r) or \
                                (isinstance(r, (str, int, float, bool, tuple, type)) and v != r):
                            if not is_user(v):  # Marker cases are reported with a precise key below
                                ctx.fail({"kind": "builtin-value-changed", "collection": cname},
                                         f"{cname}[{k!r}] is {v!r} after adding {ug + uf + ut}, {r!r} without additions", {**rp, "name": k})
                for kind, coll, markers in (("f", env.filters, mf), ("t", env.tests, mt), ("g", env.globals, mg)):
                    for k, v in coll.items():
                        if not is_user(v):
                            continue
                        if k in ref.names[kind]:
                            what = ref.category(kind, k, reserved, lang_globals)
                            what = "nunavut" if what.startswith("nunavut") else what
                            key = {"kind": "silent-replacement", "collection": {"f": "filters", "t": "tests", "g": "globals"}[kind], "of": what}
                            if vkind != "marker":
                                key["user_object"] = "named-like-the-built-in-callable"
                            if entry not in BASE_ENTRIES:
                                # the same collision is refused over another loader configuration?
                                base = build("generator" if not entry.startswith("builder") else "builder", False, ug, uf, ut)[0]
                                key["loader"] = ref.loader_summary
                                key["refused_over_the_default_loader"] = base[0] == "err"
                            ctx.fail(key,
                                     f"additional {'global' if kind == 'g' else 'filter' if kind == 'f' else 'test'} {k!r} replaced the built-in of that name without an error"
                                     f" (environment created through {entry}, loader {ref.loader})", {**rp, "replaced": k})
            # property, REGARDLESS of the allow flag (it is documented for filters, tests and use-queries only): the reserved
            # globals (RESERVED_GLOBAL_NAMESPACES / _NAMES, what the constructor installs as reserved) and the target language's
            # globals keep their built-in value — the constructor raises or they are what they are without additions
            if allow:
                for k in sorted(reserved | set(lang_globals)):
                    r, v = ref.env.globals.get(k), env.globals.get(k)
                    if is_user(v) or k not in env.globals or type(v) is not type(r) or \
                            (isinstance(r, (str, int, float, bool, tuple, type)) and v != r):
                        ctx.fail({"kind": "silent-replacement" if is_user(v) else "builtin-value-changed", "collection": "globals",
                                  "of": "reserved" if k in reserved else "language-global", "allow": True},
                                 f"with the allow flag on, additional global {k!r} replaced the {'reserved' if k in reserved else 'language'} global (value now {v!r})",
                                 {**rp, "allow": True, "replaced": k})
            # observation (not a replacement of a built-in): a user global the language globals overwrote
            for n in ug:
                if n in lang_globals and not is_user(env.globals.get(n)):
                    ctx.count("user-global-silently-dropped-by-language-global")
        metas.append((entry, allow, ug, uf, ut))
    both = [(ln, impl, meta, None) for ln, impl, meta in zip(lines, impls, metas) if meta[0] in BASE_ENTRIES] + \
        [(ln, impl, meta, fl) for ln, impl, meta, fl in zip(sm_lines, impls, metas, sm_flags)]
    for (ln, impl, meta, flag), m in zip(both, ask([b[0] for b in both])):
        if m is None:
            continue
        ctx.traces += 1
        if m.startswith("err:"):
            _, kind, nm = m.split(":")
            model = ("err", kind, dec(nm))
        elif m.startswith("ok|"):
            parts = m.split("|")
            if len(parts) == 5:   # the state machine also reports the flag the construction ended with
                if flag is not None and parts[4] != "flag=" + flag:
                    ctx.disagree("environment-allow-flag", {"entry": meta[0], "loader": refs[meta[0]].loader, "allow_argument": meta[1]}, parts[4], "flag=" + flag)
                parts = parts[:4]
            _, f, t, g = parts
            canon = lambda s: {dec(e.split("=")[0]): (e.split("=")[1] if e.split("=")[1].startswith("U") else "B")  # noqa: E731
                               for e in s.split(",")} if s != "~" else {}
            model = ("ok", canon(f), canon(t), canon(g))
        else:
            model = m
        if model != impl:
            def short(x):
                if isinstance(x, tuple) and x and x[0] == "ok":
                    return ("ok",) + tuple(sorted((k, v) for k, v in d.items() if v != "B") for d in x[1:]) + tuple(len(d) for d in x[1:])
                return x
            ctx.disagree("environment" if ln.startswith("env ") else "environment-state-machine", {"entry": meta[0], "loader": refs[meta[0]].loader, "allow": meta[1], "globals": meta[2], "filters": meta[3], "tests": meta[4]},
                         short(model), short(impl))
    ctx.sample({"stream": "env", "case": {"globals": ["range"]},
                "result": (lambda r: r[0][:3] if r[0][0] == "err" else "constructed; globals['range'] is the user's: %s"
                           % isinstance(r[0][1].globals.get("range"), Marker))(build("generator", False, ["range"], [], []))})


def strip_prefix(n):
    for p in ("is_", "filter_", "uses_"):
        if n.startswith(p):
            return n[len(p):]
    return n


# ======================================================================================================================
def replay(ctx, path):
    """Re-run the failing input of a replay file on the real implementation."""
    logging.disable(logging.INFO)
    r = json.loads(open(path).read())
    rp = r.get("replay", {})
    import pydsdl  # noqa: F401
    import nunavut  # noqa: F401
    _, all_classes = walk_pydsdl()
    by_name = {c.__name__: c for c in all_classes}
    try:
        if rp.get("stream") == "lookup":
            src = Sources(ctx, rp.get("layout", 0))
            stem = lambda p: pathlib.PurePosixPath(p).stem  # noqa: E731
            us, bs = {stem(p) for p in rp["user_templates"]}, {stem(p) for p in rp["builtin_templates"]}
            for n in us | bs:
                src.set(n, (USER if n in us else 0) | (BUILTIN if n in bs else 0))
            for user, key in ((True, "other_user_files"), (False, "other_builtin_files")):
                for rel in rp.get(key, []):
                    src.add_decoy(user, rel)
            seq = [by_name[n] for n in rp["lookups"]]
            warm = run_lookups(src.loader(rp["mode"]), seq)
            cold = run_lookups(src.loader(rp["mode"]), seq[-1:])
            ld = src.loader(rp["mode"])
            exp = expected_resolution(seq[-1], set(src.user) if ld._fsloader else set(), set(src.builtin) if ld._package_loader else set())
            print(json.dumps({"sequence_results": warm, "cold_result": cold[0], "expected_nearest": exp}))
            got_stem = None if cold[0] is None else stem(cold[0])
            return 1 if (warm[-1] != cold[0] or got_stem != (exp[0] if exp else None)) else 0
        if rp.get("stream") == "lookup-dirs":
            from nunavut.jinja.jinja2 import Environment
            ms = MultiSources(ctx, len(rp["user_dirs"]))
            for i, files in enumerate(rp["user_dirs"]):
                for rel in files:
                    ms.add_file(i, rel)
            for rel in rp["builtin_templates"]:
                ms.pk.set(pathlib.PurePosixPath(rel).stem, BUILTIN)
            seq = [by_name[n] for n in rp["lookups"]]
            ld = ms.loader(rp["mode"])
            res = run_lookups(ld, seq)
            exp = expected_resolution(seq[-1], ms.user_stems(), set(ms.pk.builtin) if ld._package_loader is not None else set())
            got_stem = None if res[-1] is None else pathlib.PurePosixPath(res[-1]).stem
            listed = sorted(pathlib.Path(os.path.normpath(str(x))).name for x in ld.get_templates())
            print(json.dumps({"user_directories": rp["user_dirs"], "results": res, "expected_nearest": exp, "get_templates_lists": listed}))
            return 1 if got_stem != (exp[0] if exp else None) else 0
        if rp.get("stream") == "generate":
            ns_dir = ctx.scratch / "dsdl" / "vt"
            ns_dir.mkdir(parents=True)
            (ns_dir / "D.1.0.dsdl").write_text("uint8 x\n@extent 64\n")
            (ns_dir / "DU.1.0.dsdl").write_text("@union\nuint8 a\nD.1.0 d\n@extent 256\n")
            (ns_dir / "U.1.0.dsdl").write_text("@union\nuint8 a\nuint16 b\n@sealed\n")
            (ns_dir / "S.1.0.dsdl").write_text("uint8 a\n@sealed\n")
            (ns_dir / "Svc.1.0.dsdl").write_text("uint8 q\n@sealed\n---\nuint8 r\n@extent 64\n")
            types = pydsdl.read_namespace(str(ns_dir), [])
            res = generate_with_sentinels(ctx, types, ns_dir, rp["templates"], "r", rp.get("followlinks", False), rp.get("language", "c"))
            bad = []
            for t, got in res:
                exp = expected_resolution(type(t), set(rp["templates"]), set())
                if got != (exp[0] if exp else None):
                    bad.append({"type": t.full_name, "class": type(t).__name__, "rendered_by": got, "expected": exp[0] if exp else None})
            print(json.dumps({"templates": rp["templates"], "rendered": {t.full_name: got for t, got in res}, "wrong": bad}))
            return 1 if bad else 0
        if rp.get("stream") == "tests-short-lived":
            import random
            from nunavut.lang import LanguageContextBuilder
            from nunavut.jinja import DSDLCodeGenerator
            ns_dir = ctx.scratch / "dsdl" / "vt"
            ns_dir.mkdir(parents=True)
            (ns_dir / "E.1.0.dsdl").write_text("@sealed\n")
            lctx = LanguageContextBuilder().set_target_language("c").create()
            root_ns = nunavut.build_namespace_tree(pydsdl.read_namespace(str(ns_dir), []), str(ns_dir), str(ctx.scratch / "out"), lctx)
            tests = DSDLCodeGenerator(root_ns)._env.tests
            CM = pydsdl.PrimitiveType.CastMode
            rr = random.Random(r.get("seed", 0))
            mk = [lambda: pydsdl.UnsignedIntegerType(8, CM.TRUNCATED), lambda: pydsdl.SignedIntegerType(8, CM.SATURATED), lambda: pydsdl.BooleanType(),
                  lambda: pydsdl.VoidType(3), lambda: pydsdl.FloatType(32, CM.SATURATED), lambda: pydsdl.Field(pydsdl.UnsignedIntegerType(8, CM.TRUNCATED), "x"),
                  lambda: pydsdl.PaddingField(pydsdl.VoidType(2))]
            pairs = {"UnsignedIntegerType": pydsdl.UnsignedIntegerType, "unsignedinteger": pydsdl.UnsignedIntegerType, "void": pydsdl.VoidType,
                     "boolean": pydsdl.BooleanType, "float": pydsdl.FloatType, "SignedIntegerType": pydsdl.SignedIntegerType, "primitive": pydsdl.PrimitiveType}
            for it in range(20000):
                obj = rr.choice(mk)()
                subject = obj.data_type if isinstance(obj, pydsdl.Attribute) else obj
                for tn, cl in pairs.items():
                    if bool(tests[tn](obj)) != isinstance(subject, cl):
                        print(json.dumps({"iteration": it, "test": tn, "value_class": type(obj).__name__, "subject_class": type(subject).__name__,
                                          "answer": bool(tests[tn](obj)), "isinstance": isinstance(subject, cl)}))
                        return 1
                del obj, subject
            print(json.dumps({"iterations": 20000, "mismatches": 0}))
            return 0
        if rp.get("stream") == "get_source":
            from nunavut.jinja.loaders import DSDLTemplateLoader
            from nunavut.jinja.jinja2 import Environment, TemplateNotFound
            root = ctx.scratch / "gs"
            dirs = [root / "u1", root / "u2"]
            pk = Sources(ctx, 0)
            for j, (d, names) in enumerate(zip(dirs + [pk.tpl], rp["user_dirs"] + [rp["package"]])):
                d.mkdir(parents=True, exist_ok=True)
                for t in names:
                    if j < 2 and t.startswith("link/"):
                        side = root / f"side{j}"
                        side.mkdir(exist_ok=True)
                        (side / t.split("/", 1)[1]).write_text(f"USR {j}")
                        if not (d / "link").exists():
                            os.symlink(side, d / "link", target_is_directory=True)
                    else:
                        (d / t).parent.mkdir(parents=True, exist_ok=True)
                        (d / t).write_text(f"{'USR' if j < 2 else 'PKG'} {j}")
            cfg = rp["config"]
            ld = DSDLTemplateLoader(templates_dirs=dirs if cfg != "pkg" else None, package_name_for_templates=pk.pkgname if cfg != "fs" else None)
            try:
                txt = ld.get_source(Environment(), rp["request"])[0]
                got = ("user:" if txt.startswith("USR") else "builtin:") + txt.split()[1]
            except TemplateNotFound:
                got = "notfound"
            pieces = rp["request"].split("/")
            canon = None if ".." in pieces else "/".join(x for x in pieces if x not in ("", "."))
            in_user = cfg != "pkg" and canon is not None and any(canon in names for names in rp["user_dirs"])
            print(json.dumps({"request": rp["request"], "canonical": canon, "a_user_directory_has_it": in_user, "result": got}))
            return 1 if (in_user and not got.startswith("user:")) or (canon is None and got != "notfound") else 0
        if rp.get("stream") == "env":
            ns_dir = ctx.scratch / "dsdl" / "vt"
            ns_dir.mkdir(parents=True)
            (ns_dir / "E.1.0.dsdl").write_text("@sealed\n")
            from nunavut.lang import LanguageContextBuilder
            from nunavut.jinja import DSDLCodeGenerator
            lctx = LanguageContextBuilder(include_experimental_languages=True).set_target_language(rp.get("language", "c")).create()
            root_ns = nunavut.build_namespace_tree(pydsdl.read_namespace(str(ns_dir), []), str(ns_dir), str(ctx.scratch / "out"), lctx)
            from nunavut.jinja.environment import CodeGenEnvironment
            allow = bool(rp.get("allow"))
            entry = rp.get("entry", "generator")
            if allow and not entry.startswith("builder"):
                entry = "builder"
            factory = env_entries(root_ns, lctx, env_template_dirs(ctx))[entry]

            def make(g, f, t):
                return factory(allow, g, f, t)

            ref = make(None, None, None)
            mk = lambda names: {n: Marker(i) for i, n in enumerate(names)} or None  # noqa: E731
            try:
                env = make(mk(rp["globals"]), mk(rp["filters"]), mk(rp["tests"]))
            except Exception as e:
                print(json.dumps({"raised": f"{type(e).__name__}: {e}"}))
                return 0
            lost = lambda coll, rc, k: isinstance(coll.get(k), Marker) or type(coll.get(k)) is not type(rc[k]) or \
                (isinstance(rc[k], (str, int, float, bool, tuple, type)) and coll.get(k) != rc[k])  # noqa: E731
            if allow:  # the flag may replace filters, tests and default globals; never reserved or language globals
                keep = set(CodeGenEnvironment.RESERVED_GLOBAL_NAMESPACES) | set(CodeGenEnvironment.RESERVED_GLOBAL_NAMES) | \
                    set(lctx.get_target_language().get_globals())
                bad = [k for k in sorted(keep) if lost(env.globals, ref.globals, k)]
            else:
                bad = [k for coll, rc in ((env.filters, ref.filters), (env.tests, ref.tests), (env.globals, ref.globals)) for k in rc if lost(coll, rc, k)]
            print(json.dumps({"constructed": True, "allow": allow, "built_in_names_that_lost_their_built_in_value": bad}))
            return 1 if bad else 0
        print("nothing to replay (no failing input of a replayable stream in the file)")
        return 1
    finally:
        ctx.cleanup()
