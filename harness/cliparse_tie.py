"""
Correspondence for the command-line layer (Model/CliParse.lean, table Gen/CliArgs.lean), shared by C08 and C12.

Implementation side, in-process:
  * `nunavut.cli._make_parser().parse_args(argv)` with SystemExit / stdout / stderr captured -> ok + namespace | exit0 | error kind;
  * `ArgparseRunner(args.root_namespace, args, extra_includes)` + `run()` with the two generators replaced by recording
    subclasses of the real `AbstractGenerator` (and the DSDL front end by an empty type list): which methods are called on
    which generator with which keyword values, in order, and the post-processor list both constructors receive.
Model side: the `parse` request of the `cli` driver.

Argument vectors: a corpus, every option string and every proper prefix of every option string alone and with a value, every
`--opt=value` / glued short form, and a seeded random stream over a token pool (full / abbreviated / glued / clustered
option strings, values of every type incl. malformed ones, `--`, `-`, negative-number-like strings).
"""
import contextlib
import io
import pathlib
import re

from . import common
from .common import enc

LANG_NAMES = ["c", "cpp", "py", "html", "js", "ts", "nope", ""]
OUTSIDE_TABLE = ("js", "ts")   # languages without templates: not rows of Gen/SupportFiles.lean


# ---------------------------------------------------------------------------------------------------------------
# value encoding (the driver's `showVal`)
# ---------------------------------------------------------------------------------------------------------------
class Unsupported(Exception):
    pass


def show_scalar(x):
    if isinstance(x, bool):
        raise Unsupported("bool inside a list")
    if isinstance(x, int):
        return "i" + str(x)
    if isinstance(x, pathlib.PurePath):
        return "s" + enc(str(x))
    if isinstance(x, str):
        return "s" + enc(x)
    raise Unsupported(repr(x))


def show_val(v):
    if v is None:
        return "N"
    if v is True:
        return "T"
    if v is False:
        return "F"
    if isinstance(v, int):
        return "I" + str(v)
    if isinstance(v, pathlib.PurePath):
        return "S" + enc(str(v))
    if isinstance(v, str):
        return "S" + enc(v)
    if isinstance(v, (list, tuple)):
        return "L" + "+".join(show_scalar(x) for x in v)
    raise Unsupported(repr(v))


def norm_model_val(dest, txt, path_dests):
    """The model keeps a `pathlib.Path` argument as typed; the implementation's value is `str(Path(raw))`."""
    if dest in path_dests and txt.startswith("L") and len(txt) > 1:
        items = []
        for it in txt[1:].split("+"):
            if it.startswith("s"):
                items.append("s" + enc(str(pathlib.Path(common.dec(it[1:])))))
            else:
                items.append(it)
        return "L" + "+".join(items)
    return txt


# ---------------------------------------------------------------------------------------------------------------
# implementation
# ---------------------------------------------------------------------------------------------------------------
_ERR = [
    (re.compile(r"ambiguous option: (.*?) could match ", re.S), lambda m: "ambiguous:" + enc(m.group(1))),
    (re.compile(r"argument (.*?): expected one argument"), lambda m: "expected-one-argument:" + enc(m.group(1))),
    (re.compile(r"argument (.*?): ignored explicit argument"), lambda m: "ignored-explicit-argument:" + enc(m.group(1))),
    (re.compile(r"argument (.*?): invalid choice:"), lambda m: "invalid-choice:" + enc(m.group(1))),
    (re.compile(r"argument (.*?): invalid .*? value:"), lambda m: "invalid-value:" + enc(m.group(1))),
    (re.compile(r"Logic error: use of --omit-serialization-support"), lambda m: "logic"),
]


class Impl:
    def __init__(self):
        import nunavut.cli
        import nunavut.cli.runners as runners
        import nunavut._generators as gens
        self.cli = nunavut.cli
        self.runners = runners
        self.gens = gens
        self.parser = nunavut.cli._make_parser()
        self.path_dests = {a.dest for a in self.parser._actions if a.type is pathlib.Path}
        self.flags = [o for a in self.parser._actions for o in a.option_strings]
        self.actions = list(self.parser._actions)

    def parse(self, argv):
        """-> ("ok", namespace) | ("exit0", what) | ("err", text)"""
        out, err = io.StringIO(), io.StringIO()
        try:
            with contextlib.redirect_stdout(out), contextlib.redirect_stderr(err):
                ns = self.parser.parse_args(list(argv))
            return "ok", ns
        except SystemExit as e:
            code = e.code
            if code in (0, None):
                return "exit0", ("help" if out.getvalue().startswith("usage:") else "version")
            text = err.getvalue()
            i = text.rfind(": error: ")
            msg = text[i + 9:] if i >= 0 else text
            for rx, f in _ERR:
                m = rx.match(msg)
                if m:
                    return "err", f(m)
            if msg.startswith("unrecognized arguments: "):
                return "err", "unrecognized-text:" + msg[len("unrecognized arguments: "):].rstrip("\n")
            return "err", "other:" + msg[:200]

    def answer(self, argv):
        """The implementation's counterpart of the driver's first answer fields: status and namespace."""
        kind, x = self.parse(argv)
        if kind == "exit0":
            return {"status": "exit0:" + x}
        if kind == "err":
            return {"status": "err:" + x}
        try:
            nsd = {k: show_val(v) for k, v in vars(x).items()}
        except Unsupported as e:
            return {"status": "ok", "ns": None, "unsupported": str(e), "args": x}
        return {"status": "ok", "ns": nsd, "args": x}

    # ---- the runner with recording generators ------------------------------------------------------------------
    def plan(self, args):
        """Construct the real runner on `args` and run it; -> {"crash": repr} | {"calls": [...], "pps": [...]}"""
        runners, gens = self.runners, self.gens
        rec = {"calls": [], "pps": None, "stage": "init"}

        def mk(name):
            class Recorder(gens.AbstractGenerator):
                def get_templates(self, **kw):
                    rec["calls"].append((name, "get_templates", dict(kw)))
                    return []

                def generate_all(self, *a, **kw):
                    if a:
                        raise AssertionError("positional arguments to generate_all")
                    rec["calls"].append((name, "generate_all", dict(kw)))
                    return []
            return Recorder

        def fake_create(namespace, **kw):
            rec["pps"] = kw.get("post_processors")
            gnt = kw.get("generate_namespace_types")
            g = mk("_generator")(namespace, gnt)
            s = mk("_support_generator")(namespace, gnt)
            rec["same_list"] = True   # both constructors receive **kwargs of the same dict: the same list object
            return g, s

        saved = (runners.create_default_generators, runners.read_dsdl_namespace)
        runners.create_default_generators = fake_create
        runners.read_dsdl_namespace = lambda *a, **k: []
        out, err = io.StringIO(), io.StringIO()
        try:
            with contextlib.redirect_stdout(out), contextlib.redirect_stderr(err):
                extra = args.lookup_dir if args.lookup_dir is not None else []
                try:
                    runner = runners.ArgparseRunner(args.root_namespace, args, extra)
                except BaseException as e:  # noqa
                    return {"crash": type(e).__name__ + ": " + str(e)[:160]}
                rec["stage"] = "run"
                ns_obj = runner._root_namespace
                for fn in ("get_all_types", "get_all_datatypes"):
                    orig = getattr(ns_obj, fn)

                    def wrapped(*a, _fn=fn, _orig=orig, **k):
                        rec["calls"].append(("_root_namespace", _fn, {}))
                        return _orig(*a, **k)
                    setattr(ns_obj, fn, wrapped)
                for fn in [n for n in ("_lookup_dsdl_files",) if hasattr(runner, n)]:
                    orig = getattr(runner, fn)

                    def wrapped_self(*a, _fn=fn, _orig=orig, **k):
                        rec["calls"].append(("self", _fn, dict(k)))
                        return _orig(*a, **k)
                    setattr(runner, fn, wrapped_self)
                try:
                    runner.run()
                except BaseException as e:  # noqa
                    return {"crash_in_run": type(e).__name__ + ": " + str(e)[:160], "calls": rec["calls"]}
        finally:
            runners.create_default_generators, runners.read_dsdl_namespace = saved
        return {"calls": rec["calls"], "pps": rec["pps"]}

    @staticmethod
    def show_pp(pp):
        n = type(pp).__name__
        if n == "TrimTrailingWhitespace":
            return "trim"
        if n == "LimitEmptyLines":
            return "limit:" + show_val(pp._max_empty_lines)
        if n == "ExternalProgramEditInPlace":
            return "prog:" + "+".join(show_scalar(x) for x in pp._command_line)
        if n == "SetFileMode":
            return "mode:" + show_val(pp._file_mode)
        raise Unsupported(n)

    @staticmethod
    def show_call(method, c):
        target, fn, kw = c
        return method + ":" + target + "." + fn + "(" + "+".join(k + "=" + show_val(v) for k, v in kw.items()) + ")"


MODE_METHOD = {"list-outputs": "_list_outputs_only", "list-inputs": "_list_inputs_only", "list-configuration": None,
               "dry-run": "_generate", "generate": "_generate"}


def parse_model(ans):
    """driver answer -> dict(status, ns, mode, pps, calls)"""
    if ans is None or ans == "bad-op":
        return None
    if not ans.startswith("ok "):
        return {"status": ans}
    r = {"status": "ok"}
    for f in ans.split(" ")[1:]:
        k, _, v = f.partition("=")
        r[k] = v
    ns = {}
    for item in r["ns"].split(","):
        k, _, v = item.partition("=")
        ns[k] = v
    r["ns"] = ns
    return r


# ---------------------------------------------------------------------------------------------------------------
# argument vectors
# ---------------------------------------------------------------------------------------------------------------
VALUES = ["x", "out", "a/b", ".h", "h", "", " ", "a b", "-", "--", "-1", "-1.5", "-.5", "-1\n", "-x", "--nope", "0", "7", "0o644", "0O7_7", "0644", "00",
          "0x1fF", "0x_1", "0x", "0b101", "1_000", "1__0", "_1", "1_", " 12 ", "\t5\n", "+5", "-0", "- 1", "1e3", "99999999999", "-2147483649",
          "always", "never", "as-needed", "only", "alway", "big", "little", "any", "c11", "c++17", "c++17-pmr", "c", "cpp", "py", "html",
          "js", "nope", "=", "a=b", "=x", "cfg.yaml", "d/../e//f/", "./g", "prog", "-i", "--style=file"]

CORPUS = [
    [], ["ns"], ["--", "ns"], ["ns", "--"], ["--"], ["--", "--"], ["a", "b"], ["ns", "--", "x"], ["--", "a", "b"],
    ["-l", "c", "ns"], ["-lc"], ["-lcpp"], ["-l", "c", "-lc"], ["-lc", "ns", "-l", "py"], ["-vd"], ["-dv"], ["-vvv"], ["-vlc"], ["-vl", "c"],
    ["-vlcpp"], ["-dO", "x"], ["-dOx"], ["-d=1"], ["--dry-run=1"], ["--dry-run="], ["-pod"], ["-po"], ["-p"], ["-pp"], ["-pp-r"], ["-pp-rp", "x"],
    ["-pp-rpa", "a", "-pp-rpa=b", "--pp-run-program-arg", "c"], ["-Xlang"], ["-X"], ["-Xl"], ["-std", "c11"], ["-std=c++17"], ["-st", "c11"],
    ["-s", "c11"], ["--lis"], ["--list"], ["--list-o"], ["--list-i"], ["--list-c"], ["--list-configuration", "--list-outputs"],
    ["--list-outputs", "--list-inputs", "--list-configuration", "--dry-run"], ["--dry"], ["--d"], ["--no"], ["--no-o"], ["--n"],
    ["--file-mode", "0o644"], ["--file-mode=0644"], ["--file-mode", "-1"], ["--file-mode", " 0x1ff "], ["--file-mode"], ["--file-mode", "--"],
    ["--file-mode=--"], ["--outdir=--", "ns"], ["--outdir", "--", "x"], ["--outdir"], ["-O"], ["-O", "-d"], ["-O=", "ns"], ["-O", "", "ns"],
    ["--generate-support=--"], ["--generate-support", "always", "-pod"], ["-pod", "--generate-support=only"], ["--generate-support", "alway"],
    ["--generate-support", "always", "--omit-serialization-support", "zzz", "yyy"], ["--omit", "--generate-support", "always"],
    ["-c"], ["-c", "a", "b", "ns"], ["-c", "a", "--", "ns"], ["ns", "-c", "a", "b"], ["-c", "a", "-c", "b"], ["-ca"], ["-c=a"], ["-c", "--", "--"],
    ["--configuration", "x", "--list-configuration"], ["-e", "h"], ["-e.h"], ["-e", ""], ["-e="], ["--output-extension", "a/b"],
    ["-I", "a", "-Ib", "--lookup-dir=c", "--lookup", "d"], ["-I=--"], ["--pp-max-emptylines", "2"], ["--pp-max-emptylines", "0x2"],
    ["--pp-max-emptylines", "0_2"], ["--pp-max-emptylines", " 3 "], ["--pp-m", "1"], ["--pp-t"], ["--pp", "1"], ["--pp-run-p", "x"],
    ["--pp-run-program", "p", "--pp-run-program-arg=-i"], ["--version"], ["--version", "--bogus"], ["--bogus", "--version"], ["-h"], ["--help"],
    ["--he"], ["--h"], ["--ver"], ["--v"], ["--verb"], ["--outdir", "x", "--help"], ["--help", "--outdir"], ["--file-mode", "zz", "--help"],
    ["--help", "--file-mode", "zz"], ["--lis", "--help"], ["-1"], ["-1", "ns"], ["ns", "-1"], ["-1.5"], ["-.5"], ["-x"], ["- x"], ["-x y"], ["--x y"],
    ["--target-language", "c", "--no-overwrite", "--file-mode", "0o600", "ns"], ["--target-endianness", "big"], ["--target-endianness", "middle"],
    ["--target", "c"], ["--target-l", "c"], ["--target-e", "any"], ["--omit-f"], ["--omit-s"], ["--enable"], ["--enable-s"], ["--trim"], ["--l"],
    ["--lstrip"], ["--allow"], ["--embed"], ["--templates", "t", "--support-templates", "s"], ["--templates=--"], ["--namespace-output-stem", "x"],
    ["--generate-namespace-types"], ["--generate"], ["--generate-n"], ["--generate-s", "never"], ["-l", "html", "--outdir=--"],
]


def exhaustive(impl):
    out = []
    for f in impl.flags:
        for n in range(2, len(f) + 1):
            p = f[:n]
            out.append([p])
            out.append([p, "x"])
        out.append([f + "=v"])
        out.append([f + "="])
        out.append([f, "--"])
        out.append([f, "-1"])
        if not f.startswith("--"):
            out.append([f + "v"])
            out.append([f + "d"])
            out.append(["-d" + f[1:]])
            out.append(["-v" + f[1:], "x"])
    return out


def random_argvs(rng, impl, n, bias=None):
    flags = impl.flags
    takes = {o: a.nargs != 0 for a in impl.actions for o in a.option_strings}
    shorts = [f[1:] for f in flags if len(f) == 2]
    out = []
    for _ in range(n):
        argv = []
        for _ in range(rng.choice([0, 1, 1, 2, 2, 3, 3, 4, 5, 6, 8])):
            r = rng.random()
            f = rng.choice(bias) if bias and rng.random() < 0.5 else rng.choice(flags)
            if r < 0.30:
                argv.append(f)
                if takes[f] and rng.random() < 0.85:
                    argv.append(rng.choice(VALUES))
            elif r < 0.42:
                argv.append(f[:rng.randint(2, len(f))])
                if takes[f] and rng.random() < 0.7:
                    argv.append(rng.choice(VALUES))
            elif r < 0.52:
                argv.append(f + "=" + rng.choice(VALUES))
            elif r < 0.60:
                argv.append("-" + "".join(rng.choice(shorts) for _ in range(rng.randint(1, 4))) + rng.choice(["", "", "x", "=y"]))
            elif r < 0.66 and not f.startswith("--"):
                argv.append(f + rng.choice(VALUES))
            elif r < 0.72:
                argv += ["--target-language", rng.choice(LANG_NAMES)]
            elif r < 0.75:
                argv.append("--")
            else:
                argv.append(rng.choice(VALUES))
        out.append(argv)
    return out


def runnable_argvs(rng, n, nsdir="."):
    """Command lines the runner can be constructed from: a real language, then random decision-relevant options."""
    out = []
    for _ in range(n):
        argv = ["--target-language", rng.choice(["c", "cpp", "py", "html", "c", "py", "nope"])]
        opts = [["--experimental-languages"], ["-Xlang"], ["--dry-run"], ["-d"], ["--list-outputs"], ["--list-inputs"], ["--list-configuration"], ["-lc"],
                ["--no-overwrite"], ["--no-o"], ["--omit-serialization-support"], ["-pod"], ["--embed-auditing-info"],
                ["--generate-namespace-types"], ["--generate-support", "always"], ["--generate-support", "never"], ["--generate-support=only"],
                ["--generate-support", "as-needed"], ["--generate-support=--"], ["--file-mode", "0o644"], ["--file-mode=0"], ["--file-mode", "-1"],
                ["--file-mode", "0x1FF"], ["--file-mode=--"], ["--pp-trim-trailing-whitespace"], ["--pp-max-emptylines", "2"], ["--pp-max-emptylines=0"],
                ["-pp-rp", "prog"], ["--pp-run-program=fmt"], ["-pp-rpa", "-i"], ["--pp-run-program-arg=--style=file"], ["-pp-rp=--"], ["-O", "out"], ["-l", "js"], ["--target-language=ts"],
                ["--outdir=a/b/"], ["--outdir=--"], ["-e", "hh"], ["-e="], ["--namespace-output-stem", "nsx"], ["--templates", "t"], ["--support-templates=s"],
                ["--trim-blocks"], ["--lstrip-blocks"], ["-v"], ["-vd"], ["-I", "inc"], [nsdir], ["--", nsdir], ["-l", "py"], ["-lcpp"]]
        for _ in range(rng.choice([0, 1, 2, 3, 4, 5, 7])):
            argv += rng.choice(opts)
        rng.shuffle(argv) if rng.random() < 0.15 else None
        out.append(argv)
    return out


# ---------------------------------------------------------------------------------------------------------------
# comparison
# ---------------------------------------------------------------------------------------------------------------
def compare_parse(ctx, stream, impl, argvs, answers, fail_hook=None):
    """Parser correspondence.  Returns [(argv, impl answer, model answer)] for the accepted ones."""
    accepted = []
    for argv, ans in zip(argvs, answers):
        m = parse_model(ans)
        r = impl.answer(argv)
        st = r["status"].split(":")[0]
        ctx.case((stream, tuple(argv)), st != "ok" or len(argv) > 0)
        ctx.count(f"argv:{st}")
        ctx.traces += 1
        if m is None:
            ctx.disagree(stream + ":driver", {"argv": argv}, ans, "request not understood")
            continue
        if m["status"] == "err:unsupported":
            ctx.count("argv:model-unsupported")
            continue
        want = r["status"]
        if want.startswith("err:unrecognized-text:"):
            # the message joins the left-over strings with blanks
            if m["status"].startswith("err:unrecognized:"):
                items = [common.dec(x) for x in m["status"][len("err:unrecognized:"):].split("+")]
                if " ".join(items).rstrip("\n") == want[len("err:unrecognized-text:"):].rstrip("\n"):
                    continue
            ctx.disagree(stream + ":status", {"argv": argv}, m["status"], want)
            continue
        if m["status"] != want:
            ctx.disagree(stream + ":status", {"argv": argv}, m["status"], want)
            continue
        if st != "ok":
            continue
        if r["ns"] is None:
            ctx.count("argv:impl-value-outside-encoding")
            continue
        mns = {k: norm_model_val(k, v, impl.path_dests) for k, v in m["ns"].items()}
        if mns != r["ns"]:
            diff = {k: (mns.get(k), r["ns"].get(k)) for k in set(mns) | set(r["ns"]) if mns.get(k) != r["ns"].get(k)}
            ctx.disagree(stream + ":namespace", {"argv": argv}, {k: v[0] for k, v in diff.items()}, {k: v[1] for k, v in diff.items()})
            continue
        if list(mns) != list(r["ns"]):
            ctx.disagree(stream + ":namespace-order", {"argv": argv}, list(mns), list(r["ns"]))
        accepted.append((argv, r, m))
    return accepted


def compare_plan(ctx, stream, impl, accepted, oracle=None):
    """Runner-glue correspondence on accepted command lines: mode, calls with keyword values, post-processor list."""
    import os
    for argv, r, m in accepted:
        args = r["args"]
        if not (isinstance(args.root_namespace, str) and os.path.isdir(args.root_namespace)):
            ctx.count("plan:skipped-no-such-root-directory")   # which directories exist is not part of the model
            continue
        if args.configuration:
            ctx.count("plan:skipped-configuration-files")       # their content is C13's
            continue
        if isinstance(args.target_language, str) and args.target_language in OUTSIDE_TABLE:
            ctx.count("plan:skipped-language-outside-table")
            continue
        p = impl.plan(args)
        ctx.traces += 1
        ctx.case((stream, "plan", tuple(argv)), True)
        if "crash" in p and (p["crash"].startswith("ValueError: Invalid suffix") or "has an empty name" in p["crash"]):
            ctx.count("plan:skipped-output-path-error")     # `build_namespace_tree`: the decision model's `buildTree` (C08 grid)
            continue
        if "crash" in p:
            ctx.count("plan:runner-raises")
            if m["calls"] != "!":
                ctx.disagree(stream + ":plan-crash", {"argv": argv}, "runner constructed", p["crash"])
            continue
        if m["calls"] == "!" or m["mode"] == "!":
            ctx.disagree(stream + ":plan-crash", {"argv": argv}, "the runner raises before a generator is called", "constructed and run")
            continue
        ctx.count("plan:mode=" + m["mode"])
        method = MODE_METHOD[m["mode"]]
        if "crash_in_run" in p:
            ctx.disagree(stream + ":plan-run", {"argv": argv}, m["mode"], p["crash_in_run"])
            continue
        try:
            got_calls = [impl.show_call(method or "-", c) for c in p["calls"]]
            got_pps = [impl.show_pp(x) for x in p["pps"]]
        except Unsupported as e:
            ctx.count("plan:impl-value-outside-encoding")
            continue
        want_calls = [c for c in ([] if m["calls"] in ("!", "@", "") else m["calls"].split(",")) if method is not None and c.startswith(method + ":")]
        if got_calls != want_calls:
            ctx.disagree(stream + ":calls", {"argv": argv, "mode": m["mode"]}, want_calls, got_calls)
        want_pps = [] if m["pps"] == "!" else m["pps"].split(",")
        if got_pps != want_pps:
            ctx.disagree(stream + ":post-processors", {"argv": argv}, want_pps, got_pps)
        if oracle is not None:
            oracle(argv, args, p)
