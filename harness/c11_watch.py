"""
Observers for C11's clause "nothing is created outside the output directory", on *operations* and by *physical* location
(symbolic links and `..` resolved by the operating system, never lexically):

* `Watch`: an in-process observer - a `sys.addaudithook` hook (installed once, armed only inside the `with` block) that
  records every creating operation (opens for writing, mkdir, rename/replace/link/symlink targets, shutil moves and copies,
  tempfile scratch names) with the physical path it acts on at that moment; while armed `TMPDIR` points at a scratch
  directory inside the caller's sandbox, so that anything parked in "the temporary directory" shows up in the sandbox
  snapshot as well.
* `strace_events`: the same from `strace -f` of a subprocess (an observer that does not depend on Python's audit events).
* `snapshot`, `physical`, `inside`, `ancestor_or_self`: the location predicates.

Nothing here knows about the model; the predicates are used by the failing-input search of harness/c11.py.
"""
import os
import re
import shlex
import subprocess
import sys
import tempfile

_WRITE_FLAGS = os.O_WRONLY | os.O_RDWR | os.O_CREAT | os.O_TRUNC | os.O_APPEND
_STATE = {"installed": False, "armed": False, "busy": False, "events": None}
_NOISE = ("/__pycache__/", ".pyc")


def physical(path, cwd=None):
    """Where the operating system puts the directory entry `path` names: the parent directory resolved (links, `..`),
    the last component kept (the entry itself is what gets created; it may not exist yet)."""
    p = os.fsdecode(path)
    if not os.path.isabs(p):
        p = os.path.join(cwd or os.getcwd(), p)
    stripped = p.rstrip("/") or "/"
    head, tail = os.path.split(stripped)
    if tail in ("", ".", ".."):
        return os.path.realpath(stripped)
    return os.path.join(os.path.realpath(head), tail)


def inside(p, top):
    return p == top or p.startswith(top.rstrip("/") + "/")


def ancestor_or_self(p, top):
    return p == top or top.startswith(p.rstrip("/") + "/")


def _hook(event, args):
    st = _STATE
    if not st["armed"] or st["busy"]:
        return
    st["busy"] = True
    try:
        paths = []
        if event == "open":
            path, mode, flags = (list(args) + [None, None, None])[:3]
            if isinstance(path, (str, bytes, os.PathLike)) and (
                    (isinstance(flags, int) and flags & _WRITE_FLAGS) or (isinstance(mode, str) and any(c in mode for c in "wax+"))):
                paths = [("open-w", path)]
        elif event == "os.mkdir":
            paths = [("mkdir", args[0])]
        elif event in ("os.rename", "os.link", "os.symlink", "shutil.move", "shutil.copyfile", "shutil.copytree"):
            paths = [(event + ":dst", args[1])]
            if event in ("os.rename", "shutil.move"):
                paths.append((event + ":src", args[0]))
        elif event in ("tempfile.mkdtemp", "tempfile.mkstemp"):
            paths = [(event, args[0])]
        for kind, p in paths:
            if isinstance(p, (str, bytes, os.PathLike)):
                q = physical(p)
                if not any(n in q for n in _NOISE):
                    st["events"].append((kind, q))
    except Exception as ex:  # noqa: BLE001 - an observer must never change the run it observes
        st["events"].append(("observer-error", f"{event}: {type(ex).__name__}: {ex}"[:200]))
    finally:
        st["busy"] = False


class Watch:
    """with Watch(tmpdir) as w: ...   ->  w.events = [(kind, physical path)]"""

    def __init__(self, tmpdir):
        self.tmpdir = str(tmpdir)
        self.events = []

    def __enter__(self):
        if not _STATE["installed"]:
            sys.addaudithook(_hook)
            _STATE["installed"] = True
        os.makedirs(self.tmpdir, exist_ok=True)
        self._old_env = os.environ.get("TMPDIR")
        self._old_tempdir = tempfile.tempdir
        os.environ["TMPDIR"] = self.tmpdir
        tempfile.tempdir = None          # re-read TMPDIR on next use
        _STATE["events"] = self.events
        _STATE["armed"] = True
        return self

    def __exit__(self, *exc):
        _STATE["armed"] = False
        _STATE["events"] = None
        if self._old_env is None:
            os.environ.pop("TMPDIR", None)
        else:
            os.environ["TMPDIR"] = self._old_env
        tempfile.tempdir = self._old_tempdir
        return False


def snapshot(top):
    """Every directory entry below `top` (not following links) as a physical path; `top` itself must be physical."""
    out = set()
    for r, dirs, files in os.walk(top, followlinks=False):
        for f in files + dirs:
            out.add(os.path.join(r, f))
    return out


# ------------------------------------------------------------------------------------------------------------
# strace
# ------------------------------------------------------------------------------------------------------------
TRACE_SET = "openat,open,creat,mkdir,mkdirat,rename,renameat,renameat2,link,linkat,symlink,symlinkat,chdir,fchdir"
_LINE = re.compile(r"^(\d+)\s+(\w+)\((.*)\)\s+=\s+(-?\d+)")
_STR = re.compile(r'"((?:[^"\\]|\\.)*)"')


def _unescape(s):
    return bytes(s, "latin-1").decode("unicode_escape").encode("latin-1").decode("utf-8", "replace")


def strace_run(argv, cwd, env, trace_file, timeout=180):
    cmd = ["strace", "-f", "-s", "4096", "-e", "trace=" + TRACE_SET, "-o", str(trace_file)] + list(argv)
    return subprocess.run(cmd, cwd=cwd, env=env, capture_output=True, text=True, timeout=timeout)


def strace_events(trace_file, cwd):
    """Successful creating system calls of the trace as [(kind, physical path)] (resolved after the run; a process that
    changes its working directory makes the trace unusable: reported as an observer error)."""
    ev = []
    for line in open(trace_file, errors="replace"):
        m = _LINE.match(line)
        if not m:
            continue
        _pid, call, rawargs, ret = m.group(1), m.group(2), m.group(3), int(m.group(4))
        if ret < 0:
            continue
        strs = [_unescape(x) for x in _STR.findall(rawargs)]
        if call in ("chdir", "fchdir"):
            ev.append(("observer-error", "the traced process changed its working directory"))
            continue
        if call in ("open", "openat", "creat"):
            if not strs or not re.search(r"O_WRONLY|O_RDWR|O_CREAT|O_TRUNC|O_APPEND", rawargs) and call != "creat":
                continue
            if "AT_FDCWD" not in rawargs and call == "openat" and not strs[0].startswith("/"):
                continue
            ev.append(("open-w", strs[0]))
        elif call in ("mkdir", "mkdirat"):
            if strs:
                ev.append(("mkdir", strs[0]))
        elif call in ("rename", "renameat", "renameat2", "link", "linkat", "symlink", "symlinkat"):
            if len(strs) >= 2:
                ev.append((call + ":dst", strs[1]))
                if call.startswith("rename"):
                    ev.append((call + ":src", strs[0]))
    out = []
    for kind, p in ev:
        if kind == "observer-error":
            out.append((kind, p))
            continue
        q = physical(p, cwd)
        if q.startswith(("/dev/", "/proc/")) or any(n in q for n in _NOISE):
            continue
        out.append((kind, q))
    return out


def shell_line(argv):
    return " ".join(shlex.quote(a) for a in argv)
