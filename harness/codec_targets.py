"""
codec_targets — generate, build and drive the C / C++ / Python codecs of a dsdlgen.Namespace.

For one namespace:  ``nnvg`` of the tree under check (``[common.PY, "-m", "nunavut", ...]``, PYTHONPATH=$VERIF_REPO/src)
generates each target/option set into its own directory; a *shim* generated here by walking the PyDSDL model (never
from Nunavut's templates) parses protocol values into the generated struct / class, calls the generated
serialize / deserialize and prints protocol answers.  C and C++: one program per (namespace, option set) with every
type, dispatched on the type index; Python: a worker subprocess (harness/codec_pyworker.py).

Requests to a target (``Target.ask(lines)``): the lines of CODEC_PROTOCOL.md with the type expression replaced by
the type index, plus
    rt <idx> <V>      -> ok <hex> <V'> <consumed> <hex2>     in-memory round trip: serialize, deserialize the produced
                                                             bytes into a fresh object, dump it, serialize it again
    dereuse <idx> <hexA> <hexB>  -> as ``de <hexB>``         A is decoded into an object first (outcome ignored), then B into
                                                             the SAME object (C: same struct, C++: same instance incl. its
                                                             containers / variant, Python: a second call)
    rtreuse <idx> <V1> | <V2>    -> as ``rt <V2>``           V1 makes the round trip first; V2 is then parsed / assigned into the
                                                             SAME source object and decoded into the SAME destination object
    api <idx>                    -> ok <7 return codes>      C only: NULL-argument conventions of the generated functions
``de`` is answered for the primary spelling of the call and compared, inside the shim / worker, with other spellings of
the same input (C, C++: the representation as a sub-range of a larger buffer with other data around it; C: NULL buffer of
size 0 and _initialize_ for the empty input; Python: fragment lists, see codec_pyworker.py); ``ser``/``rt`` on Python
likewise for the spellings of primitive arrays.  A spelling that answers differently is reported as
``err:spelling:<name>:<its answer>``.
Floats: a NaN token reaches a `float` storage field bit by bit (sign, leading 23 mantissa bits of the binary64 token, quiet
bit as given), so that signalling NaNs / NaNs with payload only in the low mantissa bits exist in memory.
Answers beyond the protocol: ``n/a`` (request not expressible on this target: see codec_pyworker.py; C++: option
index >= option count), ``crash:<rc>`` (the process died on this request; it is restarted for the next one),
``err:overrun`` (guard bytes around the output buffer were modified), ``err:invalid-argument``.

Error mapping C / C++: return code -3 / Error::SerializationBufferTooSmall -> buffer-too-small, -10 -> bad-array-length,
-11 -> bad-union-tag, -12 -> bad-delimiter-header, -2 -> invalid-argument.
"""
import concurrent.futures
import fcntl
import json
import os
import pathlib
import shutil
import subprocess
import tempfile

import pydsdl

from . import common
from . import dsdlgen

HERE = pathlib.Path(__file__).resolve().parent
NCPU = max(2, min(16, os.cpu_count() or 4))


# ------------------------------------------------------------------------------------------------------------
# nnvg
# ------------------------------------------------------------------------------------------------------------

def run_nnvg(ns, lang, outdir, args=(), timeout=600):
    """Run the working tree's generator. Returns (ok, log)."""
    env = dict(os.environ)
    env["PYTHONPATH"] = str(common.REPO / "src")
    env["PYTHONDONTWRITEBYTECODE"] = "1"
    cmd = [common.PY, "-m", "nunavut", "--experimental-languages", "--target-language", lang, "--outdir", str(outdir)]
    cmd += list(ns.nnvg_flags) + list(args) + [str(ns.root)]
    try:
        p = subprocess.run(cmd, capture_output=True, text=True, timeout=timeout, env=env, cwd=str(outdir.parent if outdir.parent.exists() else "/"))
    except subprocess.TimeoutExpired:
        return False, "nnvg timed out"
    return p.returncode == 0, (p.stdout + p.stderr)[-4000:]


def ensure_numpy():
    """Directory to put on PYTHONPATH so that the generated Python code finds NumPy ('' if /venv has it)."""
    p = subprocess.run([common.PY, "-c", "import numpy"], capture_output=True)
    if p.returncode == 0:
        return ""
    base = pathlib.Path(os.environ.get("VERIF_SCRATCH_BASE") or tempfile.gettempdir())
    dest = base / "nv_codec_numpy"
    with open(str(dest) + ".lock", "w") as lk:
        fcntl.flock(lk, fcntl.LOCK_EX)
        ok = (dest / "numpy" / "__init__.py").exists() and subprocess.run(
            [common.PY, "-c", "import numpy"], capture_output=True, env=dict(os.environ, PYTHONPATH=str(dest))).returncode == 0
        if not ok:
            shutil.rmtree(dest, ignore_errors=True)
            p = subprocess.run([common.PY, "-m", "pip", "install", "--quiet", "--no-index", "--find-links", "/opt/veriftools/wheels",
                                "--target", str(dest), "numpy"], capture_output=True, text=True, timeout=600)
            if p.returncode != 0:
                raise RuntimeError("cannot install numpy for the generated Python code: " + p.stderr[-1000:])
    return str(dest)


# ------------------------------------------------------------------------------------------------------------
# targets
# ------------------------------------------------------------------------------------------------------------

class Target:
    """One executable realisation of the codecs of a namespace."""
    lang = "?"

    def __init__(self, name, options):
        self.name = name            # e.g. "c/any", "cpp/c++17", "py"
        self.options = options      # dict, travels into replays
        self.build_log = ""
        self.ok = False

    def ask(self, lines, timeout=900):
        raise NotImplementedError

    def close(self):
        pass


class BatchProcessTarget(Target):
    """A compiled shim: feed request lines on stdin, one answer line each; survive crashes."""
    exe = None
    env = None

    max_crashes_per_type = 4

    def _run_group(self, lines, timeout):
        """Lines of one type through one process (restarted after a crash; gives up after a few crashes)."""
        answers, start, n, crashes = [], 0, len(lines), 0
        while start < n:
            data = ("\n".join(lines[start:]) + "\n").encode()
            try:
                p = subprocess.run([str(self.exe)], input=data, capture_output=True, timeout=timeout, env=self.env)
                out, rc, err = p.stdout.decode(errors="replace").split("\n"), p.returncode, p.stderr.decode(errors="replace")[-1500:]
            except subprocess.TimeoutExpired as ex:
                out, rc, err = (ex.stdout or b"").decode(errors="replace").split("\n"), "timeout", ""
            out.pop()               # "" after the final newline, or the incomplete last line of a crashed process
            out = out[: n - start]
            answers += out
            start += len(out)
            if start < n:
                why = ""
                for l in err.strip().splitlines():
                    if "ERROR" in l or "runtime error" in l or "Assertion" in l:
                        why = l.strip()[:200]
                        break
                answers.append(f"crash:{rc}:{why}")
                start += 1
                crashes += 1
                if crashes >= self.max_crashes_per_type:
                    answers += ["crash:skipped-after-repeated-crashes"] * (n - start)
                    break
        return answers

    def ask(self, lines, timeout=900):
        """Requests are grouped by type index and the groups run in parallel processes."""
        groups = {}
        for i, l in enumerate(lines):
            parts = l.split(" ", 2)
            groups.setdefault(parts[1] if len(parts) > 1 else "", []).append(i)
        answers = [None] * len(lines)
        with concurrent.futures.ThreadPoolExecutor(max_workers=NCPU) as ex:
            futs = {ex.submit(self._run_group, [lines[i] for i in idxs], timeout): idxs for idxs in groups.values()}
            for f, idxs in futs.items():
                for i, a in zip(idxs, f.result()):
                    answers[i] = a
        return answers


class _PyWorker:
    """One worker subprocess of the Python target."""

    def __init__(self, outdir, numpy_dir, optimize=False, ndarray=False, alts=None):
        self.outdir, self.numpy_dir, self.optimize, self.ndarray, self.alts = outdir, numpy_dir, optimize, ndarray, alts
        self.proc = None

    def _start(self):
        env = dict(os.environ)
        env["PYTHONPATH"] = os.pathsep.join([str(self.outdir / "gen")] + ([self.numpy_dir] if self.numpy_dir else []))
        env["PYTHONDONTWRITEBYTECODE"] = "1"
        env.pop("PYTHONOPTIMIZE", None)
        if self.ndarray:
            env["CODEC_PY_NDARRAY"] = "1"
        if self.alts is not None:       # (alternative array spellings per ser/rt, alternative fragment spellings per de/rt)
            env["CODEC_PY_ALT_ARRAY"], env["CODEC_PY_ALT_FRAG"] = str(self.alts[0]), str(self.alts[1])
        self.proc = subprocess.Popen([common.PY] + (["-O"] if self.optimize else []) + [str(HERE / "codec_pyworker.py"), str(self.outdir / "types.json")],
                                     stdin=subprocess.PIPE, stdout=subprocess.PIPE, stderr=subprocess.PIPE, env=env, text=True, bufsize=1)
        first = self.proc.stdout.readline().strip()
        if first != "ready":
            err = self.proc.stderr.read()[-2000:]
            self.proc = None
            raise RuntimeError("python codec worker did not start: " + err)

    def _exchange(self, lines):
        """Write all, read all (a thread feeds stdin so that large batches cannot deadlock on pipe buffers)."""
        import threading
        proc = self.proc

        def feed():
            try:
                for l in lines:
                    proc.stdin.write(l + "\n")
                proc.stdin.flush()
            except (BrokenPipeError, ValueError):
                pass
        th = threading.Thread(target=feed, daemon=True)
        th.start()
        out = []
        for _ in lines:
            a = proc.stdout.readline()
            if not a:
                break
            out.append(a.rstrip("\n"))
        th.join(timeout=5)
        return out

    def ask(self, lines):
        answers = []
        start, n = 0, len(lines)
        while start < n:
            if self.proc is None or self.proc.poll() is not None:
                self._start()
            out = self._exchange(lines[start:])
            answers += out
            start += len(out)
            if start < n:
                rc = self.proc.poll()
                try:
                    err = self.proc.stderr.read()[-300:]
                except Exception:
                    err = ""
                self.proc = None
                answers.append(f"crash:{rc}:{err.strip().splitlines()[-1][:200] if err.strip() else ''}")
                start += 1
        return answers

    def close(self):
        if self.proc is not None:
            try:
                self.proc.stdin.close()
                self.proc.wait(timeout=5)
            except Exception:
                self.proc.kill()
            self.proc = None


class PyTarget(Target):
    lang = "py"
    n_workers = 4

    def __init__(self, ns, outdir, numpy_dir, optimize=False, ndarray=False, alts=None):
        """optimize: run the generated code under `python -O` (assert statements do not exist there);
        ndarray: hand primitive arrays to the setters as ndarrays of the exact dtype (zero-copy fast path);
        alts: (n, m) = every ser/rt also under n alternative spellings of its primitive arrays, every de/rt also under m
        alternative spellings of the fragment list (None: the worker's defaults 2, 3; see codec_pyworker.py)."""
        name = "py" + ("/-O" if optimize else "") + ("+ndarray" if ndarray else "")
        super().__init__(name, {"lang": "py", "python_optimize": optimize, "ndarray_inputs": ndarray, "alternative_spellings": list(alts) if alts else "default"})
        self.ns, self.outdir, self.numpy_dir = ns, pathlib.Path(outdir), numpy_dir
        self.optimize, self.ndarray, self.alts = optimize, ndarray, alts
        self.workers = []

    def build(self):
        self.outdir.mkdir(parents=True, exist_ok=True)
        gen = self.outdir / "gen"
        ok, log = run_nnvg(self.ns, "py", gen)
        self.build_log = log
        if not ok:
            return False
        desc = [py_type_desc(gt) for gt in self.ns.types]
        (self.outdir / "types.json").write_text(json.dumps(desc))
        self.ok = True
        return True

    def ask(self, lines, timeout=900):
        """Requests are dealt to a few worker processes (interleaved, so that the expensive types spread out)."""
        if not self.workers:
            self.workers = [_PyWorker(self.outdir, self.numpy_dir, self.optimize, self.ndarray, self.alts) for _ in range(self.n_workers)]
        k = min(len(self.workers), max(1, len(lines) // 50))
        shares = [list(range(i, len(lines), k)) for i in range(k)]
        answers = [None] * len(lines)
        with concurrent.futures.ThreadPoolExecutor(max_workers=k) as ex:
            futs = [ex.submit(self.workers[i].ask, [lines[j] for j in shares[i]]) for i in range(k)]
            for idxs, f in zip(shares, futs):
                for j, a in zip(idxs, f.result()):
                    answers[j] = a
        return answers

    def probe(self):
        return json.loads(self.ask(["probe"])[0])

    def stats(self):
        """How often each input spelling was exercised so far (sum over the worker processes; see codec_pyworker.py)."""
        total = {}
        for w in self.workers:
            if w.proc is not None and w.proc.poll() is None:
                try:
                    for k, v in json.loads(w.ask(["stats"])[0]).items():
                        total[k] = total.get(k, 0) + v
                except (ValueError, IndexError):
                    pass
        return total

    def close(self):
        for w in self.workers:
            w.close()
        self.workers = []


# ------------------------------------------------------------------------------------------------------------
# Python shim description (from the PyDSDL model)
# ------------------------------------------------------------------------------------------------------------

def _py_cls_path(model):
    """'pkg.mod:Class[.Request]' of the generated class of a composite (delimited wrapper stripped)."""
    m = model.inner_type if isinstance(model, pydsdl.DelimitedType) else model
    comps = m.full_name.split(".")
    ver = f"_{m.version.major}_{m.version.minor}"
    if m.has_parent_service:
        svc = comps[:-1]
        return ".".join(svc[:-1] + [svc[-1] + ver]) + ":" + svc[-1] + ver + "." + comps[-1]
    return ".".join(comps[:-1] + [comps[-1] + ver]) + ":" + comps[-1] + ver


def _py_node(t):
    if isinstance(t, pydsdl.BooleanType):
        return {"k": "b"}
    if isinstance(t, pydsdl.VoidType):
        return {"k": "v"}
    if isinstance(t, pydsdl.UnsignedIntegerType):
        return {"k": "u", "n": t.bit_length}
    if isinstance(t, pydsdl.SignedIntegerType):
        return {"k": "i", "n": t.bit_length}
    if isinstance(t, pydsdl.FloatType):
        return {"k": "f", "n": t.bit_length}
    if isinstance(t, pydsdl.FixedLengthArrayType):
        return {"k": "a", "el": _py_node(t.element_type), "cap": t.capacity}
    if isinstance(t, pydsdl.VariableLengthArrayType):
        return {"k": "l", "el": _py_node(t.element_type), "cap": t.capacity}
    if isinstance(t, pydsdl.DelimitedType):
        return _py_node(t.inner_type)
    if isinstance(t, (pydsdl.UnionType, pydsdl.StructureType)):
        return {"k": "n" if isinstance(t, pydsdl.UnionType) else "s", "cls": _py_cls_path(t),
                "fields": [[None if isinstance(f, pydsdl.PaddingField) else f.name, _py_node(f.data_type)] for f in t.fields]}
    raise ValueError(type(t).__name__)


def py_type_desc(gt):
    d = {"cls": _py_cls_path(gt.model), "node": _py_node(gt.model), "constants": [c.name for c in gt.inner.constants]}
    if gt.role != "message":
        d["parent"] = d["cls"].rsplit(".", 1)[0]
    return d


# ------------------------------------------------------------------------------------------------------------
# C shim (from the PyDSDL model)
# ------------------------------------------------------------------------------------------------------------

def _inner(t):
    return t.inner_type if isinstance(t, pydsdl.DelimitedType) else t


def c_name(model):
    m = _inner(model)
    return m.full_name.replace(".", "_") + f"_{m.version.major}_{m.version.minor}"


def _header_path(model, ext):
    m = _inner(model)
    comps = m.full_name.split(".")
    if m.has_parent_service:
        comps = comps[:-1]
    return "/".join(comps[:-1] + [f"{comps[-1]}_{m.version.major}_{m.version.minor}{ext}"])


def _c_storage(t):
    if isinstance(t, pydsdl.BooleanType):
        return "bool"
    if isinstance(t, pydsdl.FloatType):
        return "double" if t.bit_length == 64 else "float"
    sb = dsdlgen.storage_bits(t.bit_length)
    return ("uint" if isinstance(t, pydsdl.UnsignedIntegerType) else "int") + f"{sb}_t"


def _composites_in_order(ns):
    """Every composite reachable from the namespace's types, nested ones first, deduplicated by C name."""
    order, seen = [], set()

    def visit(t):
        t = _inner(t)
        if isinstance(t, pydsdl.ArrayType):
            visit(t.element_type)
            return
        if not isinstance(t, pydsdl.CompositeType):
            return
        n = c_name(t)
        if n in seen:
            return
        seen.add(n)
        for f in t.fields:
            visit(f.data_type)
        order.append(t)
    for gt in ns.types:
        visit(gt.model)
    return order


class _CGen:
    """Emits parse_/dump_ functions for C structs."""

    def __init__(self):
        self.uid = 0

    def fresh(self, stem):
        self.uid += 1
        return f"{stem}{self.uid}"

    # ---- parse ----
    def parse_prim(self, t, lv):
        if isinstance(t, pydsdl.BooleanType):
            return [f"{lv} = p_u64(p) != 0;"]
        if isinstance(t, pydsdl.UnsignedIntegerType):
            return [f"{lv} = ({_c_storage(t)}) p_u64(p);"]
        if isinstance(t, pydsdl.SignedIntegerType):
            return [f"{lv} = ({_c_storage(t)}) p_i64(p);"]
        if isinstance(t, pydsdl.FloatType):
            return [f"{lv} = p_f64(p);" if t.bit_length == 64 else f"{lv} = p_f32(p);"]
        raise ValueError(t)

    def parse_value(self, t, lv):
        """Statements parsing one value of type t into the C lvalue lv (not for bool arrays' elements)."""
        if isinstance(t, pydsdl.PrimitiveType):
            return self.parse_prim(t, lv)
        if isinstance(t, pydsdl.CompositeType):
            return [f"parse_{c_name(t)}(p, &{lv});"]
        raise ValueError(t)

    def parse_field(self, f, obj):
        t = f.data_type
        if isinstance(t, pydsdl.VoidType):
            return ["p_void(p);"]
        name = f.name
        if isinstance(t, pydsdl.FixedLengthArrayType):
            i = self.fresh("i")
            out = ["p_expect(p, '[');", f"for (size_t {i} = 0; {i} < {t.capacity}U; ++{i}) {{"]
            if isinstance(t.element_type, pydsdl.BooleanType):
                arr = f"{obj}{name}_bitpacked_"
                out += [f"    if (p_u64(p) != 0) {{ {arr}[{i} / 8U] |= (uint8_t) (1U << ({i} % 8U)); }} else {{ {arr}[{i} / 8U] &= (uint8_t) ~(1U << ({i} % 8U)); }}"]
            else:
                out += ["    " + s for s in self.parse_value(t.element_type, f"{obj}{name}[{i}]")]
            out += ["}", "p_expect(p, ']');"]
            return out
        if isinstance(t, pydsdl.VariableLengthArrayType):
            n = self.fresh("n")
            out = ["p_expect(p, '[');", f"size_t {n} = 0;", f"while (p_peek(p) != ']' && !p->err) {{"]
            if isinstance(t.element_type, pydsdl.BooleanType):
                arr = f"{obj}{name}.bitpacked"
                out += [f"    const bool b = p_u64(p) != 0;",
                        f"    if ({n} < sizeof({arr}) * 8U) {{ if (b) {{ {arr}[{n} / 8U] |= (uint8_t) (1U << ({n} % 8U)); }} else {{ {arr}[{n} / 8U] &= (uint8_t) ~(1U << ({n} % 8U)); }} }}"]
            else:
                et = t.element_type
                ctype = c_name(et) if isinstance(et, pydsdl.CompositeType) else _c_storage(et)
                d = self.fresh("dummy")
                out += [f"    if ({n} < {t.capacity}U) {{"]
                out += ["        " + s for s in self.parse_value(et, f"{obj}{name}.elements[{n}]")]
                out += ["    } else {", f"        static {ctype} {d};"]
                out += ["        " + s for s in self.parse_value(et, d)]
                out += ["    }"]
            out += [f"    {n}++;", "}", "p_expect(p, ']');", f"{obj}{name}.count = {n};"]
            return out
        return self.parse_value(t, f"{obj}{name}")

    # ---- dump ----
    def dump_prim(self, t, rv):
        if isinstance(t, pydsdl.BooleanType):
            return [f"o_u64(({rv}) ? 1U : 0U);"]
        if isinstance(t, pydsdl.UnsignedIntegerType):
            return [f"o_u64((uint64_t) ({rv}));"]
        if isinstance(t, pydsdl.SignedIntegerType):
            return [f"o_i64((int64_t) ({rv}));"]
        if isinstance(t, pydsdl.FloatType):
            return [f"o_f64((double) ({rv}));"]
        raise ValueError(t)

    def dump_value(self, t, rv):
        if isinstance(t, pydsdl.PrimitiveType):
            return self.dump_prim(t, rv)
        if isinstance(t, pydsdl.CompositeType):
            return [f"dump_{c_name(t)}(&{rv});"]
        raise ValueError(t)

    def dump_field(self, f, obj):
        t = f.data_type
        if isinstance(t, pydsdl.VoidType):
            return ["o_void();"]
        name = f.name
        if isinstance(t, pydsdl.ArrayType):
            i = self.fresh("i")
            var = isinstance(t, pydsdl.VariableLengthArrayType)
            count = f"{obj}{name}.count" if var else f"{t.capacity}U"
            out = ["o_open('[');", f"for (size_t {i} = 0; {i} < {count}; ++{i}) {{"]
            if isinstance(t.element_type, pydsdl.BooleanType):
                arr = f"{obj}{name}.bitpacked" if var else f"{obj}{name}_bitpacked_"
                out += [f"    o_u64(({arr}[{i} / 8U] >> ({i} % 8U)) & 1U);"]
            else:
                el = f"{obj}{name}.elements[{i}]" if var else f"{obj}{name}[{i}]"
                out += ["    " + s for s in self.dump_value(t.element_type, el)]
            out += ["}", "o_close(']');"]
            return out
        return self.dump_value(t, f"{obj}{name}")

    def composite(self, m):
        n = c_name(m)
        ps = [f"static void parse_{n}(P* p, {n}* o)", "{", "    (void) o;"]
        ds = [f"static void dump_{n}(const {n}* o)", "{", "    (void) o;"]
        if isinstance(m, pydsdl.UnionType):
            ps += ["    p_expect(p, '<');", "    const uint64_t k = p_u64(p);", "    o->_tag_ = (uint8_t) k;", "    switch (k) {"]
            ds += ["    o_open('<');", "    o_u64((uint64_t) o->_tag_);", "    switch (o->_tag_) {"]
            for k, f in enumerate(m.fields):
                ps += [f"    case {k}: {{"] + ["        " + s for s in self.parse_field(f, "o->")] + ["        break; }"]
                ds += [f"    case {k}: {{"] + ["        " + s for s in self.dump_field(f, "o->")] + ["        break; }"]
            ps += ["    default: p_skip(p); break;", "    }", "    p_expect(p, '>');"]
            ds += ["    default: o_void(); break;", "    }", "    o_close('>');"]
        else:
            ps += ["    p_expect(p, '{');"]
            ds += ["    o_open('{');"]
            for f in m.fields:
                ps += ["    " + s for s in self.parse_field(f, "o->")]
                ds += ["    " + s for s in self.dump_field(f, "o->")]
            ps += ["    p_expect(p, '}');"]
            ds += ["    o_close('}');"]
        ps += ["}"]
        ds += ["}"]
        return ps + [""] + ds + [""]


_C_HANDLER = r'''
/* answer of one deserialization into *dst: "ok <dump> <consumed>" or "err:<kind>" */
#define DEFINE_HANDLER(IDX, T)                                                                                        \
    static void de_answer_##IDX(T* dst, const uint8_t* in, size_t n)                                                  \
    {                                                                                                                 \
        size_t sz = n;                                                                                                \
        const int rc = T##_deserialize_(dst, in, &sz);                                                                \
        if (rc < 0) { o_str(err_name(rc)); }                                                                          \
        else { o_str("ok"); dump_##T(dst); o_u64(sz); }                                                               \
    }                                                                                                                 \
    /* the same request in other spellings of the C API; 1 = an alternative differs (answer replaced) */             \
    static int de_alternatives_##IDX(const uint8_t* in, size_t n)                                                     \
    {                                                                                                                 \
        char* prim = o_take();                                                                                        \
        T* o3 = (T*) malloc(sizeof(T));                                                                               \
        /* (a) the representation is a sub-range of a larger buffer, other data before and behind it;               \
               destination zeroed instead of A5 */                                                                    \
        uint8_t* big = (uint8_t*) malloc(n + 48);                                                                     \
        memset(big, 0xEE, 16); memcpy(big + 16, in, n); memset(big + 16 + n, 0xFF, 32);                               \
        memset(o3, 0x00, sizeof(T));                                                                                  \
        de_answer_##IDX(o3, big + 16, n);                                                                             \
        free(big);                                                                                                    \
        if (o_differs(prim, "embedded-in-larger-buffer")) { free(o3); free(prim); return 1; }                         \
        if (n == 0)                                                                                                   \
        {                                                                                                             \
            /* (b) documented: a NULL buffer is accepted when the size is zero */                                     \
            memset(o3, 0x5A, sizeof(T));                                                                              \
            de_answer_##IDX(o3, NULL, 0);                                                                             \
            if (o_differs(prim, "null-buffer-size-0")) { free(o3); free(prim); return 1; }                            \
            /* (c) _initialize_ is documented as the deserialization of the empty representation */                   \
            memset(o3, 0xA5, sizeof(T));                                                                              \
            T##_initialize_(o3);                                                                                      \
            o_str("ok"); dump_##T(o3); o_u64(0);                                                                      \
            if (o_differs(prim, "initialize")) { free(o3); free(prim); return 1; }                                    \
        }                                                                                                             \
        free(o3);                                                                                                     \
        o_str(prim);                                                                                                  \
        free(prim);                                                                                                   \
        return 0;                                                                                                     \
    }                                                                                                                 \
    static int handle_##IDX(const char* op, const char* rest)                                                         \
    {                                                                                                                 \
        const int is_ser = !strcmp(op, "ser"), is_serbuf = !strcmp(op, "serbuf");                                      \
        const int is_rtreuse = !strcmp(op, "rtreuse"), is_rt = !strcmp(op, "rt") || is_rtreuse;                        \
        if (is_ser || is_serbuf || is_rt)                                                                             \
        {                                                                                                             \
            T* obj = (T*) calloc(1, sizeof(T));                                                                       \
            T* o2 = (T*) malloc(sizeof(T));                                                                           \
            memset(o2, 0xA5, sizeof(T));                                                                              \
            P p = {rest, 0};                                                                                          \
            parse_##T(&p, obj);                                                                                       \
            if (is_rtreuse)                                                                                           \
            {                                                                                                         \
                /* prior state: the first value goes through obj and (if it serializes) through o2; then the        \
                   second value is parsed into the SAME obj and decoded into the SAME o2 */                           \
                size_t s0 = T##_SERIALIZATION_BUFFER_SIZE_BYTES_;                                                     \
                uint8_t* b0 = guarded_alloc(s0, 0x00);                                                                \
                if (!p.err && T##_serialize_(obj, b0, &s0) >= 0) { size_t z = s0; (void) T##_deserialize_(o2, b0, &z); } \
                guarded_free(b0);                                                                                     \
                { const char* bar = strchr(rest, '|'); if (bar) { p.p = bar + 1; p.err = 0; } else { p.err = 1; } }    \
                parse_##T(&p, obj);                                                                                   \
            }                                                                                                         \
            size_t cap = T##_SERIALIZATION_BUFFER_SIZE_BYTES_;                                                        \
            if (is_serbuf) { cap = (size_t) p_u64(&p); }                                                              \
            if (p.err) { free(obj); free(o2); return 0; }                                                             \
            const uint8_t fill = is_serbuf ? 0x55 : 0xFF;                                                             \
            uint8_t* buf = guarded_alloc(cap, fill);                                                                  \
            size_t size = cap;                                                                                        \
            const int rc = T##_serialize_(obj, buf, &size);                                                           \
            if (!guard_ok(buf, cap)) { o_str("err:overrun"); }                                                        \
            else if (rc < 0) { o_str(err_name(rc)); }                                                                 \
            else if (size > cap) { o_str("err:size-above-capacity"); }                                                \
            else if (!tail_untouched(buf, size, cap, fill)) { o_str("err:wrote-beyond-reported-size"); }              \
            else                                                                                                      \
            {                                                                                                         \
                o_str("ok");                                                                                          \
                o_hex(buf, size);                                                                                     \
                if (is_rt)                                                                                            \
                {                                                                                                     \
                    uint8_t* in = (uint8_t*) malloc(size ? size : 1);                                                 \
                    memcpy(in, buf, size);                                                                            \
                    size_t sz = size;                                                                                 \
                    const int rc2 = T##_deserialize_(o2, in, &sz);                                                    \
                    if (rc2 < 0) { o_sep(); o_str(err_name(rc2)); }                                                   \
                    else                                                                                              \
                    {                                                                                                 \
                        dump_##T(o2);                                                                                 \
                        o_u64(sz);                                                                                    \
                        uint8_t* b2 = guarded_alloc(T##_SERIALIZATION_BUFFER_SIZE_BYTES_, 0x00);                      \
                        size_t s2 = T##_SERIALIZATION_BUFFER_SIZE_BYTES_;                                             \
                        const int rc3 = T##_serialize_(o2, b2, &s2);                                                  \
                        if (rc3 < 0) { o_sep(); o_str(err_name(rc3)); } else { o_hex(b2, s2); }                       \
                        guarded_free(b2);                                                                             \
                    }                                                                                                 \
                    free(in);                                                                                         \
                }                                                                                                     \
            }                                                                                                         \
            guarded_free(buf);                                                                                        \
            free(o2);                                                                                                 \
            free(obj);                                                                                                \
            return 1;                                                                                                 \
        }                                                                                                             \
        const int is_dereuse = !strcmp(op, "dereuse");                                                                \
        if (!strcmp(op, "de") || is_dereuse)                                                                          \
        {                                                                                                             \
            uint8_t* in = NULL;                                                                                       \
            size_t n = hex_decode(rest, &in);                                                                         \
            T* o2 = (T*) malloc(sizeof(T));                                                                           \
            memset(o2, 0xA5, sizeof(T));                                                                              \
            if (is_dereuse)                                                                                           \
            {                                                                                                         \
                /* the first string only leaves its traces in the object (whatever the outcome) */                   \
                size_t z = n;                                                                                         \
                (void) T##_deserialize_(o2, in, &z);                                                                  \
                free(in);                                                                                             \
                n = hex_decode(second_token(rest), &in);                                                              \
            }                                                                                                         \
            de_answer_##IDX(o2, in, n);                                                                               \
            free(o2);                                                                                                 \
            if (!is_dereuse) { (void) de_alternatives_##IDX(in, n); }   /* fresh destinations: only comparable with `de` */ \
            free(in);                                                                                                 \
            return 1;                                                                                                 \
        }                                                                                                             \
        if (!strcmp(op, "api"))                                                                                       \
        {                                                                                                             \
            /* argument conventions of the generated functions: NULL arguments are refused with                     \
               -NUNAVUT_ERROR_INVALID_ARGUMENT, except a NULL source buffer of size zero */                           \
            T* o = (T*) calloc(1, sizeof(T));                                                                         \
            uint8_t b[1] = {0};                                                                                       \
            size_t z = 1;                                                                                             \
            o_str("ok");                                                                                              \
            o_i64(T##_serialize_(NULL, b, &z));                                                                       \
            z = T##_SERIALIZATION_BUFFER_SIZE_BYTES_; o_i64(T##_serialize_(o, NULL, &z));                             \
            o_i64(T##_serialize_(o, b, NULL));                                                                        \
            z = 0; o_i64(T##_deserialize_(NULL, b, &z));                                                              \
            o_i64(T##_deserialize_(o, b, NULL));                                                                      \
            z = 1; o_i64(T##_deserialize_(o, NULL, &z));                                                              \
            z = 0; o_i64(T##_deserialize_(o, NULL, &z));                                                              \
            T##_initialize_(NULL);                                                                                    \
            free(o);                                                                                                  \
            return 1;                                                                                                 \
        }                                                                                                             \
        if (!strcmp(op, "probe")) { probe_##IDX(); return 1; }                                                        \
        return 0;                                                                                                     \
    }
'''

_C_PROBE_RT = r'''
#define TYPE_CLASS(X) _Generic((X), _Bool: 'b', char: 'c', signed char: 's', short: 's', int: 's', long: 's', long long: 's', \
    unsigned char: 'u', unsigned short: 'u', unsigned int: 'u', unsigned long: 'u', unsigned long long: 'u', float: 'f', double: 'd', \
    long double: 'L', default: '?')
static void probe_kv(const char* k) { o_sep(); o_str(k); o_str("="); }
#define PROBE_UINT(K, X) do { probe_kv(K); char b_[48]; snprintf(b_, sizeof b_, "%llu", (unsigned long long) (X)); o_str(b_); } while (0)
#define PROBE_STR(K, X) do { probe_kv(K); o_str(X); } while (0)
/* constant: <class>:<sizeof>:<value as signed/unsigned 64 or float bits> */
#define PROBE_CONST(K, X) do { probe_kv(K); char b_[96]; const char c_ = TYPE_CLASS(X); \
    if (c_ == 'f') { float f_ = (float) (X); uint32_t u_; memcpy(&u_, &f_, 4); snprintf(b_, sizeof b_, "f:%zu:%08x", sizeof(X), (unsigned) u_); } \
    else if (c_ == 'd') { double f_ = (double) (X); uint64_t u_; memcpy(&u_, &f_, 8); snprintf(b_, sizeof b_, "d:%zu:%016llx", sizeof(X), (unsigned long long) u_); } \
    else if (c_ == 'u' || c_ == 'b') { snprintf(b_, sizeof b_, "%c:%zu:%llu", c_, sizeof(X), (unsigned long long) (X)); } \
    else if (c_ == 's' || c_ == 'c') { snprintf(b_, sizeof b_, "%c:%zu:%lld", c_, sizeof(X), (long long) (X)); } \
    else { snprintf(b_, sizeof b_, "?:%zu:%lld:neg=%d", sizeof(X), (long long) (X), (int) ((X) < 0)); } \
    o_str(b_); } while (0)
'''


def c_probe_lines(gt, idx):
    n = c_name(gt.model)
    m = gt.inner
    out = [f"static void probe_{idx}(void)", "{", '    o_str("ok");',
           f'    PROBE_UINT("extent_bytes", {n}_EXTENT_BYTES_);',
           f'    PROBE_UINT("buffer_bytes", {n}_SERIALIZATION_BUFFER_SIZE_BYTES_);',
           f'    PROBE_STR("full_name", {n}_FULL_NAME_);',
           f'    PROBE_STR("full_name_and_version", {n}_FULL_NAME_AND_VERSION_);']
    # the port-ID macros belong to the message or to the parent service
    holder = n
    if m.has_parent_service:
        comps = m.full_name.split(".")[:-1]
        holder = "_".join(comps) + f"_{m.version.major}_{m.version.minor}"
    out += [f'    PROBE_UINT("has_fixed_port_id", {holder}_HAS_FIXED_PORT_ID_);',
            f"#if defined({holder}_FIXED_PORT_ID_)", f'    PROBE_UINT("fixed_port_id", {holder}_FIXED_PORT_ID_);', "#endif"]
    if isinstance(m, pydsdl.UnionType):
        out.append(f'    PROBE_UINT("union_option_count", {n}_UNION_OPTION_COUNT_);')
    for f in m.fields:
        if isinstance(f.data_type, pydsdl.ArrayType):
            out.append(f'    PROBE_UINT("cap.{f.name}", {n}_{f.name}_ARRAY_CAPACITY_);')
            out.append(f'    PROBE_UINT("var.{f.name}", {n}_{f.name}_ARRAY_IS_VARIABLE_LENGTH_);')
    for c in m.constants:
        out.append(f'    PROBE_CONST("const.{c.name}", {n}_{c.name});')
    out.append(f'    PROBE_UINT("sizeof", sizeof({n}));')
    out += ["}", ""]
    return out


def c_shim_source(ns):
    g = _CGen()
    out = ["/* generated by harness/codec_targets.py from the PyDSDL model */"]
    seen = set()
    for gt in ns.types:
        h = _header_path(gt.model, ".h")
        if h not in seen:
            seen.add(h)
            out.append(f'#include "{h}"')
    out.append('#include "codec_shim_rt.h"')
    out.append(_C_PROBE_RT)
    for m in _composites_in_order(ns):
        out += g.composite(m)
    for gt in ns.types:
        out += c_probe_lines(gt, gt.index)
    out.append(_C_HANDLER)
    for gt in ns.types:
        out.append(f"DEFINE_HANDLER({gt.index}, {c_name(gt.model)})")
    out += ["", "static int dispatch(int idx, const char* op, const char* rest)", "{", "    switch (idx) {"]
    for gt in ns.types:
        out.append(f"    case {gt.index}: return handle_{gt.index}(op, rest);")
    out += ["    default: return 0;", "    }", "}", ""]
    return "\n".join(out)


def _compile(cmd, timeout=1500):
    try:
        p = subprocess.run(cmd, capture_output=True, text=True, timeout=timeout)
        return p.returncode == 0, (p.stdout + p.stderr)
    except subprocess.TimeoutExpired:
        return False, "compiler timed out"


class CTarget(BatchProcessTarget):
    lang = "c"

    def __init__(self, ns, outdir, endianness="any", asserts=False, cc="gcc", extra_nnvg=(), cflags=("-O1",), run=True, tag=None):
        name = tag or f"c/{endianness}{'+asserts' if asserts else ''}{'' if cc == 'gcc' else '/' + cc}"
        super().__init__(name, {"lang": "c", "target_endianness": endianness, "enable_serialization_asserts": asserts, "cc": cc,
                                "nnvg": list(extra_nnvg), "cflags": list(cflags)})
        self.ns, self.outdir, self.endianness, self.asserts, self.cc = ns, pathlib.Path(outdir), endianness, asserts, cc
        self.extra_nnvg, self.cflags, self.run = list(extra_nnvg), list(cflags), run
        self.warnings = ""

    def generate(self):
        self.outdir.mkdir(parents=True, exist_ok=True)
        args = ["--target-endianness", self.endianness] + (["--enable-serialization-asserts"] if self.asserts else []) + self.extra_nnvg
        ok, log = run_nnvg(self.ns, "c", self.outdir / "gen", args)
        self.build_log = log
        if ok:
            (self.outdir / "shim.c").write_text(c_shim_source(self.ns))
        return ok

    def compile(self):
        self.exe = self.outdir / "shim"
        cmd = [self.cc, "-std=c11", "-D_POSIX_C_SOURCE=200809L", "-Wall", "-Wno-unused-function", "-Wno-unused-but-set-variable"] + self.cflags
        if self.asserts:
            cmd += ["-DNUNAVUT_ASSERT(x)=assert(x)"]
        cmd += ["-I", str(self.outdir / "gen"), "-I", str(HERE / "c"), str(self.outdir / "shim.c"), "-o", str(self.exe), "-lm"]
        ok, log = _compile(cmd)
        self.build_log += log[-6000:]
        self.warnings = log
        self.ok = ok
        return ok

    def build(self):
        return self.generate() and self.compile()

    def probe(self):
        return self.ask([f"probe {gt.index}" for gt in self.ns.types])


# ------------------------------------------------------------------------------------------------------------
# C++ shim (from the PyDSDL model)
# ------------------------------------------------------------------------------------------------------------

def cpp_name(model):
    m = _inner(model)
    comps = m.full_name.split(".")
    return "::".join(comps[:-1] + [f"{comps[-1]}_{m.version.major}_{m.version.minor}"])


class _CppGen(_CGen):
    def parse_value(self, t, lv):
        if isinstance(t, pydsdl.PrimitiveType):
            return [f"parse_prim(p, {lv});"]
        if isinstance(t, pydsdl.CompositeType):
            return [f"parse(p, {lv});"]
        raise ValueError(t)

    def dump_value(self, t, rv):
        if isinstance(t, pydsdl.PrimitiveType):
            return [f"dump_prim({rv});"]
        if isinstance(t, pydsdl.CompositeType):
            return [f"dump({rv});"]
        raise ValueError(t)

    def parse_into(self, t, lv):
        """Statements parsing a value of field type t into the C++ lvalue lv."""
        if isinstance(t, pydsdl.VoidType):
            return ["p_void(p);"]
        if isinstance(t, pydsdl.FixedLengthArrayType):
            i = self.fresh("i")
            out = ["p_expect(p, '[');", f"for (std::size_t {i} = 0; {i} < {t.capacity}U; ++{i}) {{"]
            if isinstance(t.element_type, pydsdl.BooleanType):
                out += [f"    {lv}[{i}] = p_u64(p) != 0;"]
            else:
                out += ["    " + s for s in self.parse_value(t.element_type, f"{lv}[{i}]")]
            out += ["}", "p_expect(p, ']');"]
            return out
        if isinstance(t, pydsdl.VariableLengthArrayType):
            e = self.fresh("e")
            out = ["p_expect(p, '[');", f"{lv}.clear();", "while (p_peek(p) != ']' && !p->err) {",
                   f"    typename std::remove_reference<decltype({lv})>::type::value_type {e}{{}};"]
            out += ["    " + s for s in self.parse_value(t.element_type, e)]
            out += [f"    {lv}.push_back({e});", "}", "p_expect(p, ']');"]
            return out
        return self.parse_value(t, lv)

    def dump_from(self, t, rv):
        if isinstance(t, pydsdl.VoidType):
            return ["o_void();"]
        if isinstance(t, pydsdl.ArrayType):
            i = self.fresh("i")
            out = ["o_open('[');", f"for (std::size_t {i} = 0; {i} < {rv}.size(); ++{i}) {{"]
            if isinstance(t.element_type, pydsdl.BooleanType):
                out += [f"    o_u64({rv}[{i}] ? 1U : 0U);"]
            else:
                out += ["    " + s for s in self.dump_value(t.element_type, f"{rv}[{i}]")]
            out += ["}", "o_close(']');"]
            return out
        return self.dump_value(t, rv)

    def composite(self, m):
        n = "::" + cpp_name(m)
        ps = [f"static void parse(P* p, {n}& o)", "{", "    (void) o;"]
        ds = [f"static void dump(const {n}& o)", "{", "    (void) o;"]
        if isinstance(m, pydsdl.UnionType):
            ps += ["    p_expect(p, '<');", "    const std::uint64_t k = p_u64(p);", "    switch (k) {"]
            ds += ["    o_open('<');"]
            for k, f in enumerate(m.fields):
                ps += [f"    case {k}: {{", f"        auto& r = o.set_{f.name}();"] + ["        " + s for s in self.parse_into(f.data_type, "r")] + ["        break; }"]
                ds += [f"    if (const auto* q = o.get_{f.name}_if()) {{", f"        o_u64({k}U);"] + ["        " + s for s in self.dump_from(f.data_type, "(*q)")] + ["    }"]
            ps += ["    default: throw NotApplicable{};", "    }", "    p_expect(p, '>');"]
            ds += ["    o_close('>');"]
        else:
            ps += ["    p_expect(p, '{');"]
            ds += ["    o_open('{');"]
            for f in m.fields:
                if isinstance(f, pydsdl.PaddingField):
                    ps += ["    p_void(p);"]
                    ds += ["    o_void();"]
                else:
                    ps += ["    " + s for s in self.parse_into(f.data_type, f"o.{f.name}")]
                    ds += ["    " + s for s in self.dump_from(f.data_type, f"o.{f.name}")]
            ps += ["    p_expect(p, '}');"]
            ds += ["    o_close('}');"]
        ps += ["}"]
        ds += ["}"]
        return ps + [""] + ds + [""]


def cpp_probe_lines(gt, idx):
    n = "::" + cpp_name(gt.model)
    m = gt.inner
    out = [f"static void probe_{idx}()", "{", '    o_str("ok");',
           f'    probe_uint("extent_bytes", {n}::_traits_::ExtentBytes);',
           f'    probe_uint("buffer_bytes", {n}::_traits_::SerializationBufferSizeBytes);',
           f'    probe_uint("has_fixed_port_id", {n}::_traits_::HasFixedPortID);',
           f'    probe_uint("is_service", {n}::_traits_::IsServiceType);',
           ]
    out.append(f'    probe_fixed_port<{n}>(0);')
    if isinstance(m, pydsdl.UnionType):
        out.append(f'    probe_uint("union_option_count", {n}::VariantType::MAX_INDEX);')
    for c in m.constants:
        out.append(f'    {{ const auto v = {n}::{c.name}; probe_const("const.{c.name}", v); }}')
    out += ["}", ""]
    return out


def cpp_shim_sources(ns, parts=1):
    """-> list of (file name, text).  The handlers are spread over `parts` translation units to compile in parallel."""
    order = _composites_in_order(ns)
    includes = []
    seen = set()
    for gt in ns.types:
        h = _header_path(gt.model, ".hpp")
        if h not in seen:
            seen.add(h)
            includes.append(f'#include "{h}"')
    parts = max(1, min(parts, len(ns.types) or 1))
    files = []
    for part in range(parts):
        mine = [gt for gt in ns.types if gt.index % parts == part]
        g = _CppGen()
        out = ["// generated by harness/codec_targets.py from the PyDSDL model"] + includes + ['#include "codec_shim_rt.hpp"', "namespace {"]
        # only the composites reachable from this part's types
        need = set()

        def visit(t):
            t = _inner(t)
            if isinstance(t, pydsdl.ArrayType):
                visit(t.element_type)
            elif isinstance(t, pydsdl.CompositeType) and c_name(t) not in need:
                need.add(c_name(t))
                for f in t.fields:
                    visit(f.data_type)
        for gt in mine:
            visit(gt.model)
        for m in order:
            if c_name(m) in need:
                out += g.composite(m)
        for gt in mine:
            out += cpp_probe_lines(gt, gt.index)
        out += ['#include "codec_shim_handle.hpp"', "}  // namespace", ""]
        out += [f"int dispatch_part{part}(int idx, const char* op, const char* rest)", "{", "    switch (idx) {"]
        for gt in mine:
            out.append(f"    case {gt.index}: return handle<::{cpp_name(gt.model)}>(op, rest, &probe_{gt.index});")
        out += ["    default: return 0;", "    }", "}", ""]
        files.append((f"shim_part{part}.cpp", "\n".join(out)))
    main = ['#define CODEC_SHIM_MAIN', '#include "codec_shim_rt.h"']
    main += [f"int dispatch_part{p}(int idx, const char* op, const char* rest);" for p in range(parts)]
    main += ["static int dispatch(int idx, const char* op, const char* rest)", "{", f"    switch (idx % {parts}) {{"]
    main += [f"    case {p}: return dispatch_part{p}(idx, op, rest);" for p in range(parts)]
    main += ["    default: return 0;", "    }", "}", ""]
    files.append(("shim_main.cpp", "\n".join(main)))
    return files


class CppTarget(BatchProcessTarget):
    lang = "cpp"

    def __init__(self, ns, outdir, std="c++14", asserts=False, cxx="g++", extra_nnvg=(), cxxflags=("-O1",), parts=4, tag=None):
        name = tag or f"cpp/{std}{'+asserts' if asserts else ''}{'' if cxx == 'g++' else '/' + cxx}"
        super().__init__(name, {"lang": "cpp", "std": std, "enable_serialization_asserts": asserts, "cxx": cxx,
                                "nnvg": list(extra_nnvg), "cxxflags": list(cxxflags)})
        self.ns, self.outdir, self.std, self.asserts, self.cxx = ns, pathlib.Path(outdir), std, asserts, cxx
        self.extra_nnvg, self.cxxflags, self.parts = list(extra_nnvg), list(cxxflags), parts
        self.jobs = []

    def generate(self):
        self.outdir.mkdir(parents=True, exist_ok=True)
        args = ["--language-standard", self.std] + (["--enable-serialization-asserts"] if self.asserts else []) + self.extra_nnvg
        ok, log = run_nnvg(self.ns, "cpp", self.outdir / "gen", args)
        self.build_log = log
        if not ok:
            return False
        self.jobs = []
        gxx_std = {"c++17-pmr": "c++17", "cetl++14-17": "c++14"}.get(self.std, self.std)
        for fn, text in cpp_shim_sources(self.ns, self.parts):
            (self.outdir / fn).write_text(text)
            cmd = [self.cxx, f"-std={gxx_std}", "-Wall", "-Wno-unused-function", "-Wno-unused-but-set-variable"] + self.cxxflags
            if self.asserts:
                cmd += ["-DNUNAVUT_ASSERT(x)=assert(x)", "-include", "cassert"]
            cmd += ["-I", str(self.outdir / "gen"), "-I", str(HERE / "cpp"), "-I", str(HERE / "c"), "-c", str(self.outdir / fn),
                    "-o", str(self.outdir / (fn + ".o"))]
            self.jobs.append(cmd)
        return True

    def link(self):
        self.exe = self.outdir / "shim"
        objs = [str(self.outdir / (fn + ".o")) for fn, _ in cpp_shim_sources(self.ns, self.parts)]
        ok, log = _compile([self.cxx] + [f for f in self.cxxflags if f.startswith("-fsanitize")] + objs + ["-o", str(self.exe)])
        self.build_log += log[-3000:]
        self.ok = ok
        return ok

    def build(self):
        if not self.generate():
            return False
        for cmd in self.jobs:
            ok, log = _compile(cmd)
            self.build_log += log[-3000:]
            if not ok:
                return False
        return self.link()

    def probe(self):
        return self.ask([f"probe {gt.index}" for gt in self.ns.types])
