"""
codec_targets — generate, build and drive the C / C++ / Python codecs of a dsdlgen.Namespace.

For one namespace:  ``nnvg`` of the tree under check (``[common.PY, "-m", "nunavut", ...]``, PYTHONPATH=$VERIF_REPO/src)
generates each target/option set into its own directory; a *shim* generated here by walking the PyDSDL model (never
from Nunavut's templates) parses protocol values into the generated struct / class, calls the generated
serialize / deserialize and prints protocol answers.  C and C++: one program per (namespace, option set) with every
type, dispatched on the type index; Python: a worker subprocess (harness/codec_pyworker.py).

Requests to a target (``Target.ask(lines)``): the lines of CODEC_PROTOCOL.md with the type expression replaced by
the type index, plus
    rt <idx> <V>      -> ok <hex> <V'> <consumed> <hex2>     in-memory round trip: serialize, deserialize the produced
                                                             bytes into a fresh object, dump it, serialize it again
Answers beyond the protocol: ``n/a`` (request not expressible on this target: see codec_pyworker.py; C++: option
index >= option count), ``crash:<rc>`` (the process died on this request; it is restarted for the next one),
``err:overrun`` (guard bytes around the output buffer were modified), ``err:invalid-argument``.

Error mapping C / C++: return code -3 / Error::SerializationBufferTooSmall -> buffer-too-small, -10 -> bad-array-length,
-11 -> bad-union-tag, -12 -> bad-delimiter-header, -2 -> invalid-argument.
"""
import concurrent.futures
import fcntl
import json
import os
import pathlib
import shutil
import subprocess
import sys
import tempfile

import pydsdl

from . import common
from . import dsdlgen

HERE = pathlib.Path(__file__).resolve().parent
NCPU = max(2, min(16, os.cpu_count() or 4))


# ------------------------------------------------------------------------------------------------------------
# nnvg
# ------------------------------------------------------------------------------------------------------------

def run_nnvg(ns, lang, outdir, args=(), timeout=600):
    """Run the working tree's generator. Returns (ok, log)."""
    env = dict(os.environ)
    env["PYTHONPATH"] = str(common.REPO / "src")
    env["PYTHONDONTWRITEBYTECODE"] = "1"
    cmd = [common.PY, "-m", "nunavut", "--experimental-languages", "--target-language", lang, "--outdir", str(outdir)]
    cmd += list(ns.nnvg_flags) + list(args) + [str(ns.root)]
    try:
        p = subprocess.run(cmd, capture_output=True, text=True, timeout=timeout, env=env, cwd=str(outdir.parent if outdir.parent.exists() else "/"))
    except subprocess.TimeoutExpired:
        return False, "nnvg timed out"
    return p.returncode == 0, (p.stdout + p.stderr)[-4000:]


def ensure_numpy():
    """Directory to put on PYTHONPATH so that the generated Python code finds NumPy ('' if /venv has it)."""
    p = subprocess.run([common.PY, "-c", "import numpy"], capture_output=True)
    if p.returncode == 0:
        return ""
    base = pathlib.Path(os.environ.get("VERIF_SCRATCH_BASE") or tempfile.gettempdir())
    dest = base / "nv_codec_numpy"
    with open(str(dest) + ".lock", "w") as lk:
        fcntl.flock(lk, fcntl.LOCK_EX)
        ok = (dest / "numpy" / "__init__.py").exists() and subprocess.run(
            [common.PY, "-c", "import numpy"], capture_output=True, env=dict(os.environ, PYTHONPATH=str(dest))).returncode == 0
        if not ok:
            shutil.rmtree(dest, ignore_errors=True)
            p = subprocess.run([common.PY, "-m", "pip", "install", "--quiet", "--no-index", "--find-links", "/opt/veriftools/wheels",
                                "--target", str(dest), "numpy"], capture_output=True, text=True, timeout=600)
            if p.returncode != 0:
                raise RuntimeError("cannot install numpy for the generated Python code: " + p.stderr[-1000:])
    return str(dest)


# ------------------------------------------------------------------------------------------------------------
# targets
# ------------------------------------------------------------------------------------------------------------

class Target:
    """One executable realisation of the codecs of a namespace."""
    lang = "?"

    def __init__(self, name, options):
        self.name = name            # e.g. "c/any", "cpp/c++17", "py"
        self.options = options      # dict, travels into replays
        self.build_log = ""
        self.ok = False

    def ask(self, lines, timeout=900):
        raise NotImplementedError

    def close(self):
        pass


class BatchProcessTarget(Target):
    """A compiled shim: feed request lines on stdin, one answer line each; survive crashes."""
    exe = None
    env = None

    def ask(self, lines, timeout=900):
        answers = []
        start = 0
        n = len(lines)
        crashes = 0
        while start < n:
            data = ("\n".join(lines[start:]) + "\n").encode()
            try:
                p = subprocess.run([str(self.exe)], input=data, capture_output=True, timeout=timeout, env=self.env)
                out = p.stdout.decode(errors="replace").split("\n")
                rc = p.returncode
                err = p.stderr.decode(errors="replace")[-600:]
            except subprocess.TimeoutExpired as ex:
                out = (ex.stdout or b"").decode(errors="replace").split("\n")
                rc, err = "timeout", ""
            if out and out[-1] == "":
                out.pop()
            elif out:
                out.pop()           # incomplete last line of a crashed process
            out = out[: n - start]
            answers += out
            start += len(out)
            if start < n:
                answers.append(f"crash:{rc}:{err.strip().splitlines()[-1][:200] if err.strip() else ''}")
                start += 1
                crashes += 1
                if crashes > 50:
                    answers += ["crash:too-many"] * (n - start)
                    break
        return answers


class PyTarget(Target):
    lang = "py"

    def __init__(self, ns, outdir, numpy_dir):
        super().__init__("py", {"lang": "py"})
        self.ns, self.outdir, self.numpy_dir = ns, pathlib.Path(outdir), numpy_dir
        self.proc = None

    def build(self):
        self.outdir.mkdir(parents=True, exist_ok=True)
        gen = self.outdir / "gen"
        ok, log = run_nnvg(self.ns, "py", gen)
        self.build_log = log
        if not ok:
            return False
        desc = [py_type_desc(gt) for gt in self.ns.types]
        (self.outdir / "types.json").write_text(json.dumps(desc))
        self.ok = True
        return True

    def _start(self):
        env = dict(os.environ)
        env["PYTHONPATH"] = os.pathsep.join([str(self.outdir / "gen")] + ([self.numpy_dir] if self.numpy_dir else []))
        env["PYTHONDONTWRITEBYTECODE"] = "1"
        self.proc = subprocess.Popen([common.PY, str(HERE / "codec_pyworker.py"), str(self.outdir / "types.json")],
                                     stdin=subprocess.PIPE, stdout=subprocess.PIPE, stderr=subprocess.PIPE, env=env, text=True, bufsize=1)
        first = self.proc.stdout.readline().strip()
        if first != "ready":
            err = self.proc.stderr.read()[-2000:]
            self.proc = None
            raise RuntimeError("python codec worker did not start: " + err)

    def _exchange(self, lines):
        """Write all, read all (a thread feeds stdin so that large batches cannot deadlock on pipe buffers)."""
        import threading
        proc = self.proc

        def feed():
            try:
                for l in lines:
                    proc.stdin.write(l + "\n")
                proc.stdin.flush()
            except (BrokenPipeError, ValueError):
                pass
        th = threading.Thread(target=feed, daemon=True)
        th.start()
        out = []
        for _ in lines:
            a = proc.stdout.readline()
            if not a:
                break
            out.append(a.rstrip("\n"))
        th.join(timeout=5)
        return out

    def ask(self, lines, timeout=900):
        answers = []
        start, n = 0, len(lines)
        while start < n:
            if self.proc is None or self.proc.poll() is not None:
                self._start()
            out = self._exchange(lines[start:])
            answers += out
            start += len(out)
            if start < n:
                rc = self.proc.poll()
                try:
                    err = self.proc.stderr.read()[-300:]
                except Exception:
                    err = ""
                self.proc = None
                answers.append(f"crash:{rc}:{err.strip().splitlines()[-1][:200] if err.strip() else ''}")
                start += 1
        return answers

    def probe(self):
        return json.loads(self.ask(["probe"])[0])

    def close(self):
        if self.proc is not None:
            try:
                self.proc.stdin.close()
                self.proc.wait(timeout=5)
            except Exception:
                self.proc.kill()
            self.proc = None


# ------------------------------------------------------------------------------------------------------------
# Python shim description (from the PyDSDL model)
# ------------------------------------------------------------------------------------------------------------

def _py_cls_path(model):
    """'pkg.mod:Class[.Request]' of the generated class of a composite (delimited wrapper stripped)."""
    m = model.inner_type if isinstance(model, pydsdl.DelimitedType) else model
    comps = m.full_name.split(".")
    ver = f"_{m.version.major}_{m.version.minor}"
    if m.has_parent_service:
        svc = comps[:-1]
        return ".".join(svc[:-1] + [svc[-1] + ver]) + ":" + svc[-1] + ver + "." + comps[-1]
    return ".".join(comps[:-1] + [comps[-1] + ver]) + ":" + comps[-1] + ver


def _py_node(t):
    if isinstance(t, pydsdl.BooleanType):
        return {"k": "b"}
    if isinstance(t, pydsdl.VoidType):
        return {"k": "v"}
    if isinstance(t, pydsdl.UnsignedIntegerType):
        return {"k": "u", "n": t.bit_length}
    if isinstance(t, pydsdl.SignedIntegerType):
        return {"k": "i", "n": t.bit_length}
    if isinstance(t, pydsdl.FloatType):
        return {"k": "f", "n": t.bit_length}
    if isinstance(t, pydsdl.FixedLengthArrayType):
        return {"k": "a", "el": _py_node(t.element_type), "cap": t.capacity}
    if isinstance(t, pydsdl.VariableLengthArrayType):
        return {"k": "l", "el": _py_node(t.element_type), "cap": t.capacity}
    if isinstance(t, pydsdl.DelimitedType):
        return _py_node(t.inner_type)
    if isinstance(t, (pydsdl.UnionType, pydsdl.StructureType)):
        return {"k": "n" if isinstance(t, pydsdl.UnionType) else "s", "cls": _py_cls_path(t),
                "fields": [[None if isinstance(f, pydsdl.PaddingField) else f.name, _py_node(f.data_type)] for f in t.fields]}
    raise ValueError(type(t).__name__)


def py_type_desc(gt):
    d = {"cls": _py_cls_path(gt.model), "node": _py_node(gt.model), "constants": [c.name for c in gt.inner.constants]}
    if gt.role != "message":
        d["parent"] = d["cls"].rsplit(".", 1)[0]
    return d
