"""
Shared plumbing of the /verif checks: context, Lean build + axiom audit, line-protocol drivers,
known-findings matching, evidence and verdict.  Runs under /venv/bin/python.
"""
import contextlib
import fcntl
import hashlib
import json
import os
import pathlib
import random
import re
import shutil
import subprocess
import sys
import tempfile
import time

VERIF = pathlib.Path(__file__).resolve().parent.parent
LEAN = VERIF / "lean"
REPO = pathlib.Path(os.environ.get("VERIF_REPO", "/repo")).resolve()
PY = "/venv/bin/python"
# where evidence / replay files go (overridden only by tools/run_seeded.py so that mutant runs do not clobber real evidence)
EVIDENCE_DIR = pathlib.Path(os.environ.get("VERIF_EVIDENCE_DIR") or (VERIF / "evidence"))
REPLAY_DIR = pathlib.Path(os.environ.get("VERIF_REPLAY_DIR") or (VERIF / "replays"))
ALLOWED_AXIOMS = {"propext", "Classical.choice", "Quot.sound"}
FORBIDDEN = re.compile(r"\bsorry\b|\badmit\b|^axiom\s|native_decide|bv_decide|implemented_by|\bunsafe\s|maxHeartbeats 0", re.M)

# the real implementation, from the tree under check
sys.path.insert(0, str(REPO / "src"))
os.environ.setdefault("PYTHONDONTWRITEBYTECODE", "1")
sys.dont_write_bytecode = True


def strip_lean_comments(text: str) -> str:
    out, i, depth, n = [], 0, 0, len(text)
    while i < n:
        if text.startswith("/-", i):
            depth += 1; i += 2; continue
        if depth and text.startswith("-/", i):
            depth -= 1; i += 2; continue
        if depth:
            if text[i] == "\n": out.append("\n")
            i += 1; continue
        if text.startswith("--", i):
            j = text.find("\n", i)
            i = n if j < 0 else j
            continue
        out.append(text[i]); i += 1
    return "".join(out)


def exe_root(exe: str) -> pathlib.Path:
    """Source file of a lean_exe target, from lakefile.toml."""
    txt = (LEAN / "lakefile.toml").read_text()
    m = re.search(r'name = "%s"\s*\nroot = "([^"]+)"' % re.escape(exe), txt)
    return LEAN / (m.group(1).replace(".", "/") + ".lean") if m else LEAN / "__missing__.lean"


def lean_import_closure(files):
    """All project source files reachable through `import` from the given files (project-local modules only)."""
    seen, todo = {}, [pathlib.Path(f) for f in files]
    while todo:
        f = todo.pop()
        if f in seen or not f.exists():
            continue
        seen[f] = True
        for m in re.finditer(r"^import\s+(\S+)", strip_lean_comments(f.read_text()), re.M):
            cand = LEAN / (m.group(1).replace(".", "/") + ".lean")
            if cand.exists():
                todo.append(cand)
    return sorted(seen)


class Driver:
    """A compiled Lean line-protocol driver (one request line -> one answer line)."""

    def __init__(self, exe: pathlib.Path, args=()):
        self.exe = exe
        self.args = list(args)

    def ask(self, lines, timeout=600):
        if not lines:
            return []
        data = "\n".join(lines) + "\n"
        p = subprocess.run([str(self.exe)] + self.args, input=data.encode(), capture_output=True, timeout=timeout)
        if p.returncode != 0:
            raise RuntimeError(f"driver {self.exe.name} failed: {p.stderr.decode()[:2000]}")
        out = p.stdout.decode().split("\n")
        if out and out[-1] == "":
            out.pop()
        if len(out) != len(lines):
            raise RuntimeError(f"driver {self.exe.name}: {len(lines)} requests, {len(out)} answers")
        return out


class Ctx:
    def __init__(self, prop: str, tier: str, seed: int):
        self.prop, self.tier, self.seed = prop, tier, seed
        self.rng = random.Random(seed)
        self.t0 = time.time()
        self.counts = {}
        self.samples = []
        self.cases = 0            # evaluations
        self.nontrivial = set()   # digests of distinct non-trivial cases
        self.rule = ""
        self.traces = 0           # model traces compared against the implementation
        self.disagreements = []   # model vs implementation
        self.failures = []        # property failures on the implementation (key, what, replay)
        self.broken = []          # proof obligations / translators that no longer check
        self.obligations = []     # names of theorems
        self.discharged = 0
        self.axioms = {}
        self.checker_cmd = ""
        self.trusted = []
        self.assumptions = []
        self.extra = {}
        self.exhaustive = None
        self._scratch = None
        self.quick = tier == "quick"

    # ---- scratch -------------------------------------------------------------------------------
    @property
    def scratch(self) -> pathlib.Path:
        if self._scratch is None:
            base = os.environ.get("VERIF_SCRATCH_BASE") or tempfile.gettempdir()
            self._scratch = pathlib.Path(tempfile.mkdtemp(prefix=f"nv_{self.prop}_", dir=base))
        return self._scratch

    def cleanup(self):
        if self._scratch is not None:
            shutil.rmtree(self._scratch, ignore_errors=True)
            self._scratch = None

    # ---- counting ------------------------------------------------------------------------------
    def count(self, name, n=1):
        self.counts[name] = self.counts.get(name, 0) + n

    def case(self, obj, nontrivial=True):
        """Register one explored case; `obj` identifies it (for the distinct count)."""
        self.cases += 1
        if nontrivial:
            self.nontrivial.add(hashlib.blake2b(repr(obj).encode(), digest_size=8).digest())

    def sample(self, obj, limit=6):
        if len(self.samples) < limit:
            self.samples.append(obj)

    # ---- Lean ----------------------------------------------------------------------------------
    def lake(self, targets, timeout=3000, then=None):
        """Build targets under a lock. Returns (ok, log).  `then(ok, log)` runs while the lock is still held, so that a
        step that reads the freshly built .olean files (the axiom audit) cannot race with another check's rebuild."""
        LEAN.mkdir(exist_ok=True)
        with open(LEAN / ".lock", "w") as lk:
            fcntl.flock(lk, fcntl.LOCK_EX)
            try:
                p = subprocess.run(["lake", "build"] + list(targets), cwd=LEAN, capture_output=True, text=True, timeout=timeout)
                ok, log = p.returncode == 0, p.stdout + p.stderr
            except subprocess.TimeoutExpired as e:
                ok, log = False, f"lake build timed out after {timeout}s: {e}"
            if then is not None:
                then(ok, log)
            return ok, log

    def prove(self, module_files, exes=(), extra_modules=(), name_filter=None):
        """
        Build the property modules (kernel-checks every theorem in them), the driver executables, then audit:
        forbidden tokens in all project sources, `#print axioms` on every theorem of the property files.
        Records broken obligations in self.broken; never raises on a proof failure.
        """
        mods = ["NunavutVerif.Properties." + m for m in module_files] + list(extra_modules)
        self.checker_cmd = "cd lean && lake build " + " ".join(mods + list(exes)) + " && lake env lean <generated #print axioms file>"
        names = []
        for m in module_files:
            src = (LEAN / "NunavutVerif" / "Properties" / (m + ".lean")).read_text()
            code = strip_lean_comments(src)
            ns = re.findall(r"^namespace\s+(\S+)", code, re.M)
            prefix = (ns[0] + ".") if ns else ""
            names += [prefix + n for n in re.findall(r"^\s*theorem\s+([^\s:({\[]+)", code, re.M)
                      if name_filter is None or name_filter(n)]
        self.obligations = names

        def _audit(ok, log):
            if not ok:
                errs = re.findall(r"^error: .*|^.*: error.*$", log, re.M)
                self.broken.append({"kind": "lake-build", "modules": mods, "errors": errs[:20], "log_tail": log[-3000:]})
                self.discharged = 0
            else:
                # audit: forbidden tokens
                bad = []
                for f in lean_import_closure([LEAN / "NunavutVerif" / "Properties" / (m + ".lean") for m in module_files]
                                             + [exe_root(e) for e in exes]):
                    for mm in FORBIDDEN.finditer(strip_lean_comments(f.read_text())):
                        bad.append(f"{f.relative_to(LEAN)}: {mm.group(0)!r}")
                if bad:
                    self.broken.append({"kind": "forbidden-token", "hits": bad[:20]})
                # audit: axioms
                aud = self.scratch / "Audit.lean"
                aud.write_text("".join(f"import NunavutVerif.Properties.{m}\n" for m in module_files)
                               + "".join(f"#print axioms {n}\n" for n in names))
                p = subprocess.run(["lake", "env", "lean", str(aud)], cwd=LEAN, capture_output=True, text=True, timeout=1200)
                out = p.stdout + p.stderr
                ax = {}
                for m in re.finditer(r"'([^']+)' depends on axioms: \[([^\]]*)\]", out, re.S):
                    ax[m.group(1)] = [a.strip() for a in m.group(2).replace("\n", " ").split(",") if a.strip()]
                for m in re.finditer(r"'([^']+)' does not depend on any axioms", out):
                    ax[m.group(1)] = []
                self.axioms = ax
                good = 0
                for n in names:
                    if n not in ax:
                        self.broken.append({"kind": "axiom-audit-missing", "theorem": n, "output": out[-1500:]})
                    elif not set(ax[n]) <= ALLOWED_AXIOMS:
                        self.broken.append({"kind": "axiom-audit", "theorem": n, "axioms": ax[n]})
                    else:
                        good += 1
                self.discharged = good if not bad else 0
                if self.tier == "thorough" and os.environ.get("VERIF_SKIP_LEANCHECKER") != "1":
                    p = subprocess.run(["lake", "env", "leanchecker"] + mods, cwd=LEAN, capture_output=True, text=True, timeout=3000)
                    self.extra["leanchecker"] = {"rc": p.returncode, "tail": (p.stdout + p.stderr)[-400:]}
                    if p.returncode != 0:
                        self.broken.append({"kind": "leanchecker", "output": (p.stdout + p.stderr)[-2000:]})

        self.lake(mods, then=_audit)
        drivers = {}
        if exes:
            ok2, log2 = self.lake(list(exes))
            if not ok2:
                self.broken.append({"kind": "driver-build", "exes": list(exes), "log_tail": log2[-3000:]})
            else:
                for e in exes:
                    drivers[e] = Driver(LEAN / ".lake" / "build" / "bin" / e)
        self.trusted = [
            "Lean 4.33.0 kernel; axioms of every property theorem audited by #print axioms: subset of {propext, Classical.choice, Quot.sound}",
            "no sorry/admit/axiom/native_decide/bv_decide/implemented_by/unsafe in project sources (grep outside comments)",
        ]
        return drivers

    # ---- results -------------------------------------------------------------------------------
    def disagree(self, stream, inp, model, impl):
        self.disagreements.append({"stream": stream, "input": inp, "model": model, "impl": impl})

    def fail(self, key: dict, what: str, replay: dict):
        """A property failure demonstrated on the implementation."""
        self.failures.append({"key": key, "what": what, "replay": replay})

    def over_budget(self, seconds):
        return time.time() - self.t0 > seconds

    def finish(self) -> int:
        known = json.loads((VERIF / "known_findings.json").read_text()) if (VERIF / "known_findings.json").exists() else {"findings": []}
        findings = [f for f in known.get("findings", []) if f.get("property") == self.prop and "match" in f]
        lines, nviol = [], 0
        REPLAY_DIR.mkdir(parents=True, exist_ok=True)
        seen_known, new_fail = {}, []
        for f in self.failures:
            hit = None
            for k in findings:
                if all(f["key"].get(a) == b for a, b in k["match"].items()):
                    hit = k; break
            if hit is not None:
                seen_known.setdefault(hit["id"], (hit, f))
            else:
                new_fail.append(f)
        for kid, (k, f) in sorted(seen_known.items()):
            lines.append(f"KNOWN-FINDING: property={self.prop} {k['id']}: {k['what']}")
        # group new failures by key
        groups = {}
        for f in new_fail:
            groups.setdefault(json.dumps(f["key"], sort_keys=True), []).append(f)
        for i, (k, fs) in enumerate(sorted(groups.items())):
            path = REPLAY_DIR / f"{self.prop}_{self.tier}_{self.seed}_{i}.json"
            path.write_text(json.dumps({"property": self.prop, "kind": "failing-input", "key": json.loads(k), "what": fs[0]["what"],
                                        "replay": fs[0]["replay"], "occurrences": len(fs), "seed": self.seed, "tier": self.tier,
                                        "repo": str(REPO)}, indent=1, default=str))
            lines.append(f"VIOLATION property={self.prop} replay={path}")
            nviol += 1
        # broken obligations / correspondence without a failing input that explains them
        unexplained = bool(self.broken or self.disagreements) and nviol == 0
        if unexplained:
            path = REPLAY_DIR / f"{self.prop}_{self.tier}_{self.seed}_unchecked.json"
            path.write_text(json.dumps({"property": self.prop, "kind": "no-failing-input-found",
                                        "broken_obligations": self.broken, "correspondence_disagreements": self.disagreements[:20],
                                        "n_disagreements": len(self.disagreements), "known_findings_seen": sorted(seen_known),
                                        "seed": self.seed, "tier": self.tier, "repo": str(REPO)}, indent=1, default=str))
            lines.append(f"VIOLATION property={self.prop} replay={path} no-failing-input-found")
            nviol += 1
        cov = {
            "obligations": len(self.obligations),
            "discharged": self.discharged,
            "checker_cmd": self.checker_cmd or "n/a",
            "trusted_base": self.trusted,
            "theorems": self.obligations,
            "evaluations": self.cases,
            "distinct_nontrivial": len(self.nontrivial),
            "rule": self.rule,
            "samples": self.samples or ["(none)"],
            "traces_validated_against_impl": self.traces,
            "disagreements_checked": len(self.disagreements),
            "branch_counts": self.counts,
            "known_findings_seen": sorted(seen_known),
            "broken_obligations": len(self.broken),
        }
        if self.exhaustive is not None:
            cov["exhaustive"] = self.exhaustive
        cov.update(self.extra)
        ev = {"property_id": self.prop, "tier": self.tier, "seed": self.seed, "level": "proof", "coverage": cov,
              "assumptions": self.assumptions, "wall_s": round(time.time() - self.t0, 2), "violations": nviol}
        EVIDENCE_DIR.mkdir(parents=True, exist_ok=True)
        (EVIDENCE_DIR / f"{self.prop}.json").write_text(json.dumps(ev, indent=1, default=str) + "\n")
        for l in lines:
            print(l)
        print(f"[{self.prop}] tier={self.tier} seed={self.seed} theorems={self.discharged}/{len(self.obligations)} "
              f"cases={self.cases} distinct={len(self.nontrivial)} traces={self.traces} disagreements={len(self.disagreements)} "
              f"failures={len(self.failures)} known={len(seen_known)} violations={nviol} wall={ev['wall_s']}s")
        self.cleanup()
        return 1 if nviol else 0


def enc(s: str) -> str:
    """Python str -> protocol string (code points joined by '.', '-' for empty)."""
    return ".".join(str(ord(c)) for c in s) if s else "-"


def dec(s: str) -> str:
    return "" if s in ("-", "") else "".join(chr(int(t)) for t in s.split("."))
