"""
GenCpp tie (C01 / C02 / C03 / C04) — the implementation-shaped Lean model of the generated C++ codecs
(lean/NunavutVerif/Model/GenCpp.lean, refinement theorems in Properties/C01RefineCpp.lean) against the REAL generated C++.

`run_gencpp(ctx, drivers)` is called after `ctx.prove([... "C01RefineCpp"], exes=["codec", "gencpp"])`:

  structural     the text of every generated `serialize(const T&, bitspan)` / `deserialize(T&, const_bitspan)` of every
                 C++ target of the session (every language standard, asserts on / off) is scanned for its bitspan-method
                 sequence (capacity check, setZeros:N, setBit, setUxx:N / setIxx:N / setF:N, emitted saturation code,
                 padAndMoveToAlignment, loops, length check, subspan:0|32 + nested call, delimiter header, union chain;
                 decode: getBit, getU<W>:N / getI<W>:N / getF:N, add_offset for voids, align_offset_to, clear / reserve /
                 push_back, subspan() / subspan_bytes() calls, header check, set_x(); with
                 enable_serialization_asserts also every emitted NUNAVUT_ASSERT by kind, which pins PyDSDL's
                 `is_aligned_at_byte()` answers to the oracle `exactOrc` of the model) and compared with GenCpp's own
                 path selection (`paths ser|de`).  Cheap; never cut by the budget.
  differential   the same request lines go to (a) every compiled C++ target, (b) the driver `gencpp` with the matching
                 option set (`@cpp[,asserts]`) and (c) the spec driver `codec`.  GenCpp must give the answer of the real
                 C++ byte for byte: produced bytes, error kind, decoded value and consumed size.  Domain: per type the
                 zero value + maximal + random values incl. invalid ones -> `ser`; `serbuf` with EVERY capacity
                 0..max+1 for small types (a sample above); `de` of valid encodings with all truncations, random byte
                 strings, all-ones strings.  GenCpp is also asked with assertions on under the oracle that never claims
                 alignment and with a destination object holding non-default contents (`prior=junk`): all variants must
                 give the same answers (the theorems say the result depends on none of them), never `err:assert` /
                 `err:prim-*` / `err:wrote-beyond-reported-size`.

Bounds: requests whose object exceeds WORK_LIMIT bytes are skipped for GenCpp (list-based model: quadratic; counted
`gencpp:skipped-large`, they stay in the spec-level tie of c01/c02); requests are dealt round robin over the types in
batches, every driver / target call has a timeout, and after the wall budget (quick 30 s, thorough 300 s;
VERIF_GENCPP_BUDGET overrides) the remaining requests are counted `gencpp:skipped-budget`.  Never hangs.

A difference is a correspondence disagreement (streams `gencpp-vs-cpp`, `gencpp-vs-spec`, `gencpp-option-dependence`,
`gencpp-internal`, `gencpp-structure`, `gencpp-support-shape` — the last one: the text of the cursor functions of the
support header that GenCpp transcribes itself, `subspan()`, `subspan_bytes`, `add_offset`, `align_offset_to`,
`offset_bytes_ceil`, the `Error` numbers, is no longer the transcribed text).
"""
import concurrent.futures
import os
import pathlib
import re
import subprocess
import time

from . import common
from . import codec_engine as E
from . import codec_ref as R
from . import codec_targets as T
from . import dsdlgen as G

ALL_CAPS_UPTO = 40        # bytes: every capacity 0..max+1 below this size, a sample above
WORK_LIMIT = 3000         # bytes: larger objects are left to the spec-level tie (gencpp:skipped-large)
BATCH = 600               # requests per round
CALL_TIMEOUT = 120        # seconds, every driver / target call
MAX_DISAGREEMENTS = 60


# ------------------------------------------------------------------------------------------------------------
# structural scan of the generated text
# ------------------------------------------------------------------------------------------------------------

def _assert_token(s, direction):
    """Kind of one NUNAVUT_ASSERT line of the two templates."""
    if re.search(r"NUNAVUT_ASSERT\(_subspan\d+_->offset_alings_to_byte\(\)\);", s):
        return "a:sub"
    if re.search(r"NUNAVUT_ASSERT\((out|in)_buffer\.offset_alings_to_byte\(\)\);", s):
        return "a:byte"
    if re.search(r"NUNAVUT_ASSERT\((out|in)_buffer\.offset_alings_to\(8U\)\);", s):
        return "a:al8"
    m = re.search(r"NUNAVUT_ASSERT\((\d+)ULL <= out_buffer\.size\(\)\);", s)
    if m:
        return "a:room:" + m.group(1)
    if re.search(r"NUNAVUT_ASSERT\(\(_size_bytes\d+_ \* 8U\) (>=|<=|==) \d+ULL\);", s):
        return "a:nsize"
    if re.search(r"NUNAVUT_ASSERT\(\(out_buffer\.offset\(\) - _origin\d+_\) (>=|<=|==) \d+ULL\);", s):
        return "a:asize"
    if re.search(r"NUNAVUT_ASSERT\(out_buffer\.offset\(\) (>=|<=|==) \d+ULL\);", s):
        return "a:fsize"
    if re.search(r"NUNAVUT_ASSERT\(capacity_bits >= _bits_got_\);", s):
        return "a:got"
    return "a:?" + s[:60]


_SER_RULES = [
    (re.compile(r"if \(\(static_cast<std::size_t>\(capacity_bits\)\) < \d+UL\)"), lambda m: "capcheck"),
    (re.compile(r"out_buffer\.setZeros\((\d+)UL\);"), lambda m: "zeros:" + m.group(1)),
    (re.compile(r"out_buffer\.setBit\("), lambda m: "setbit"),
    (re.compile(r"^\S.* _sat\d+_ = [^;]*;$"), lambda m: "sat"),
    (re.compile(r"out_buffer\.setUxx\(.*, (\d+)U\);"), lambda m: "setuxx:" + m.group(1)),
    (re.compile(r"out_buffer\.setIxx\(.*, (\d+)U\);"), lambda m: "setixx:" + m.group(1)),
    (re.compile(r"out_buffer\.setF(16|32|64)\("), lambda m: "setf:" + m.group(1)),
    (re.compile(r"out_buffer\.padAndMoveToAlignment\(8U\);"), lambda m: "pad"),
    (re.compile(r"out_buffer\.padAndMoveToAlignment\("), lambda m: "pad:?"),
    (re.compile(r"for \(std::size_t _index\d+_ = 0U; "), lambda m: "loop"),
    (re.compile(r"return -nunavut::support::Error::SerializationBadArrayLength;"), lambda m: "lencheck"),
    (re.compile(r"out_buffer\.subspan\((\d+)U, _size_bytes\d+_ \* 8U\);"), lambda m: "subspan:" + m.group(1)),
    (re.compile(r"auto _err\d+_ = serialize\(.*, _subspan\d+_\.value\(\)\);"), lambda m: "call"),
    (re.compile(r"\(VariantType::IndexOf::\w+ == _index\d+_\)"), lambda m: "opt"),
    (re.compile(r"return -nunavut::support::Error::RepresentationBadUnionTag;"), lambda m: "tagerr"),
]

_DE_RULES = [
    (re.compile(r"const auto capacity_bits = in_buffer\.size\(\);"), lambda m: "capbits"),
    (re.compile(r"in_buffer\.getBit\(\);"), lambda m: "getbit"),
    (re.compile(r"in_buffer\.getU(8|16|32|64)\((\d+)U\);"), lambda m: f"getu:{m.group(1)}:{m.group(2)}"),
    (re.compile(r"in_buffer\.getI(8|16|32|64)\((\d+)U\);"), lambda m: f"geti:{m.group(1)}:{m.group(2)}"),
    (re.compile(r"in_buffer\.getF(16|32|64)\(\);"), lambda m: "getf:" + m.group(1)),
    (re.compile(r"in_buffer\.add_offset\((\d+)\);"), lambda m: "skip:" + m.group(1)),          # voids only (no `U` suffix)
    (re.compile(r"in_buffer\.align_offset_to<8U>\(\);"), lambda m: "pad"),
    (re.compile(r"in_buffer\.align_offset_to<"), lambda m: "pad:?"),
    (re.compile(r"for \(std::size_t _index\d+_ = 0U; "), lambda m: "loop"),
    (re.compile(r"return -nunavut::support::Error::SerializationBadArrayLength;"), lambda m: "lencheck"),
    (re.compile(r"\.clear\(\);"), lambda m: "clear"),
    (re.compile(r"\.reserve\(_size\d+_\);"), lambda m: "reserve"),
    (re.compile(r"\.push_back\(std::move\(_tmp\d+_\)\);"), lambda m: "push"),
    (re.compile(r"return -nunavut::support::Error::RepresentationBadDelimiterHeader;"), lambda m: "hdrcheck"),
    (re.compile(r"= deserialize\(.*, in_buffer\.subspan_bytes\(_dh\d+_\)\);"), lambda m: "call:bytes"),
    (re.compile(r"= deserialize\(.*, in_buffer\.subspan\(\)\);"), lambda m: "call:rest"),
    (re.compile(r"= deserialize\("), lambda m: "call:?"),
    (re.compile(r"\(VariantType::IndexOf::\w+ == _index\d+_\)"), lambda m: "opt"),
    (re.compile(r"obj\.set_\w+\(\);"), lambda m: "emplace"),
    (re.compile(r"return -nunavut::support::Error::RepresentationBadUnionTag;"), lambda m: "tagerr"),
    (re.compile(r"auto _bits_got_ = std::min<std::size_t>\(in_buffer\.offset\(\), capacity_bits\);"), lambda m: "got"),
]


def function_body(text, short_name, direction):
    """Lines of the generated free function of type `short_name`, up to the closing brace in column 0."""
    if direction == "ser":
        rx = r"^inline nunavut::support::SerializeResult serialize\(const " + re.escape(short_name) + r"& obj,\s*\n\s*nunavut::support::bitspan out_buffer\)\s*\n\{\n"
    else:
        rx = r"^inline nunavut::support::SerializeResult deserialize\(" + re.escape(short_name) + r"& obj,\s*\n\s*nunavut::support::const_bitspan in_buffer\)\s*\n\{\n"
    m = re.search(rx, text, re.M)
    if m is None:
        return None
    end = text.find("\n}\n", m.end() - 1)
    return text[m.end():end if end >= 0 else len(text)].split("\n")


def scan(lines, direction):
    rules = _SER_RULES if direction == "ser" else _DE_RULES
    out = []
    for ln in lines:
        s = ln.strip()
        if not s or s.startswith("//"):
            continue
        if "NUNAVUT_ASSERT" in s:
            out.append(_assert_token(s, direction))
            continue
        for rx, tok in rules:
            m = rx.search(s)
            if m:
                out.append(tok(m))
                break
    return out


def scan_target(target, gt, direction):
    """Method tokens of the generated function of type gt in the output of a C++ target, or None."""
    hdr = target.outdir / "gen" / T._header_path(gt.model, ".hpp")
    if not hdr.exists():
        return None
    text = hdr.read_text()
    # the template breaks `out_buffer.setUxx(` + arguments over lines in places: undo line breaks inside these calls
    text = re.sub(r"(out_buffer\.set[UI]xx\()\s*\n\s*", r"\1", text)
    body = function_body(text, T.cpp_name(gt.model).split("::")[-1], direction)
    if body is None:
        return None
    return scan(body, direction)


# ------------------------------------------------------------------------------------------------------------
# shape of the cursor functions of the support header that GenCpp transcribes itself (C14 models the bit operations,
# not these): a changed text means Model/GenCpp.lean (subspanRest, subspanBytes, padDe, offsetBytesCeil, the error
# numbers) has to be re-transcribed
# ------------------------------------------------------------------------------------------------------------

_SUPPORT_SHAPES = {
    "any_bitspan::subspan()": """
        const std::size_t offset_bits = self.offset_bits_ + bits;
        const std::size_t offset_bytes = (offset_bits) / 8U;
        const std::size_t offset_bits_mod = (offset_bits) % 8U;
        const std::size_t newSize = (offset_bytes < self.data_.size())?(self.data_.size() - offset_bytes):(0U);
        return derived_bitspan(self.data_.data() + offset_bytes, newSize, offset_bits_mod);""",
    "any_bitspan::add_offset": """
    void add_offset(std::size_t bits) noexcept{
        auto& self  = *static_cast<derived_bitspan*>(this);
        self.offset_bits_ += bits;
    }""",
    "any_bitspan::offset_bytes_ceil": """
        const std::size_t offset_bytes = ((self.offset_bits_ + 7U) / 8U);
        return offset_bytes ;""",
    "const_bitspan::subspan_bytes": """
    const_bitspan subspan_bytes(std::size_t size_bytes) const noexcept
    {
        const std::size_t offset_bytes = ((offset_bits_ / 8U) < data_.size()) ? (offset_bits_ / 8U) : data_.size();
        const std::size_t available_bytes = data_.size() - offset_bytes;
        return const_bitspan(data_.data() + offset_bytes, (size_bytes < available_bytes) ? size_bytes : available_bytes);
    }""",
    "const_bitspan::align_offset_to": """
        offset_bits_ = (offset_bits_ + (n_bits - 1)) & ~(static_cast<std::size_t>(n_bits - 1));""",
    "Error": """
    SerializationBufferTooSmall = 3,
    // Invalid representation (caused by bad input data, not API misuse):
    SerializationBadArrayLength=10,
    RepresentationBadUnionTag=11,
    RepresentationBadDelimiterHeader=12
};""",
    "VoidResult::has_value": """bool has_value() const { return e == 0; }""",
}


def _norm(s):
    return re.sub(r"\s+", " ", s).strip()


def support_shape_differences(target):
    """Names of the transcribed support functions whose rendered text is not the transcribed one (None: no header)."""
    hdr = target.outdir / "gen" / "nunavut" / "support" / "serialization.hpp"
    if not hdr.exists():
        return None
    text = _norm(hdr.read_text())
    return [name for name, shape in _SUPPORT_SHAPES.items() if _norm(shape) not in text]


# ------------------------------------------------------------------------------------------------------------
# requests
# ------------------------------------------------------------------------------------------------------------

def _caps(rng, mx):
    if mx <= ALL_CAPS_UPTO:
        return list(range(0, mx + 2))
    pick = {0, 1, mx - 1, mx, mx + 1, mx // 2}
    while len(pick) < 12:
        pick.add(rng.randrange(0, mx + 2))
    return sorted(pick)


def _ser_size(gt, v):
    try:
        return len(R.ser(gt.expr, v))
    except R.CodecError:
        return None


def _de_cheap(gt, b):
    """A byte string whose decoded object is small (a 4-byte string can announce 65 535 elements)."""
    if len(b) > WORK_LIMIT:
        return False
    try:
        v, _ = R.de(gt.expr, b)
    except R.CodecError:
        return True                                  # rejected: the count / tag / header check comes before any loop
    size = _ser_size(gt, v)
    return size is not None and size <= WORK_LIMIT


def requests_of_type(ctx, gt):
    """Requests of one type (deduplicated); skipped-large ones are counted here."""
    rng = ctx.rng
    n_val = 5 if ctx.quick else 12
    want_ser = ctx.prop != "C02"
    want_de = ctx.prop != "C01"
    reqs = []
    mx = R.bounds(gt.expr)[1] // 8
    if want_ser:
        vals = E.value_cases(rng, gt, n_val, p_invalid=0.15)
        for i, v in enumerate(vals):
            size = _ser_size(gt, v)
            cheap = (size if size is not None else mx) <= WORK_LIMIT
            if cheap:
                reqs.append(E.Req(gt, "ser", v))
            else:
                ctx.count("gencpp:skipped-large")
            if i < 2 or (i == 3 and not ctx.quick):
                for cap in _caps(rng, mx):
                    if cheap or cap < mx:            # a too small buffer is refused up front: always cheap
                        reqs.append(E.Req(gt, "serbuf", (v, cap)))
    if want_de:
        for b in E.bytes_cases(rng, gt, 2 if ctx.quick else 5, 4 if ctx.quick else 10):
            if _de_cheap(gt, b):
                reqs.append(E.Req(gt, "de", b))
            else:
                ctx.count("gencpp:skipped-large")
        top = min(mx, WORK_LIMIT)
        ones = bytes([0xFF]) * (top + 1)
        for n in (_caps(rng, mx) if mx <= ALL_CAPS_UPTO else [0, 1, top - 1, top, top + 1]):
            if _de_cheap(gt, ones[:n]):
                reqs.append(E.Req(gt, "de", ones[:n]))
            else:
                ctx.count("gencpp:skipped-large")
    seen, out = set(), []
    for r in reqs:
        k = (r.op, r.text)
        if k not in seen:
            seen.add(k)
            out.append(r)
    return out


def _round_robin(per_type):
    """Interleave the per-type request lists, so that a budget cut thins every type instead of dropping the last ones."""
    out, i = [], 0
    while True:
        row = [rs[i] for rs in per_type if i < len(rs)]
        if not row:
            return out
        out += row
        i += 1


# ------------------------------------------------------------------------------------------------------------
# the tie
# ------------------------------------------------------------------------------------------------------------

def _opt_of(target):
    return "@cpp" + (",asserts" if target.asserts else "")


def _ask(fn, lines, timeout):
    """-> answers, or None on timeout / failure (subprocess.run kills the process on timeout)."""
    try:
        return fn(lines, timeout)
    except (subprocess.TimeoutExpired, RuntimeError, OSError):
        return None


def run_gencpp(ctx, drivers, sess=None, budget=None):
    """Structural + differential tie of GenCpp with the generated C++.  Returns a summary dict (also in ctx.extra)."""
    t_start = time.time()
    budget = float(os.environ.get("VERIF_GENCPP_BUDGET") or budget or (30 if ctx.quick else 300))
    drivers = dict(drivers or {})
    for name in ("gencpp", "codec"):
        if name not in drivers:
            exe = common.LEAN / ".lake" / "build" / "bin" / name
            if not exe.exists():
                ok, log = ctx.lake([name])
                if not ok:
                    ctx.broken.append({"kind": "driver-build", "exes": [name], "log_tail": log[-1500:]})
                    continue
            drivers[name] = common.Driver(exe)
    gencpp, codec = drivers.get("gencpp"), drivers.get("codec")
    if gencpp is None:
        ctx.broken.append({"kind": "driver-missing", "exes": ["gencpp"]})
        return {}
    sess = sess or E.get_session(ctx)
    targets = [t for t in sess.targets if isinstance(t, T.CppTarget) and not t.extra_nnvg]
    summary = {"targets": [t.name for t in targets], "budget_seconds": budget, "limit_bytes": WORK_LIMIT,
               "requests": 0, "skipped_budget": 0, "skipped_timeout": 0}
    n_dis = [0]

    def left():
        return budget - (time.time() - t_start)

    def disagree(stream, inp, model, impl):
        n_dis[0] += 1
        ctx.count("gencpp:" + stream + "-differences")
        if n_dis[0] <= MAX_DISAGREEMENTS:
            ctx.disagree(stream, inp, model, impl)

    if not targets:
        ctx.count("gencpp:no-cpp-target")

    # ---- structural (first: cheap, never cut by the budget) -----------------------------------------------------
    n_struct = 0
    for o in sorted({_opt_of(t) for t in targets}):
        for direction in ("ser", "de"):
            ans = _ask(gencpp.ask, [f"{o} paths {direction} {gt.tstr}" for gt in sess.ns.types], CALL_TIMEOUT)
            if ans is None:
                ctx.broken.append({"kind": "driver-timeout", "exes": ["gencpp"], "what": f"paths {direction}"})
                continue
            for t in targets:
                if _opt_of(t) != o:
                    continue
                for gt, a in zip(sess.ns.types, ans):
                    real = scan_target(t, gt, direction)
                    if real is None:
                        disagree("gencpp-structure", {"type": gt.tstr, "target": t.name, "dir": direction}, a,
                                 "function not found in the generated header")
                        continue
                    model = a.split()[1:] if a.startswith("ok") else [a]
                    n_struct += 1
                    ctx.traces += 1
                    ctx.count("gencpp:structure:" + t.name)
                    if model != real:
                        k = next((i for i, (x, y) in enumerate(zip(model, real)) if x != y), min(len(model), len(real)))
                        disagree("gencpp-structure", {"type": gt.tstr, "target": t.name, "dir": direction, "name": gt.full_name,
                                                      "first_difference_at": k},
                                 " ".join(model[max(0, k - 4):k + 6])[:600], " ".join(real[max(0, k - 4):k + 6])[:600])
    for t in targets:
        bad = support_shape_differences(t)
        ctx.traces += 1
        ctx.count("gencpp:support-shape:" + t.name)
        if bad is None or bad:
            disagree("gencpp-support-shape", {"target": t.name, "functions": bad},
                     "the text transcribed in Model/GenCpp.lean", "nunavut/support/serialization.hpp renders these functions differently")
    summary["structural_comparisons"] = n_struct

    # ---- differential -------------------------------------------------------------------------------------------
    per_type = []
    for gt in sess.ns.types:
        if left() < budget * 0.5:           # generation of requests may not eat the budget
            ctx.count("gencpp:types-without-requests")
            continue
        per_type.append(requests_of_type(ctx, gt))
    reqs = _round_robin(per_type)
    target_opts = sorted({_opt_of(t) for t in targets})
    variants = sorted(set(target_opts) | {"@cpp"}) + ["@cpp,asserts,orc=never", "@cpp,asserts,prior=junk"]
    pos = 0
    with concurrent.futures.ThreadPoolExecutor(max_workers=len(variants) + len(targets) + 1) as ex:
        while pos < len(reqs):
            if left() <= 0:
                n = len(reqs) - pos
                summary["skipped_budget"] += n
                ctx.count("gencpp:skipped-budget", n)
                break
            batch = reqs[pos:pos + BATCH]
            pos += len(batch)
            tmo = max(10, min(CALL_TIMEOUT, left() + 20))
            lines = [r.target_line() for r in batch]
            mlines = [r.model_lines()[0] for r in batch]
            fc = {t.name: ex.submit(_ask, t.ask, lines, tmo) for t in targets}
            fg = {v: ex.submit(_ask, gencpp.ask, [f"{v} {ml}" for ml in mlines], tmo) for v in variants}
            fs = ex.submit(_ask, codec.ask, mlines, tmo) if codec is not None else None
            answers_c = {k: f.result() for k, f in fc.items()}
            answers_g = {k: f.result() for k, f in fg.items()}
            answers_s = fs.result() if fs is not None else None
            if any(a is None for a in answers_g.values()):
                summary["skipped_timeout"] += len(batch)
                ctx.count("gencpp:skipped-timeout", len(batch))
                continue
            summary["requests"] += len(batch)
            for i, r in enumerate(batch):
                e = r.gt.expr
                nan = G.has_nan(e, r.value()) if r.op != "de" else False
                ctx.count("gencpp:op:" + r.op)
                parsed_g = {}
                for o in variants:
                    a = answers_g[o][i]
                    if a.startswith("err:prim-") or a.startswith("err:code") or a in ("err:assert", "bad-op", "err:wrote-beyond-reported-size"):
                        disagree("gencpp-internal", {"type": r.gt.tstr, "op": r.op, "arg": r.text[:2000], "options": o}, a, "a C++ outcome")
                    parsed_g[o] = E.parse_answer(r.op, e, a)
                # GenCpp depends neither on the oracle / assertions nor on the destination's prior contents
                base = parsed_g["@cpp"]
                for o in variants:
                    if E.same_outcome(e, base, parsed_g[o], nan) is not None or E.same_outcome(e, parsed_g[o], base, nan) is not None:
                        disagree("gencpp-option-dependence", {"type": r.gt.tstr, "op": r.op, "arg": r.text[:2000], "options": o},
                                 answers_g["@cpp"][i][:1500], answers_g[o][i][:1500])
                # GenCpp vs the specification driver
                if answers_s is not None:
                    ps = E.parse_answer(r.op, e, answers_s[i])
                    ctx.traces += 1
                    if E.same_outcome(e, ps, base, nan) is not None or E.same_outcome(e, base, ps, nan) is not None:
                        disagree("gencpp-vs-spec", {"type": r.gt.tstr, "op": r.op, "arg": r.text[:2000]},
                                 answers_g["@cpp"][i][:1500], answers_s[i][:1500])
                # GenCpp vs the real C++ of every language standard
                for t in targets:
                    if answers_c[t.name] is None:
                        ctx.count("gencpp:target-timeout:" + t.name)
                        continue
                    got = E.parse_answer(r.op, e, answers_c[t.name][i])
                    want = parsed_g[_opt_of(t)]
                    ctx.traces += 1
                    ctx.count("gencpp:answers:" + t.name)
                    if got[0] == "na":                      # the C++ object cannot hold this value (union tag out of range)
                        ctx.count("gencpp:not-applicable:" + t.name)
                        continue
                    if E.same_outcome(e, want, got, nan) is not None or (got[0] == "err") != (want[0] == "err"):
                        disagree("gencpp-vs-cpp", {"type": r.gt.tstr, "op": r.op, "arg": r.text[:2000], "target": t.name},
                                 answers_g[_opt_of(t)][i][:1500], answers_c[t.name][i][:1500])
    summary["differences"] = n_dis[0]
    summary["seconds"] = round(time.time() - t_start, 2)
    ctx.extra["gencpp_tie"] = summary
    return summary


# ------------------------------------------------------------------------------------------------------------
# stand-alone use during development:  python -m harness.gencpp_tie [quick|thorough] [seed]
# ------------------------------------------------------------------------------------------------------------

def _main(argv):
    tier = argv[1] if len(argv) > 1 else "quick"
    seed = int(argv[2]) if len(argv) > 2 else 1
    ctx = common.Ctx(os.environ.get("GENCPP_PROP", "C03"), tier, seed)
    bindir = pathlib.Path(os.environ.get("GENCPP_BIN", str(common.LEAN / ".lake" / "build" / "bin")))
    drivers = {"gencpp": common.Driver(bindir / "gencpp"), "codec": common.Driver(bindir / "codec")}

    def plan(ns, base, tier):
        ts = [T.CppTarget(ns, base / "cpp14_asserts", "c++14", asserts=True),
              T.CppTarget(ns, base / "cpp17", "c++17"),
              T.CppTarget(ns, base / "cpp17pmr", "c++17-pmr"),
              T.CppTarget(ns, base / "cpp20", "c++20")]
        if tier != "quick":
            ts += [T.CppTarget(ns, base / "cpp14", "c++14"),
                   T.CppTarget(ns, base / "cpp20_asserts", "c++20", asserts=True)]
        return ts
    import random
    ns_seed = random.Random(seed).getrandbits(64)
    sess = E.Session(seed, tier, 40 if tier == "quick" else 200, ns_seed, plan=plan)
    for t, stage, log in sess.build_failures:
        print("BUILD FAILURE", t.name, stage, log[-800:])
    s = run_gencpp(ctx, drivers, sess=sess)
    print(s)
    print("traces", ctx.traces, "disagreements", len(ctx.disagreements), "broken", ctx.broken)
    for d in ctx.disagreements[:12]:
        print(str(d)[:1500])
    print({k: v for k, v in sorted(ctx.counts.items()) if k.startswith("gencpp:")})
    sess.cleanup()
    return 1 if ctx.disagreements or ctx.broken else 0


if __name__ == "__main__":
    import sys
    sys.exit(_main(sys.argv))
