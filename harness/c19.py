"""
C19 — the bundled template engine is a conservative extension of stock Jinja2.

Proof: lean/NunavutVerif/Properties/C19.lean (lexer root rule of both engines, `lineprefix`, assert / ifuses).
Tie (correspondence, `lexer` driver):
  * isSpace of the model vs Python `re` `\\s` on every code point;
  * the root pattern text of the real bundled lexer vs the pattern the model describes;
  * the model's scan vs the real bundled lexer's token stream (and vs the same lexer with Nunavut's alternatives
    cut out of its pattern = upstream of the same line) on exhaustive short sources + random longer ones, both
    `lstrip_blocks` settings;
  * `lineprefix` of the model vs `do_lineprefix` on exhaustive short strings x prefixes;
  * marker placements x line-ending styles rendered by the real engine vs the model's prediction;
  * `{% assert %}` / `{% ifuses %}` chains in the real CodeGenEnvironment vs the model;
  * differential: grammar-generated templates (harness/jinja_grammar.py) rendered by the bundled engine, by the
    bundled engine with the unedited lexer pattern, and by the stock Jinja2 of the environment.
Failing-input search (the property's statements as predicates on the real engines):
  (i)  bundled != stock (or != unedited) on a template without `{{*` / `{%*`;
  (ii) a marker construct whose rendering != plain construct with every non-empty line prefixed by the blanks in
       front of the marker; (iii) assert / ifuses != the ordinary conditional rendered by stock Jinja2.
"""
import copy
import itertools
import json
import re
import signal
import types

from . import common
from .common import enc, dec
from . import jinja_grammar as G
from . import c19_lexer as FL
from . import c19_autoindent as AI
from . import c19_glue as GL

BREAKS = "\n\r\x0b\x0c\x1c\x1d\x1e\x85\u2028\u2029"
_LINE = re.compile("([^" + BREAKS + "]*)(\r\n|[" + BREAKS + "]|$)")
MARKERS = ("{{*", "{%*")           # what the (repaired) lexer treats as auto-indent markers
LEX_ALPHA = ["{", "%", "#", "*", "}", "-", " ", "\t", "\n", "a"]
LEX_FRAGS = ["{%", "{{", "{#", "%}", "}}", "#}", "*", "-", "+", " ", " ", "\t", "\n", "a", "raw", "endraw", "x", "'", '"', "|", "(", ")", "{", "}", "if", "\xa0"]


class Timeout(Exception):
    pass


def _alarm(signum, frame):
    raise Timeout()


def guarded(fn, seconds=10):
    signal.signal(signal.SIGALRM, _alarm)
    signal.setitimer(signal.ITIMER_REAL, seconds)
    try:
        return fn()
    finally:
        signal.setitimer(signal.ITIMER_REAL, 0)


# --------------------------------------------------------------------------------------------------
# engines
# --------------------------------------------------------------------------------------------------
def modules():
    import nunavut.jinja.jinja2 as bj
    import nunavut.jinja.jinja2.ext  # noqa: F401
    import nunavut.jinja.jinja2.lexer  # noqa: F401
    import jinja2 as sj
    return bj, sj


def star_alternatives(env):
    e = re.escape
    return {k: r"|[ \t]*" + e(s) + r"\*" for k, s in (("block", env.block_start_string), ("variable", env.variable_start_string),
                                                       ("comment", env.comment_start_string))}


def unedited_lexer(bj, env):
    """The bundled lexer with Nunavut's `[ \\t]*<start>\\*` alternatives cut out of the root pattern (= upstream 2.11.dev)."""
    from nunavut.jinja.jinja2.lexer import Lexer
    lx = Lexer(env)
    rx, toks, new = lx.rules["root"][0]
    pat = rx.pattern
    for alt in star_alternatives(env).values():
        pat = pat.replace(alt, "")
    lx.rules["root"][0] = (re.compile(pat, rx.flags), toks, new)
    return lx


def model_pattern(star, comment_star, lstrip):
    """The root pattern exactly as Model/Lexer.lean describes it (default delimiters)."""
    b, v, c, be = r"\{%", r"\{\{", r"\{\#", r"%\}"
    def st(s, on):
        return (r"[ \t]*" + s + r"\*|") if on else ""
    if lstrip:
        bp = r"^[ \t]*" + b + r"(?!\+)|" + b + r"\+?"
        cp = r"^[ \t]*" + c + "|" + c + r"\+?"
    else:
        bp, cp = b, c
    raw = r"(?P<raw_begin>(?:\s*" + b + r"\-|" + st(b, star) + bp + r")\s*raw\s*(?:\-" + be + r"\s*|" + be + "))"
    var = r"(?P<variable_begin>\s*" + v + r"\-|" + st(v, star) + v + ")"
    com = r"(?P<comment_begin>\s*" + c + r"\-|" + st(c, comment_star) + cp + ")"
    blk = r"(?P<block_begin>\s*" + b + r"\-|" + st(b, star) + bp + ")"
    return "(.*?)(?:" + "|".join([raw, var, com, blk]) + ")"


DEFAULT_OPTS = {"keep_trailing_newline": True, "newline_sequence": "\n", "line_statement_prefix": None, "line_comment_prefix": None}


def make_env(mod, templates, trim=False, lstrip=False, unedited=False, opts=None):
    """An Environment configured like nunavut/jinja/environment.py configures CodeGenEnvironment (`opts` varies the
    settings Nunavut leaves fixed: keep_trailing_newline, newline_sequence, line statement / comment prefixes)."""
    o = dict(DEFAULT_OPTS)
    o.update(opts or {})
    bj, sj = modules()
    ext = ["jinja2.ext.do", "jinja2.ext.loopcontrols"] if mod is sj else ["nunavut.jinja.jinja2.ext.do", "nunavut.jinja.jinja2.ext.loopcontrols"]
    cls = mod.Environment
    if unedited:
        class Unedited(bj.Environment):
            @property
            def lexer(self):
                lx = self.__dict__.get("_c19_lexer")
                if lx is None:
                    lx = self.__dict__["_c19_lexer"] = unedited_lexer(bj, self)
                return lx
        cls = Unedited
    return cls(loader=mod.DictLoader(templates), undefined=mod.StrictUndefined, keep_trailing_newline=o["keep_trailing_newline"],
               newline_sequence=o["newline_sequence"], line_statement_prefix=o["line_statement_prefix"],
               line_comment_prefix=o["line_comment_prefix"], trim_blocks=trim,
               lstrip_blocks=lstrip, auto_reload=False, cache_size=400, extensions=ext,
               autoescape=mod.select_autoescape(enabled_extensions=("htm", "html", "xml", "json"), default_for_string=False, default=False))


_ADDR = re.compile(r"0x[0-9a-f]{8,}", re.I)


def render(mod, templates, main, context, trim=False, lstrip=False, unedited=False, opts=None):
    """-> ('ok', text) | ('err', ExceptionClassName)"""
    def go():
        env = make_env(mod, templates, trim, lstrip, unedited, opts)
        return env.get_template(main).render(**copy.deepcopy(context))
    try:
        return ("ok", _ADDR.sub("0x?", guarded(go)))
    except Timeout:
        return ("err", "Timeout")
    except RecursionError:
        return ("err", "RecursionError")
    except Exception as e:  # noqa: BLE001 - the class name is the observation
        return ("err", type(e).__name__)


# --------------------------------------------------------------------------------------------------
# lexer: real token stream -> root steps
# --------------------------------------------------------------------------------------------------
def normalise_source(src, keep_trailing_newline=True):
    lines = src.splitlines()
    if keep_trailing_newline and src:
        for nl in ("\r\n", "\r", "\n"):
            if src.endswith(nl):
                lines.append("")
                break
    return "\n".join(lines)


def real_steps(lexer, src, TemplateSyntaxError):
    """Root-rule applications of the real lexer on `src` (already newline-normalised):
    events like the model's `scan`, plus what each tag state consumed (keyed by the text length left on entry)."""
    evs, table = [], {}
    pos, data, state, start = 0, "", None, None
    try:
        for _lineno, tok, val in lexer.tokeniter(src, None):
            if state is None:
                if tok == "data":
                    data += val
                    pos += len(val)
                elif tok.endswith("_begin"):
                    kind = tok[:-6]
                    evs.append(("T", data, kind, val))
                    data = ""
                    pos += len(val)
                    state, start = kind, pos
                else:
                    raise AssertionError(("unexpected root token", tok))
            else:
                pos += len(val)
                if tok == state + "_end":
                    table[len(src) - start] = pos - start
                    state = None
    except TemplateSyntaxError:
        if state is None:
            raise
        table[len(src) - start] = "x"
        evs.append(("E",))
        return evs, table
    if state is not None:      # source ends inside a tag: the lexer stops, the parser reports
        table[len(src) - start] = "x"
        evs.append(("E",))
        return evs, table
    if data:
        evs.append(("L", data))
    if pos != len(src):
        raise AssertionError(("tokens do not cover the source", src, pos))
    return evs, table


def scan_request(cfg, src, table):
    t = ",".join(f"{k}={v}" for k, v in sorted(table.items())) or "-"
    return f"scan {cfg} 1 {enc(src)} {t}"


def parse_scan(a):
    if a == "-":
        return []
    out = []
    for e in a.split(";"):
        f = e.split(" ")
        if f[0] == "T":
            out.append(("T", dec(f[1]), f[2], dec(f[3])))
        elif f[0] == "L":
            out.append(("L", dec(f[1])))
        else:
            out.append(("E",))
    return out


def tokens_of(lexer, src, TemplateSyntaxError):
    out = []
    try:
        for _l, tok, val in lexer.tokeniter(src, None):
            out.append((tok, val))
    except TemplateSyntaxError:
        out.append(("ERROR", ""))
    return out


def tokens_31(sj_lexer, src, exc):
    out = []
    try:
        for _l, tok, val in sj_lexer.tokeniter(src, None):
            out.append((tok, val))
    except exc:
        out.append(("ERROR", ""))
    return out


def loose(tokens):
    """token stream up to what both upstream lines agree to differ in: blanks in front of `-` begin tokens are
    part of the token in 2.x and stripped from the data in 3.x."""
    out = []
    for tok, val in tokens:
        if tok.endswith("_begin"):
            val = val.lstrip()
        if tok == "data" and out and out[-1][0] == "data":
            out[-1] = ("data", out[-1][1] + val)
            continue
        out.append((tok, val))
    # 2.x leaves the whitespace in front of `{%-` inside the begin token, 3.x strips it from the data token
    res = []
    for i, (tok, val) in enumerate(out):
        if tok == "data" and i + 1 < len(out) and out[i + 1][0].endswith("_begin") and out[i + 1][1].endswith("-"):
            val = val.rstrip()
            if not val:
                continue
        res.append((tok, val))
    return res


# --------------------------------------------------------------------------------------------------
# lineprefix: independent reference of the property
# --------------------------------------------------------------------------------------------------
def split_keep(s):
    out = []
    for m in _LINE.finditer(s):
        c, t = m.groups()
        if not c and not t:
            continue
        out.append((c, t))
    return out


def ref_prefix(p, s):
    """`p` in front of every non-empty line of `s`, nothing else changed."""
    return "".join(((p + c) if c else c) + t for c, t in split_keep(s))


def classify_prefix(p, s, got):
    """name the defect class of a deviation of `got` from `ref_prefix(p, s)`"""
    lt = split_keep(s)
    if lt and lt[-1][1]:
        cut = "".join(c + t for c, t in lt[:-1]) + lt[-1][0]
        if got == ref_prefix(p, cut):
            return "lineprefix-final-newline"
    norm = "".join(c + ("\n" if i + 1 < len(lt) else "") for i, (c, t) in enumerate(lt))
    if got == ref_prefix(p, norm):
        return "lineprefix-terminator-rewritten"
    return "lineprefix-other"


_FAIL_CAP = 25


def fail(ctx, key, what, replay_):
    """ctx.fail, but keep at most _FAIL_CAP replays per defect class (all occurrences are counted)."""
    k = "failures:" + key["kind"]
    ctx.count(k)
    if ctx.counts[k] <= _FAIL_CAP:
        ctx.fail(key, what, replay_)


# --------------------------------------------------------------------------------------------------
def run(ctx: common.Ctx):
    # ---- translator: data part of the tag rules (regenerated on every run) --------------------------------------
    import sys as _sys
    _sys.path.insert(0, str(common.VERIF))
    try:
        from translate import lexer_tables
        _t, changed = lexer_tables.generate()
        ctx.extra["translator"] = {"file": "lean/NunavutVerif/Gen/LexerTables.lean", "rewritten": changed, "word_ranges": len(_t["word"]),
                                   "digit_ranges": len(_t["digit"]), "operators": len(_t["operators"])}
    except Exception as e:  # noqa: BLE001 - Unsupported or a crash in the real module: the tie is broken
        ctx.broken.append({"kind": "translator", "error": f"{type(e).__name__}: {e}"})
    drivers = ctx.prove(["C19"], exes=["lexer"])
    drv = drivers.get("lexer")
    bj, sj = modules()
    from nunavut.jinja.jinja2.lexer import Lexer
    from nunavut.jinja.jinja2.filters import do_lineprefix
    rng = ctx.rng
    quick = ctx.quick
    ctx.rule = ("whole lexer: every source up to length L over the delimiter alphabet and `{{`/`{%` + every string up to length L over the tag alphabet + random fragment strings, x trim/lstrip x line prefixes x keep_trailing_newline, token by token with line numbers, and what wrap hands to the parser; marker vs plain construct token streams; "
                "nested marker templates: syntax tree and rendering; marked statements of every kind under inheritance; builder states; assert reports; ifuses argument kinds; "
                "root rule: every source up to length L over {{ { % # * } - space tab newline a }} + random fragment strings, x lstrip_blocks off/on; "
                "lineprefix: every string up to length L over {a,space,LF,CR,U+2028,VT} x 4 prefixes + random over all ten boundaries; marker placements x "
                "line-ending styles; assert/ifuses chains x query valuations; differential: grammar-generated template sets x random contexts x "
                "trim/lstrip settings; non-trivial = contains a begin sequence / a line boundary / a tag; distinct by input")
    ctx.assumptions = [
        "the tag states (block, variable, comment, raw) are a parameter of the root-rule model `scan`; they are concrete in the whole-lexer model `lexF` (round 2)",
        "default delimiters (environment.py configures none; checked on the real CodeGenEnvironment for every builder state)",
        "line statement / line comment prefixes are transcribed for prefixes that are non-empty and do not begin with a white-space character (Nunavut configures neither)",
        "Lexer.wrap: the value conversions (str / string unescape / int / float / operator name) are functions of the token text alone and are not modelled; token types, line numbers, dropped tokens and data newline normalisation are",
        "the subparse / render model keeps expressions and the inside of statements as text (valuation) and is about templates whose tags are well formed for the upstream parser; marker theorems for whole token streams: data in front of the marker without `{` and not ending in a blank",
        "Python truthiness of the asserted expression is the abstraction boundary of the assert model",
        "parser, compiler and runtime of the bundled engine are covered by the differential tie only (vendored third-party code, not modelled)",
        "constructs on which upstream 2.x and 3.x themselves differ are outside the common language: " + "; ".join(G.EXCLUDED),
    ]
    corpus = {"lexer": [], "lineprefix": [], "markers": [], "templates": [], "autoindent": []}
    cdir = common.VERIF / "corpus" / "C19"
    if cdir.exists():
        for f in sorted(cdir.glob("*.json")):
            for k, v in json.loads(f.read_text()).items():
                if k in corpus:
                    corpus[k] += v

    # ---- tie 0: configuration of the real environment ---------------------------------------------
    from nunavut.jinja.environment import CodeGenEnvironmentBuilder
    from nunavut.lang import LanguageContextBuilder
    qtpl = {}
    cge = CodeGenEnvironmentBuilder(bj.DictLoader(qtpl), LanguageContextBuilder().set_target_language("c").create()).create()
    conf = {"block": (cge.block_start_string, cge.block_end_string), "variable": (cge.variable_start_string, cge.variable_end_string),
            "comment": (cge.comment_start_string, cge.comment_end_string), "line_statement_prefix": cge.line_statement_prefix,
            "line_comment_prefix": cge.line_comment_prefix, "keep_trailing_newline": cge.keep_trailing_newline, "trim_blocks": cge.trim_blocks,
            "lstrip_blocks": cge.lstrip_blocks, "newline_sequence": cge.newline_sequence, "undefined": cge.undefined.__name__,
            "extensions": sorted(x.rsplit(".", 1)[1] for x in cge.extensions)}
    ctx.extra["codegen_environment"] = conf
    ctx.exhaustive = False
    want = {"block": ("{%", "%}"), "variable": ("{{", "}}"), "comment": ("{#", "#}"), "line_statement_prefix": None, "line_comment_prefix": None,
            "keep_trailing_newline": True, "trim_blocks": False, "lstrip_blocks": False, "newline_sequence": "\n", "undefined": "StrictUndefined",
            "extensions": ["ExprStmtExtension", "JinjaAssert", "LoopControlExtension", "UseQuery"]}
    if conf != want:
        ctx.broken.append({"kind": "environment-configuration", "what": "CodeGenEnvironment is no longer configured as the model and the differential assume",
                           "found": conf, "assumed": want})
    impl_variant = {}
    for lstrip in (False, True):
        pat = Lexer(make_env(bj, {}, lstrip, lstrip)).rules["root"][0][0].pattern
        v = "repaired" if pat == model_pattern(True, False, lstrip) else "before-fix" if pat == model_pattern(True, True, lstrip) else \
            "upstream" if pat == model_pattern(False, False, lstrip) else "unknown"
        impl_variant[lstrip] = v
        if v not in ("repaired", "before-fix"):
            ctx.broken.append({"kind": "root-pattern", "what": "the root pattern of the bundled lexer is not one the model describes", "lstrip": lstrip, "pattern": pat})
    ctx.extra["bundled_root_pattern"] = impl_variant[False]

    # ---- corpus templates first (so that a replay of a rendering difference leads its defect class) ----------------
    for c in corpus["templates"]:
        compare_template_set(ctx, bj, sj, c["templates"], c["main"], c.get("context", {}), c.get("trim_blocks", False), c.get("lstrip_blocks", False), "corpus", c.get("environment_options"))

    # ---- tie 1: isSpace == Python \s on every code point ---------------------------------------------
    if drv is not None:
        cps = [c for c in range(0x110000) if not 0xD800 <= c <= 0xDFFF]
        ans = drv.ask([f"isspace {c}" for c in cps])
        ws = re.compile(r"\s")
        for c, a in zip(cps, ans):
            real = "1" if ws.match(chr(c)) else "0"
            if a != real:
                ctx.disagree("isspace", c, a, real)
        ctx.extra["isspace_codepoints_compared"] = len(cps)

    # ---- tie 2 + search (i) at the lexer level ----------------------------------------------------------
    maxlen = 4 if quick else 6      # quick: the whole-lexer tie (2a) covers the same root rule on the same alphabet
    lex_cases = [normalise_source(s) for s in corpus["lexer"]]
    ncorp = len(lex_cases)
    for L in range(0, maxlen + 1):
        for tup in itertools.product(LEX_ALPHA, repeat=L):
            lex_cases.append("".join(tup))
    nexh = len(lex_cases) - ncorp
    nrand = 6000 if quick else 80000
    for _ in range(nrand):
        lex_cases.append(normalise_source("".join(rng.choice(LEX_FRAGS) for _ in range(rng.randint(3, 24)))))
    ctx.extra["lexer_domain"] = {"corpus": ncorp, "exhaustive": nexh, "max_length": maxlen, "random": nrand, "lstrip_settings": 2}
    TSE = bj.TemplateSyntaxError
    s31 = {False: sj.lexer.Lexer(make_env(sj, {})), True: None}
    n31diff = 0
    for lstrip in (False, True):
        env = make_env(bj, {}, trim=lstrip, lstrip=lstrip)
        real_lx = Lexer(env)
        plain_lx = unedited_lexer(bj, env)
        cfgB, cfgS = ("B1", "S1") if lstrip else ("B0", "S0")
        reqs, reals = [], []
        for s in lex_cases:
            evs, tab = real_steps(real_lx, s, TSE)
            reals.append(evs)
            reqs.append(scan_request(cfgB, s, tab))
            evs2, tab2 = real_steps(plain_lx, s, TSE)
            reals.append(evs2)
            reqs.append(scan_request(cfgS, s, tab2))
        ans = drv.ask(reqs, timeout=1500) if drv is not None else [None] * len(reqs)
        for i, s in enumerate(lex_cases):
            rb, ru = reals[2 * i], reals[2 * i + 1]
            begins = sum(1 for e in rb if e[0] == "T")
            ctx.case(("lex", lstrip, s), begins > 0)
            has_marker = any(m in s for m in MARKERS)
            ctx.count("lex:marker" if has_marker else "lex:no-marker")
            if "{#*" in s:
                ctx.count("lex:comment-star")
            if ans[2 * i] is not None:
                ctx.traces += 2
                mb, mu = parse_scan(ans[2 * i]), parse_scan(ans[2 * i + 1])
                if mb != rb:
                    ctx.disagree("lexer-bundled", {"source": s, "lstrip": lstrip}, mb, rb)
                if mu != ru:
                    ctx.disagree("lexer-unedited", {"source": s, "lstrip": lstrip}, mu, ru)
            # the property on the implementation: without a marker the edit is invisible
            if not has_marker and rb != ru:
                tb, tu = tokens_of(real_lx, s, TSE), tokens_of(plain_lx, s, TSE)
                kind = "comment-star-loses-blanks" if "{#*" in s else "lexer-differs-without-marker"
                fail(ctx, {"kind": kind}, "the bundled lexer tokenises a template without auto-indent marker differently from the lexer without Nunavut's alternatives",
                         {"stream": "lexer", "source": s, "lstrip_blocks": lstrip, "bundled_tokens": tb, "unedited_tokens": tu})
            if not lstrip and not has_marker and "{#*" not in s and "+" not in s:
                a, b = loose(tokens_of(real_lx, s, TSE)), loose(tokens_31(s31[False], s, sj.TemplateSyntaxError))
                if a != b:
                    n31diff += 1
                    if n31diff <= 3:
                        ctx.extra.setdefault("lexer_2x_vs_3x_samples", []).append({"source": s, "bundled": a[:8], "stock": b[:8]})
    ctx.extra["lexer_streams_differing_between_2x_and_3x_not_caused_by_the_edit"] = n31diff
    for s in ("ab\n  {%* include x %}\n", "a  {%- if x -%}  b {{ y }}"):
        evs, tab = real_steps(Lexer(make_env(bj, {})), s, TSE)
        ctx.sample({"lexer_source": s, "root_steps": evs, "tag_state_consumed": tab})
    ctx.sample({"lineprefix": ["  ", "a\n\nb\r\n"], "do_lineprefix": do_lineprefix("a\n\nb\r\n", "  "), "property_reference": ref_prefix("  ", "a\n\nb\r\n")})

    # ---- tie 2a: the whole state machine (Model/LexerFull.lean) vs Lexer.tokeniter / Lexer.wrap, every setting ---------
    import time as _t
    _t0 = _t.time(); ctx.extra["stream_seconds"] = {"before_full_lexer": round(_t0 - ctx.t0, 1)}
    FL.run_full_lexer(ctx, drv, bj, sj, [normalise_source(s) for s in corpus["lexer"]] + list(corpus["lexer"]),
                      "O" if impl_variant.get(False) == "before-fix" else "B", fail)
    ctx.extra["stream_seconds"]["full_lexer"] = round(_t.time() - _t0, 1)

    # ---- tie 2b: Lexer.tokeniter's source normalisation (keep_trailing_newline off/on) -------------------------
    _t0 = _t.time()
    run_normalisation(ctx, drv, bj, sj)
    ctx.extra["stream_seconds"]["normalisation"] = round(_t.time() - _t0, 1); _t0 = _t.time()

    # ---- tie 3 + search (ii-a): lineprefix -----------------------------------------------------------------
    lp_alpha = ["a", " ", "\n", "\r", "\u2028", "\x0b"]
    lp_prefixes = ["", " ", "\t ", ">>"]
    lp_len = 5 if quick else 7
    lp_cases = [(p, s) for p, s in corpus["lineprefix"]]
    for L in range(0, lp_len + 1):
        for tup in itertools.product(lp_alpha, repeat=L):
            s = "".join(tup)
            for p in lp_prefixes:
                lp_cases.append((p, s))
    full = ["a", "b", " ", "é"] + list(BREAKS) + ["\r\n"]
    for _ in range(3000 if quick else 60000):
        lp_cases.append((rng.choice(lp_prefixes + ["\n", "    "]), "".join(rng.choice(full) for _ in range(rng.randint(0, 14)))))
    ans = drv.ask([f"lp {enc(p)} {enc(s)}" for p, s in lp_cases], timeout=1500) if drv is not None else [None] * len(lp_cases)
    plain = drv.ask([f"plain {enc(s)}" for _p, s in lp_cases], timeout=1500) if drv is not None else [None] * len(lp_cases)
    for (p, s), a, pl in zip(lp_cases, ans, plain):
        got = do_lineprefix(s, p)
        ctx.case(("lp", p, s), any(c in s for c in BREAKS))
        if a is not None:
            ctx.traces += 1
            if dec(a) != got:
                ctx.disagree("lineprefix", {"prefix": p, "s": s}, dec(a), got)
        want_ = ref_prefix(p, s)
        if pl == "1":
            ctx.count("lineprefix:in-proved-region")
            if got != want_:   # the _partial theorem says this cannot happen
                fail(ctx, {"kind": "lineprefix-other"}, "lineprefix deviates inside the region the partial theorem covers", {"stream": "lineprefix", "prefix": p, "s": s, "got": got, "expected": want_})
        elif got != want_:
            kind = classify_prefix(p, s, got)
            ctx.count(kind)
            fail(ctx, {"kind": kind}, "lineprefix changes more than the prefixes: " + kind, {"stream": "lineprefix", "prefix": p, "s": s, "got": got, "expected": want_})
    # Markup and non-string input
    for val in (bj.Markup("<b>\nx"), 5, 2.5, None, ["a"]):
        try:
            got = ("ok", str(do_lineprefix(val, " ")))
        except Exception as e:  # noqa: BLE001
            got = ("err", type(e).__name__)
        want_ = ("ok", ref_prefix(" ", str(val)))
        ctx.case(("lp-nonstr", repr(val)))
        if got != want_ and not isinstance(val, str):
            fail(ctx, {"kind": "lineprefix-nonstring"}, "lineprefix fails on a value that the plain expression renders", {"stream": "lineprefix-nonstring", "value": repr(val), "got": got, "expected": want_})
        elif got != want_:
            fail(ctx, {"kind": classify_prefix(" ", str(val), got[1] if got[0] == "ok" else "")}, "lineprefix on Markup", {"stream": "lineprefix-nonstring", "value": repr(val), "got": got, "expected": want_})

    # ---- tie 4 + search (ii): marker placements x line-ending styles ----------------------------------------
    ctx.extra["stream_seconds"]["lineprefix"] = round(_t.time() - _t0, 1); _t0 = _t.time()
    run_markers(ctx, drv, bj, sj, corpus["markers"])
    ctx.extra["stream_seconds"]["markers"] = round(_t.time() - _t0, 1); _t0 = _t.time()

    # ---- tie 4b + search (ii), nested: Parser.subparse autoindent wrapping composed with lineprefix ------------------------
    AI.run_autoindent(ctx, drv, bj, "O" if impl_variant.get(False) == "before-fix" else "B", fail, ref_prefix, split_keep, corpus["autoindent"])
    AI.run_marked_statements(ctx, drv, bj, sj, fail, ref_prefix, split_keep)
    AI.run_line_statements(ctx, drv, bj, sj, "O" if impl_variant.get(False) == "before-fix" else "B", fail)
    ctx.extra["stream_seconds"]["autoindent"] = round(_t.time() - _t0, 1); _t0 = _t.time()

    # ---- tie 5 + search (iii): assert / ifuses in the real CodeGenEnvironment -------------------------------
    run_extensions(ctx, drv, bj, sj, cge, qtpl)
    GL.run_glue(ctx, drv, bj, sj, fail)
    ctx.extra["stream_seconds"]["extensions"] = round(_t.time() - _t0, 1); _t0 = _t.time()

    # ---- tie 6 + search (i): differential ------------------------------------------------------------------
    run_differential(ctx, bj, sj, corpus["templates"])
    ctx.extra["stream_seconds"]["expressions+differential"] = round(_t.time() - _t0, 1)


# --------------------------------------------------------------------------------------------------
def lexed_source(lexer, src, exc):
    """what the rules of a lexer actually see: the concatenation of all token texts (None when lexing raises)"""
    try:
        return "".join(v for _l, _t, v in lexer.tokeniter(src, None))
    except exc:
        return None


def run_normalisation(ctx, drv, bj, sj):
    from nunavut.jinja.jinja2.lexer import Lexer
    alpha = ["a", " ", "\n", "\r", "\x0c", "\u2028"]
    maxlen = 6 if ctx.quick else 7
    cases = []
    for L in range(0, maxlen + 1):
        for tup in itertools.product(alpha, repeat=L):
            cases.append("".join(tup))
    frags = LEX_FRAGS + ["\r", "\r\n", "\n\n", "\x85", "\x0b"]
    for _ in range(3000 if ctx.quick else 40000):
        body = "".join(ctx.rng.choice(frags) for _ in range(ctx.rng.randint(0, 12)))
        cases.append(body + ctx.rng.choice(["", "\n", "\r\n", "\r"]) * ctx.rng.randint(0, 3))
    exotic = re.compile("[\x0b\x0c\x1c\x1d\x1e\x85\u2028\u2029]")
    for keep in (False, True):
        o = {"keep_trailing_newline": keep}
        blx = Lexer(make_env(bj, {}, opts=o))
        slx = sj.lexer.Lexer(make_env(sj, {}, opts=o))
        ans = drv.ask([f"norm {int(keep)} {enc(s)}" for s in cases], timeout=1500) if drv is not None else [None] * len(cases)
        for s, a in zip(cases, ans):
            real = lexed_source(blx, s, bj.TemplateSyntaxError)
            ctx.case(("norm", keep, s), s.endswith(("\n", "\r")))
            if real is None:
                ctx.count("norm:lexer-error")
                continue
            if s.endswith(("\n\n", "\r\r", "\n\r", "\r\n\r\n")):
                ctx.count("norm:two-or-more-final-breaks")
            if a is not None:
                ctx.traces += 1
                if dec(a) != real:
                    ctx.disagree("normalise-source", {"source": s, "keep_trailing_newline": keep}, dec(a), real)
            # the property on the implementation: same text reaches the rules as in stock Jinja2 (common line breaks only)
            # (pure data only: 3.x strips the whitespace in front of `{%-` outside the token stream)
            if "{" not in s:
                st = lexed_source(slx, s, sj.TemplateSyntaxError)
                if st is not None and st != real:
                    fail(ctx, {"kind": "snapshot-bug-exotic-line-breaks-in-template-source" if exotic.search(s) else "source-normalisation-differs-from-stock"},
                         "the bundled lexer normalises the line breaks of a template source differently from stock Jinja2",
                         {"stream": "normalise", "source": s, "keep_trailing_newline": keep, "bundled_sees": real, "stock_sees": st})
    ctx.extra["normalisation_domain"] = {"exhaustive_max_length": maxlen, "alphabet": "a space LF CR FF U+2028", "cases": len(cases), "keep_trailing_newline": [False, True]}


# --------------------------------------------------------------------------------------------------
MARKER_VALUES = ["a", "a\nb", "a\n", "a\r\nb", "a\rb", "\na", "a\n\nb", "", "a\n \nb", "a\u2028b", "a\x0cb", "  a\n b", "a\nb\n\n", "\n", "a\r\n", 5, None, 1.5, ["x"]]


def marker_cases():
    """(kind, marker construct, plain construct, context, templates) — the construct alone, without surroundings."""
    out = []
    for v in MARKER_VALUES:
        out.append(("variable", "{{* v }}", "{{ v }}", {"v": v}, {}))
    out.append(("variable", "{{*v}}", "{{v}}", {"v": "p\nq"}, {}))
    out.append(("variable", "{{* v|upper }}", "{{ v|upper }}", {"v": "p\nq"}, {}))
    out.append(("variable", "{{* v }}", "{{ v }}", {"v": "MARKUP"}, {}))
    for c in (True, False):
        out.append(("block", "{%* if c %}A\nB{% else %}\nC\n{% endif %}", "{% if c %}A\nB{% else %}\nC\n{% endif %}", {"c": c}, {}))
    out.append(("block", "{%* for x in [1, 2] %}L{{ x }}\n{% endfor %}", "{% for x in [1, 2] %}L{{ x }}\n{% endfor %}", {}, {}))
    out.append(("block", "{%* for x in [1, 2] %}L{{ x }}\n\n{% endfor %}", "{% for x in [1, 2] %}L{{ x }}\n\n{% endfor %}", {}, {}))
    out.append(("block", "{%* for x in [] %}L{% endfor %}", "{% for x in [] %}L{% endfor %}", {}, {}))
    out.append(("block", "{%* include 'inc' %}", "{% include 'inc' %}", {}, {"inc": "l1\n  l2\n"}))
    out.append(("block", "{%* include 'inc' %}", "{% include 'inc' %}", {}, {"inc": "l1\nl2"}))
    out.append(("block", "{%* include 'inc' %}", "{% include 'inc' %}", {}, {"inc": "{{ v }}"}))
    out.append(("block", "{%* filter upper %}a\nb{% endfilter %}", "{% filter upper %}a\nb{% endfilter %}", {}, {}))
    out.append(("block", "{%* call m() %}x\ny{% endcall %}", "{% call m() %}x\ny{% endcall %}", {}, {"__pre__": "{% macro m() %}[{{ caller() }}]\n{% endmacro %}"}))
    out.append(("block", "{%*if c%}A{%endif%}", "{%if c%}A{%endif%}", {"c": 1}, {}))
    out.append(("block", "{%* set u %}a\nb{% endset %}", "{% set u %}a\nb{% endset %}", {}, {}))
    out.append(("raw", "{%* raw %}r1\nr2{% endraw %}", "{% raw %}r1\nr2{% endraw %}", {}, {}))
    out.append(("set", "{%* set u = 1 %}", "{% set u = 1 %}", {}, {"__post__": "{{ u }}"}))
    return out


def run_markers(ctx, drv, bj, sj, corpus_markers):
    pres = ["", "ab", "ab\n", "ab \n", "x\n\n", "ab:", "a\n\t"]
    blanks = ["", " ", "  ", "\t", " \t "]
    posts = ["", "|", "\nz", "\n"]
    cases = []
    for c in corpus_markers:
        cases.append((c["kind"], c["marker"], c["plain"], c.get("context", {}), c.get("templates", {}), c["pre"], c["blanks"], c["post"], c.get("lstrip", False)))
    for (kind, mk, pl, cx, tp) in marker_cases():
        for pre, w, post in itertools.product(pres, blanks, posts):
            # "the whitespace that precedes the marker" is the whole run of blanks in front of it
            run = len(pre + w) - len((pre + w).rstrip(" \t"))
            pre, w = (pre + w)[:len(pre + w) - run], (pre + w)[len(pre + w) - run:]
            for lstrip in (False, True):
                cases.append((kind, mk, pl, cx, tp, pre, w, post, lstrip))
    if ctx.quick:
        cases = cases[:len(corpus_markers)] + ctx.rng.sample(cases[len(corpus_markers):], 1500)
    ctx.extra["marker_cases"] = len(cases)
    reqs, info = [], []
    for (kind, mk, pl, cx, tp, pre, w, post, lstrip) in cases:
        cx = dict(cx)
        if cx.get("v") == "MARKUP":
            cx["v"] = bj.Markup("<b>\nx")
        cxs = dict(cx)
        if isinstance(cxs.get("v"), bj.Markup):
            cxs["v"] = sj.utils.markupsafe.Markup(str(cx["v"]))
        tp = dict(tp)
        head, tail = tp.pop("__pre__", ""), tp.pop("__post__", "")
        src = head + pre + w + mk + tail + post
        tb = dict(tp); tb["main"] = src
        got = render(bj, tb, "main", cx, lstrip=lstrip)
        # the plain construct alone, rendered by the stock engine (what "renders as the plain construct" refers to)
        ts = dict(tp); ts["main"] = head + pl
        plain_s = render(sj, ts, "main", cxs, lstrip=lstrip)
        ts["main"] = head + pl + tail
        both_s = render(sj, ts, "main", cxs, lstrip=lstrip)
        tbp = dict(tp); tbp["main"] = head + pl
        plain_b = render(bj, tbp, "main", cx, lstrip=lstrip)
        ctx.case(("marker", kind, mk, repr(cx), pre, w, post, lstrip), True)
        ctx.count("marker:" + kind)
        # --- property oracle (ii)
        if plain_s[0] == "ok" and both_s[0] == "ok" and both_s[1].startswith(plain_s[1]):
            expected = ("ok", pre + ref_prefix(w, plain_s[1]) + both_s[1][len(plain_s[1]):] + post)
        else:
            expected = ("err", plain_s[1] if plain_s[0] == "err" else both_s[1])
        if got != expected and not (got[0] == "err" and expected[0] == "err"):
            if kind == "raw":
                k = "marker-raw-not-prefixed"
            elif kind == "set":
                k = "marker-block-scopes-assignments"
            elif got[0] == "err" and not isinstance(cx.get("v", ""), str):
                k = "lineprefix-nonstring"
            elif got[0] == "ok" and expected[0] == "ok" and got[1].startswith(pre) and got[1].endswith(both_s[1][len(plain_s[1]):] + post):
                mid = got[1][len(pre):len(got[1]) - len(both_s[1][len(plain_s[1]):] + post)]
                k = classify_prefix(w, plain_s[1], mid)
                k = "marker-render-other" if k == "lineprefix-other" else k
            else:
                k = "marker-render-other"
            ctx.count("marker-fail:" + k)
            fail(ctx, {"kind": k}, "a construct opened with the auto-indent marker does not render as the plain construct with every non-empty line prefixed: " + k,
                     {"stream": "marker", "templates": tb, "main": "main", "context": {a: repr(b) for a, b in cx.items()}, "lstrip_blocks": lstrip,
                      "bundled": got, "expected": expected, "plain_construct": head + pl, "plain_output_stock": plain_s})
        # --- model prediction (tie)
        if drv is not None and kind in ("variable", "block", "raw") and plain_b[0] == "ok" and isinstance(cx.get("v", ""), str) and not head:
            reqs.append(f"root {'B1' if lstrip else 'B0'} 1 {enc(normalise_source(src))}")
            info.append((src, lstrip, plain_b[1], post, got, kind))
    if drv is not None and reqs:
        ans = drv.ask(reqs)
        reqs2, keep = [], []
        for a, (src, lstrip, pout, post, got, kind) in zip(ans, info):
            f = a.split(" ")
            if f[0] == "none":
                ctx.disagree("marker-root", {"source": src}, a, "a begin token")
                continue
            mkind, data, value = f[0], dec(f[1]), dec(f[2])
            if mkind == "raw":
                pred = data + pout + post
                ctx.traces += 1
                if got != ("ok", pred):
                    ctx.disagree("marker-render", {"source": src, "lstrip": lstrip}, pred, got)
            else:
                reqs2.append(f"marker {enc(data)} {enc(value)} {enc(pout)}")
                keep.append((src, lstrip, post, got))
        for a, (src, lstrip, post, got) in zip(drv.ask(reqs2), keep):
            ctx.traces += 1
            pred = dec(a) + post
            if got != ("ok", pred):
                ctx.disagree("marker-render", {"source": src, "lstrip": lstrip}, pred, got)


# --------------------------------------------------------------------------------------------------
class Odd:
    def __bool__(self):
        return False


def run_extensions(ctx, drv, bj, sj, cge, qtpl):
    stock = make_env(sj, {})
    # ---- assert
    values = [True, False, 0, 1, -1, "", "a", "0", [], [0], {}, {"a": 1}, None, 0.0, 0.5, (), (0,), Odd(), object, range(0), range(2)]
    literals = ["true", "false", "0", "1", "''", "'a'", "[]", "[0]", "none", "1 == 1", "1 > 2", "x and 1", "not x", "x is defined", "x|default(1)"]
    cases = []
    for v in values:
        for e in ("x", "not x", "x or 0", "x and 1"):
            for msg in (None, "'m'", "'n' ~ 1", "x|string"):
                cases.append((e, msg, v))
    for e in literals:
        cases.append((e, None, 1))
        cases.append((e, "'lit'", 0))
    reqs, reals = [], []
    for e, msg, v in cases:
        src = "{% assert " + e + (", " + msg if msg else "") + " %}"
        qtpl.clear()
        try:
            got = ("ok", cge.from_string("L" + src + "R").render(x=v))
        except bj.TemplateAssertionError as ex:
            got = ("assertion", ex.message)
        except Exception as ex:  # noqa: BLE001
            got = ("err", type(ex).__name__)
        # the ordinary conditional, evaluated by stock Jinja2
        try:
            t = stock.from_string("{% if " + e + " %}T{% else %}F{% endif %}|{{ " + (msg or "'Template assertion failed.'") + " }}").render(x=v)
            truthy, m = t.split("|", 1)
            plain = ("ok", "LR") if truthy == "T" else ("assertion", m)
        except Exception as ex:  # noqa: BLE001
            plain = ("err", type(ex).__name__)
        ctx.case(("assert", e, msg, repr(v)), True)
        ctx.count("assert:" + got[0])
        if got != plain:
            fail(ctx, {"kind": "assert-not-a-conditional"}, "{% assert e %} does not behave like `if e` (nothing when truthy, TemplateAssertionError otherwise)",
                     {"stream": "assert", "source": src, "x": repr(v), "bundled": got, "plain_conditional_stock": plain})
        if drv is not None and plain[0] != "err":
            reqs.append(f"assert {'1' if plain[0] == 'ok' else '0'} {enc(plain[1] if plain[0] == 'assertion' else 'm')}")
            reals.append((src, v, got, plain))
    if drv is not None:
        for a, (src, v, got, plain) in zip(drv.ask(reqs), reals):
            ctx.traces += 1
            f = a.split(" ")
            model = ("ok", "L" + dec(f[1]) + "R") if f[0] == "ok" else ("assertion", dec(f[2]))
            if model != got:
                ctx.disagree("assert", {"source": src, "x": repr(v)}, model, got)

    # ---- ifuses
    ns = cge.target_language_uses_queries
    names = ["q0", "q1", "q2", "qu"]
    chains = []
    elif_opts = [(t, n) for t in ("elifuses", "elifnuses") for n in names]
    for op in ("ifuses", "ifnuses"):
        for n in names:
            for k in (0, 1, 2):
                for els in itertools.product(elif_opts, repeat=k):
                    for has_else in (False, True):
                        for end in ("endifuses", "endifnuses"):
                            chains.append((op, n, list(els), has_else, end))
    if ctx.quick:
        small = [c for c in chains if len(c[2]) <= 1]
        big = [c for c in chains if len(c[2]) == 2]
        chains = small + ctx.rng.sample(big, 250)
    vals = list(itertools.product((False, True), repeat=3))
    reqs, reals = [], []
    for (op, n, els, has_else, end) in chains:
        vs = vals if len(els) <= 1 else ctx.rng.sample(vals, 3)
        src = "{% " + op + " '" + n + "' %}A"
        plain = "{% if " + ("not " if op == "ifnuses" else "") + n + "() %}A"
        segs = []
        for i, (t, m) in enumerate(els):
            src += "{% " + t + " '" + m + "' %}" + "BC"[i]
            plain += "{% elif " + ("not " if t == "elifnuses" else "") + m + "() %}" + "BC"[i]
            segs.append(("eu" if t == "elifuses" else "en") + "," + enc(m) + "," + enc("BC"[i]))
        if has_else:
            src += "{% else %}E"
            plain += "{% else %}E"
            segs.append("el,-," + enc("E"))
        src += "{% " + end + " %}"
        plain += "{% endif %}"
        segs.append("end,-,-")
        tb = cge.from_string("<" + src + ">")
        ts = stock.from_string("<" + plain + ">")
        for val in vs:
            q = dict(zip(names[:3], val))
            for k in list(vars(ns)):
                if k.startswith("q"):
                    delattr(ns, k)
            for k, b in q.items():
                setattr(ns, k, (lambda b=b: b))
            try:
                got = ("ok", tb.render())
            except bj.UndefinedError:
                got = ("undefined",)
            except Exception as ex:  # noqa: BLE001
                got = ("err", type(ex).__name__)
            try:
                want_ = ("ok", ts.render(**{k: (lambda b=b: b) for k, b in q.items()}))
            except sj.UndefinedError:
                want_ = ("undefined",)
            ctx.case(("uses", src, val), True)
            ctx.count("uses:" + got[0])
            if got != want_:
                fail(ctx, {"kind": "ifuses-not-a-conditional"}, "an ifuses/ifnuses chain does not behave as if/elif/else over the query results",
                         {"stream": "uses", "source": src, "queries": q, "bundled": got, "plain_conditional_stock": want_, "plain_source": plain})
            reqs.append("uses " + ",".join(f"{enc(k)}={int(b)}" for k, b in q.items()) + f" {int(op == 'ifnuses')} {enc(n)} {enc('A')} " + ";".join(segs))
            reals.append((src, q, got))
    # malformed chains: a continuation tag after else
    for bad in ("{% ifuses 'q0' %}A{% else %}B{% elifuses 'q1' %}C{% endifuses %}", "{% ifuses 'q0' %}A{% else %}B{% else %}C{% endifuses %}", "{% ifnuses 'q0' %}A"):
        try:
            cge.from_string(bad)
            got = ("ok",)
        except bj.TemplateSyntaxError:
            got = ("syntax",)
        ctx.case(("uses-bad", bad), True)
        if got != ("syntax",):
            fail(ctx, {"kind": "ifuses-not-a-conditional"}, "a malformed ifuses chain is accepted", {"stream": "uses-bad", "source": bad, "bundled": got})
    if drv is not None:
        bad_reqs = ["uses - 0 " + enc("q0") + " " + enc("A") + " el,-," + enc("B") + ";eu," + enc("q1") + "," + enc("C") + ";end,-,-",
                    "uses - 0 " + enc("q0") + " " + enc("A") + " el,-," + enc("B") + ";el,-," + enc("C") + ";end,-,-",
                    "uses - 1 " + enc("q0") + " " + enc("A") + " -"]
        for a in drv.ask(bad_reqs):
            ctx.traces += 1
            if a != "err syntax":
                ctx.disagree("uses-bad", bad_reqs, a, "err syntax")
        for a, (src, q, got) in zip(drv.ask(reqs), reals):
            ctx.traces += 1
            f = a.split(" ")
            model = ("ok", "<" + dec(f[1]) + ">") if f[0] == "ok" else ("undefined",) if f[1] == "undefined" else ("err", a)
            if model != got:
                ctx.disagree("uses", {"source": src, "queries": q}, model, got)
    ctx.extra["ifuses_chains"] = len(chains)




# --------------------------------------------------------------------------------------------------
# bugs of the bundled 2.11.dev snapshot that upstream fixed: templates of the common language (same syntax tree, same
# documented meaning) that render differently.  Probed by dedicated families and reported under specific keys
# (known findings); the random grammar avoids them so that any OTHER difference stays visible.
# --------------------------------------------------------------------------------------------------
def probe_values(spec):
    """{"it": ["generator", 4]} -> fresh values (a generator can be consumed once, so it is described, not stored)"""
    out = {}
    for k, (how, v) in (spec or {}).items():
        out[k] = (i for i in range(v)) if how == "generator" else list(range(v)) if how == "list" else v
    return out


def run_snapshot_bugs(ctx, bj, sj):
    be, se = make_env(bj, {}), make_env(sj, {})

    def rend(env, src, spec):
        try:
            return ("ok", guarded(lambda: env.from_string(src).render(**probe_values(spec)), 5))
        except Timeout:
            return ("err", "Timeout")
        except Exception as e:  # noqa: BLE001
            return ("err", type(e).__name__)

    def probe(kind, what, src, spec=None, must_agree=False):
        spec = spec or {}
        a, b = rend(be, src, spec), rend(se, src, spec)
        ctx.case(("snapshot", src), True)
        ctx.count("snapshot-probe:" + kind)
        if a != b and not (a[0] == "err" and b[0] == "err"):
            key = {"kind": "differs-from-stock-not-because-of-the-lexer-edit"} if must_agree else {"kind": kind}
            fail(ctx, key, what, {"stream": "differential", "origin": "snapshot-bug-probe", "templates": {"main": src}, "main": "main", "context": {}, "context_json": None,
                                  "probe_values": spec, "trim_blocks": False, "lstrip_blocks": False, "environment_options": {}, "bundled": a, "stock": b})

    # 1. a chain of comparisons over constants only is folded to its LAST comparison
    ops = ["<", ">", "==", "!=", "<=", ">="]
    for a_, b_, c_ in itertools.product([1, 2, 3], repeat=3):
        for o1, o2 in itertools.product(ops, repeat=2):
            probe("snapshot-bug-const-compare-chain", "a comparison chain over constants is folded to its last comparison", "{{ %d %s %d %s %d }}" % (a_, o1, b_, o2, c_))
    for a_, b_ in itertools.product([1, 2, 3], repeat=2):
        for o1 in ops:
            for o2 in ("in", "not in"):
                probe("snapshot-bug-const-compare-chain", "a comparison chain over constants is folded to its last comparison", "{{ %d %s %d %s [2, true] }}" % (a_, o1, b_, o2))
            # control: the same chain with a variable is not folded and must agree
            probe("", "comparison chain with a variable", "{{ x %s %d < 3 }}|{{ %d %s x not in [2] }}" % (o1, b_, a_, o1), {"x": ["const", 2]}, must_agree=True)
    # 2. loop.length / revindex / revindex0 of an iterator (generator, filtered loop) first read after the first iteration
    for n in range(0, 5):
        for attr in ("length", "revindex", "revindex0", "last", "index"):
            for when in ("always", "first", "last", "second"):
                cond = {"always": "true", "first": "loop.first", "last": "loop.index == %d" % n, "second": "loop.index == 2"}[when]
                body = "{%% if %s %%}{{ loop.%s }}{%% endif %%}," % (cond, attr)
                probe("snapshot-bug-loop-length-of-iterator", "loop.length / loop.revindex of an iterator is off by one", "{% for x in it %}" + body + "{% endfor %}", {"it": ["generator", n]})
                probe("snapshot-bug-loop-length-of-iterator", "loop.length / loop.revindex of an iterator is off by one", "{% for x in it if x >= 0 %}" + body + "{% endfor %}", {"it": ["list", n]})
                probe("snapshot-bug-loop-length-of-iterator", "loop.length / loop.revindex of an iterator is off by one", "{% for x in it|select('number') %}" + body + "{% endfor %}", {"it": ["list", n]})
                probe("", "loop attributes over a list", "{% for x in it %}" + body + "{% endfor %}", {"it": ["list", n]}, must_agree=True)

# --------------------------------------------------------------------------------------------------
# every built-in test and filter common to both engines, on a value zoo
# --------------------------------------------------------------------------------------------------
class Duck:
    def __len__(self): return 2
    def __getitem__(self, i):
        if i in (0, 1): return i + 10
        raise IndexError(i)
    def __repr__(self): return "<Duck>"
class IterOnly:
    def __iter__(self): return iter([1, 2])
    def __repr__(self): return "<IterOnly>"
class CallMe:
    def __call__(self, *a, **k): return "called"
    def __repr__(self): return "<CallMe>"
class Html:
    def __html__(self): return "<b>h</b>"
    def __str__(self): return "plain<"
    def __repr__(self): return "<Html>"
class Plain:
    def __repr__(self): return "<Plain>"


def markup_of(mod):
    return mod.Markup if hasattr(mod, "Markup") else __import__("markupsafe").Markup


def zoo(mod):
    """name -> factory of a fresh value built from THIS engine's classes"""
    M = markup_of(mod)
    z = {}
    z["none"] = lambda: None
    z["undef"] = lambda: mod.Undefined(name="u")
    z["strict_undef"] = lambda: mod.StrictUndefined(name="u")
    z["debug_undef"] = lambda: mod.DebugUndefined(name="u")
    z["true"] = lambda: True
    z["false"] = lambda: False
    for i, v in enumerate([0, 1, -3, 42, 10 ** 12]):
        z[f"int{i}"] = (lambda v=v: v)
    for i, v in enumerate([0.0, 1.5, -2.25, 1e10, float("inf")]):
        z[f"float{i}"] = (lambda v=v: v)
    for i, v in enumerate(["", "a", "Hello World", " <b>x</b> & 'q' ", "a\nb\n\nc", "12", "3.5", "ÀÉ ß", "a,b;c", "  pad  ", "UPPER", "lower"]):
        z[f"str{i}"] = (lambda v=v: v)
    z["bytes"] = lambda: b"by"
    for i, v in enumerate([[], [1], [3, 1, 2], ["b", "A", "c"], [[1, 2], [3]], [{"a": 1, "b": "x"}, {"a": 0, "b": "y"}], [1, "a", None], [0, 1, "", "x"]]):
        z[f"list{i}"] = (lambda v=v: copy.deepcopy(v))
    z["tuple0"] = lambda: ()
    z["tuple1"] = lambda: (1, "a")
    z["dict0"] = lambda: {}
    z["dict1"] = lambda: {"b": 2, "a": 1}
    z["dict2"] = lambda: {"k": [1], "j": None}
    z["set"] = lambda: {1}
    z["frozenset"] = lambda: frozenset([2])
    z["gen"] = lambda: (i for i in range(3))
    z["range"] = lambda: range(4)
    z["range0"] = lambda: range(0)
    z["duck"], z["iteronly"], z["callme"], z["html"], z["plain"] = Duck, IterOnly, CallMe, Html, Plain
    z["markup"] = lambda: M("<i>m</i> &amp;")
    z["markup_empty"] = lambda: M("")
    z["func"] = lambda: len
    z["lambda"] = lambda: (lambda x=1: x)
    z["cls"] = lambda: dict
    z["namespace"] = lambda: mod.utils.Namespace(a=1)
    z["cycler"] = lambda: mod.utils.Cycler(1, 2)
    z["joiner"] = lambda: mod.utils.Joiner(", ")
    z["complex"] = lambda: 1 + 2j
    return z


_MODPATH = re.compile(r"nunavut\.jinja\.(jinja2|markupsafe)", re.I)


def canon_value(v, mod, depth=0):
    M = markup_of(mod)
    if isinstance(v, mod.Undefined):
        return ("Undefined", type(v).__name__)
    if isinstance(v, M):
        return ("Markup", _ADDR.sub("0x?", _MODPATH.sub(r"\1", str(v))))
    if isinstance(v, str):
        return ("str", _ADDR.sub("0x?", _MODPATH.sub(r"\1", v)))
    if isinstance(v, (bool, int, float, complex, bytes, type(None))):
        return (type(v).__name__, repr(v))
    if isinstance(v, (list, tuple)) and depth < 4:
        return (type(v).__name__, tuple(canon_value(x, mod, depth + 1) for x in v))
    if isinstance(v, dict) and depth < 4:
        return ("dict", tuple((canon_value(k, mod, depth + 1), canon_value(x, mod, depth + 1)) for k, x in v.items()))
    if isinstance(v, (set, frozenset)):
        return (type(v).__name__, tuple(sorted(repr(x) for x in v)))
    if hasattr(v, "__next__"):
        try:
            return ("iterator", tuple(canon_value(x, mod, depth + 1) for x in itertools.islice(v, 30)))
        except Exception as e:  # noqa: BLE001
            return ("iterator-raises", type(e).__name__)
    return ("object", type(v).__name__)


def outcome(fn, mod):
    try:
        return ("ok", canon_value(guarded(fn, 5), mod))
    except Timeout:
        return ("err", "Timeout")
    except RecursionError:
        return ("err", "RecursionError")
    except Exception as e:  # noqa: BLE001
        return ("err", type(e).__name__)


# filters outside the common language (behaviour / signature / output format documented as changed upstream) and
# (filter, situation) pairs on which the two lines differ by design; everything else must agree
ZOO_EXCLUDED_FILTERS = {
    "random": "non-deterministic",
    "urlize": "output format and arguments changed upstream (rel/target/extra_schemes)",
    "wordwrap": "rewritten in 2.11 (break_on_hyphens, empty input)",
    "pprint": "`verbose` argument removed in 3.0",
    "groupby": "`default` / `case_sensitive` arguments added in 3.0/3.1",
    "truncate": "leeway policy", "xmlattr": "keys with spaces rejected since 3.1.3", "tojson": "policy defaults", "filesizeformat": "rounding fixed in 3.x",
}
_STRINGY_31 = {"urlencode", "wordcount", "trim", "striptags", "indent", "center", "title", "capitalize", "upper", "lower", "format", "replace"}


def zoo_excluded(kind, name, vname, args, a, b):
    """-> reason when this (test/filter, value, arguments) combination is outside the common language, else None"""
    if kind == "filter":
        if name in ZOO_EXCLUDED_FILTERS:
            return ZOO_EXCLUDED_FILTERS[name]
        if name == "attr" and args and not isinstance(args[0], str):
            return "attr with a non-string name (Undefined in 2.x, TypeError in 3.x)"
        if name == "trim" and args:
            return "trim(chars) exists since 2.11 only"
        if name == "indent" and args and not isinstance(args[0], int):
            return "indent width as a string is 3.x only"
        if name in _STRINGY_31 and vname.startswith("markup"):
            return "string filters on Markup keep or drop Markup-ness differently (markupsafe copy vs package)"
        if name in _STRINGY_31 and not vname.startswith("str"):
            return "string filters coerce non-string input with soft_str in 3.x (TypeError in 2.x)"
    if kind == "test" and name in ("odd", "even", "divisibleby") and vname.startswith("markup"):
        return "`%` on Markup: different markupsafe versions"
    return None


ZOO_ARGSETS = [(), (2,), ("a",), (0,), ([1],), ("a", "b"), (True,), (None,)]
ZOO_FILTER_ARGS = {
    "default": [("d",), ("d", True)], "d": [("d", True)], "join": [(", ",), ("-", "a")], "replace": [("a", "b"), ("a", "b", 1)], "round": [(1,), (0, "floor"), (1, "ceil")],
    "sort": [(True,), (False, True), (False, False, "a")], "dictsort": [(True,), (False, "value"), (False, "key", True)], "batch": [(2,), (2, "x")], "slice": [(2,), (2, "x")],
    "sum": [("a",), ("a", 5)], "map": [("upper",), ("int",)], "select": [("odd",), ("string",), ("sequence",), ("mapping",), ("callable",)],
    "reject": [("none",), ("sequence",)], "selectattr": [("a",), ("a", "eq", 1)], "rejectattr": [("a",)], "attr": [("a",), ("__len__",), ("real",)],
    "indent": [(2,), (2, True), (1, False, True)], "center": [(9,)], "truncate": [(5,)], "int": [(7,), (0, 16)], "float": [(1.5,)], "format": [(1,), ("x", 2)],
    "min": [(False, "a")], "max": [(True,)], "unique": [(True,), (False, "a")], "first": [], "last": [], "list": [], "length": [], "count": [], "string": [],
}
LITERALS = ["none", "true", "false", "0", "1", "1.5", "'a'", "''", "[1]", "[]", "(1,)", "()", "{'a': 1}", "{}", "range(2)", "'A'", "2 ** 70"]


def run_zoo(ctx, bj, sj):
    be, se = make_env(bj, {}), make_env(sj, {})
    zb, zs = zoo(bj), zoo(sj)
    tests = sorted(set(be.tests) & set(se.tests))
    filters = sorted(set(be.filters) & set(se.filters))
    ctx.extra["zoo"] = {"tests_common": len(tests), "tests_3x_only": sorted(set(se.tests) - set(be.tests)), "filters_common": len(filters),
                        "filters_3x_only": sorted(set(se.filters) - set(be.filters)), "filters_bundled_only": sorted(set(be.filters) - set(se.filters)),
                        "values": len(zb), "excluded_filters": ZOO_EXCLUDED_FILTERS}
    excluded = {}

    def judge(kind, name, vname, args, a, b, replay_):
        ctx.count("zoo:" + kind)
        if a == b or (a[0] == "err" and b[0] == "err"):
            if a[0] == "err" and a != b:
                ctx.count("zoo:both-fail-other-class")
            return
        why = zoo_excluded(kind, name, vname, args, a, b)
        if why:
            excluded[why] = excluded.get(why, 0) + 1
            return
        if kind == "test" and name == "mapping" and vname == "namespace":
            key = {"kind": "snapshot-bug-namespace-is-mapping"}
        else:
            key = {"kind": kind + "-differs-from-stock", "name": name}
        fail(ctx, key, f"the built-in {kind} `{name}` gives a different result in the bundled engine and in stock Jinja2",
             dict({"stream": "zoo", "kind": kind, "name": name, "value": vname, "args": repr(args), "bundled": a, "stock": b}, **replay_))

    for t in tests:
        for vname in zb:
            for args in ZOO_ARGSETS:
                a = outcome(lambda: be.call_test(t, zb[vname](), list(args)), bj)
                b = outcome(lambda: se.call_test(t, zs[vname](), list(args)), sj)
                ctx.case(("zoo-test", t, vname, args), True)
                judge("test", t, vname, args, a, b, {})
    for f in filters:
        if f == "random":
            continue
        for vname in zb:
            for args in ZOO_ARGSETS + ZOO_FILTER_ARGS.get(f, []):
                a = outcome(lambda: be.call_filter(f, zb[vname](), list(args)), bj)
                b = outcome(lambda: se.call_filter(f, zs[vname](), list(args)), sj)
                ctx.case(("zoo-filter", f, vname, args), True)
                judge("filter", f, vname, args, a, b, {})
    # template level: constant-folded literals, context values, select(), loop objects and macros
    def rend(env, src, vals):
        try:
            return ("ok", _ADDR.sub("0x?", guarded(lambda: env.from_string(src).render(**vals), 5)))
        except Timeout:
            return ("err", "Timeout")
        except Exception as e:  # noqa: BLE001
            return ("err", type(e).__name__)
    for t in tests:
        srcs = [("literal:" + lit, "{{ %s is %s }}|{{ %s is not %s }}" % (lit, t, lit, t), None) for lit in LITERALS]
        srcs.append(("loop", "{%% for x in [1, 2] %%}{{ loop is %s }}{%% endfor %%}" % t, None))
        srcs.append(("macro", "{%% macro m() %%}{%% endmacro %%}{{ m is %s }}" % t, None))
        srcs.append(("namespace", "{%% set ns = namespace(a=1) %%}{{ ns is %s }}" % t, None))
        srcs.append(("undefined-name", "{{ nope is %s }}" % t, None))
        for vname in zb:
            srcs.append((vname, "{{ v is %s }}|{{ [v, 1]|select('%s')|list|length }}|{{ [v]|reject('%s')|list|length }}" % (t, t, t), vname))
        for label, src, vname in srcs:
            a = rend(be, src, {"v": zb[vname]()} if vname else {})
            b = rend(se, src, {"v": zs[vname]()} if vname else {})
            ctx.case(("zoo-test-template", src, vname), True)
            judge("test", t, vname or label, ("template",), a, b, {"source": src})
    ctx.extra["zoo"]["outside_common_language"] = dict(sorted(excluded.items()))


# --------------------------------------------------------------------------------------------------
# structural tie: the parsers' syntax trees
# --------------------------------------------------------------------------------------------------
_AST_SKIP_FIELDS = {"required"}      # Block.required exists in 3.x only


def canon_ast(n, mod):
    """a parser node tree as nested tuples of (class name, (field, value)…); identical class and field names in both lines"""
    if isinstance(n, mod.nodes.Node):
        return (type(n).__name__,) + tuple((f, canon_ast(getattr(n, f), mod)) for f in n.fields if f not in _AST_SKIP_FIELDS)
    if isinstance(n, (list, tuple)):
        return tuple(canon_ast(x, mod) for x in n)
    return (type(n).__name__, repr(n))


def parse_tree(env, mod, src):
    try:
        return ("ok", canon_ast(env.parse(src), mod))
    except RecursionError:
        return ("err", "RecursionError")
    except Exception as e:  # noqa: BLE001
        return ("err", type(e).__name__)


def first_ast_difference(x, y, path=()):
    if x == y:
        return None
    if isinstance(x, tuple) and isinstance(y, tuple) and len(x) == len(y) and x and y and not (isinstance(x[0], str) and isinstance(y[0], str) and x[0] != y[0]):
        for k, (p, q) in enumerate(zip(x, y)):
            d = first_ast_difference(p, q, path + (k,))
            if d:
                return d
    return {"path": list(path), "bundled": str(x)[:400], "stock": str(y)[:400]}


def compare_ast(ctx, bj, sj, benv, senv, src, origin, settings):
    if any(m in src for m in MARKERS):
        return
    a, b = parse_tree(benv, bj, src), parse_tree(senv, sj, src)
    ctx.traces += 1
    ctx.count("ast:" + ("both-parse" if a[0] == b[0] == "ok" else "both-reject" if a[0] == b[0] else "one-rejects"))
    if a != b and not (a[0] == "err" and b[0] == "err"):
        d = first_ast_difference(a[1], b[1]) if a[0] == b[0] == "ok" else {"bundled": a[1] if a[0] == "err" else "parses", "stock": b[1] if b[0] == "err" else "parses"}
        fail(ctx, {"kind": "syntax-tree-differs-from-stock"}, "the bundled parser builds a different syntax tree than stock Jinja2 for a template without auto-indent marker",
             dict({"stream": "ast", "origin": origin, "source": src, "first_difference": d}, **settings))


def run_expressions(ctx, bj, sj):
    """operator soup: expressions with every operator chained without parentheses — syntax trees and values in both engines"""
    rng = ctx.rng
    g = G.Gen(rng)
    benv, senv = make_env(bj, {}), make_env(sj, {})
    n = 3000 if ctx.quick else 18000
    for i_ in range(n):
        if i_ % 40 == 0:
            context = g.context()
        sc = g.root_scope()
        e = g.s_expr(sc, rng.choice([0, 0, 0, 1]))
        src = rng.choice(["{{ %s }}", "{{ %s }}", "{%% if %s %%}T{%% else %%}F{%% endif %%}", "{%% set q = %s %%}{{ q }}", "{{ (%s)|string|length }}", "{%% for q in [%s] %%}{{ q }}{%% endfor %%}"]) % e
        ctx.case(("expr", src, repr(sorted(context.items()))), True)
        ctx.count("expr")
        compare_ast(ctx, bj, sj, benv, senv, src, "operator-soup", {})
        def go(env=None, mod=None):
            try:
                return ("ok", guarded(lambda: env.from_string(src).render(**context)))
            except Timeout:
                return ("err", "Timeout")
            except RecursionError:
                return ("err", "RecursionError")
            except Exception as ex:  # noqa: BLE001
                return ("err", type(ex).__name__)
        a, b = go(benv), go(senv)
        ctx.count("expr:" + ("both-render" if a[0] == b[0] == "ok" else "both-fail" if a[0] == b[0] else "one-fails"))
        if a != b and not (a[0] == "err" and b[0] == "err"):
            fail(ctx, {"kind": "expression-value-differs-from-stock"}, "an expression evaluates differently in the bundled engine and in stock Jinja2",
                 {"stream": "differential", "origin": "operator-soup", "templates": {"main": src}, "main": "main", "context": {k: repr(v) for k, v in context.items()},
                  "context_json": _jsonable(context), "trim_blocks": False, "lstrip_blocks": False, "environment_options": {}, "bundled": a, "stock": b})
    ctx.extra["expression_cases"] = n

    # ---- name resolution: `o.name` prefers the attribute and falls back to the item, `o['name']` prefers the item, `o|attr('name')` is
    # attribute only — on dicts whose keys are spelled like dict methods, ordinary dicts, lists, strings, tuples and an object with both
    class Both:
        a = "attr-a"
        items = "attr-items"
        def __getitem__(self, k):
            if k in ("a", "items", "k"):
                return "item-" + str(k)
            raise KeyError(k)
    objs = {"dm": {"items": "I", "values": 3, "keys": ["x"], "get": "g", "a": 1, "update": 0}, "dp": {"a": 1, "k": "v"}, "de": {}, "li": [5, 6], "st": "str",
            "tu": (1, 2), "bo": Both(), "dn": {"a": {"items": 7, "b": 8}}}
    names = ["items", "values", "keys", "get", "update", "a", "k", "nope", "upper", "count", "0", "1", "__class__", "__len__"]
    nres = 0
    for o, nm in itertools.product(objs, names):
        forms = [f"{o}['{nm}']", f"{o}|attr('{nm}')"] + ([f"{o}.{nm}"] if not nm.startswith("__") else []) + ([f"{o}[{nm}]"] if nm.isdigit() else [])
        if o == "dn":
            forms = [f"dn.a.{nm}", f"dn.a['{nm}']", f"dn['a'].{nm}"] if not nm.startswith("__") else []
        for x in forms:
            src = "{{ %s is defined }}/{%% if %s is defined %%}{{ %s is callable }}/{%% if %s is not callable %%}{{ %s }}{%% endif %%}{%% endif %%}" % (x, x, x, x, x)
            def go2(env):
                try:
                    return ("ok", guarded(lambda: env.from_string(src).render(**objs)))
                except Exception as ex:  # noqa: BLE001
                    return ("err", type(ex).__name__)
            a, b = go2(benv), go2(senv)
            nres += 1
            ctx.case(("name-resolution", x), True)
            ctx.count("name-resolution:" + ("agree" if a == b else "both-fail" if a[0] == b[0] == "err" else "differ"))
            if a != b and not (a[0] == "err" and b[0] == "err"):
                fail(ctx, {"kind": "expression-value-differs-from-stock"}, "attribute / item resolution (`o.name`, `o['name']`, `o|attr('name')`) differs between the bundled engine and stock Jinja2",
                     {"stream": "differential", "origin": "name-resolution", "templates": {"main": src}, "main": "main", "context": {k: repr(v) for k, v in objs.items() if k != "bo"},
                      "context_json": _jsonable({k: (list(v) if isinstance(v, tuple) else v) for k, v in objs.items() if k != "bo"}), "trim_blocks": False, "lstrip_blocks": False, "environment_options": {}, "bundled": a, "stock": b})
    ctx.extra["name_resolution_cases"] = nres


def compare_template_set(ctx, bj, sj, tpl, main, context, trim, lstrip, origin, opts=None):
    b = render(bj, tpl, main, context, trim, lstrip, opts=opts)
    s = render(sj, tpl, main, context, trim, lstrip, opts=opts)
    benv, senv = make_env(bj, {}, trim, lstrip, opts=opts), make_env(sj, {}, trim, lstrip, opts=opts)
    for name_, src_ in tpl.items():
        compare_ast(ctx, bj, sj, benv, senv, src_, origin + ":" + name_, {"trim_blocks": trim, "lstrip_blocks": lstrip, "environment_options": opts or {}})
    has_marker = any(m in src for src in tpl.values() for m in MARKERS)
    nontrivial = any(("{%" in v or "{{" in v) for v in tpl.values())
    ctx.case(("tpl", json.dumps(tpl, sort_keys=True), repr(sorted(context.items(), key=lambda kv: kv[0])), trim, lstrip, repr(opts)), nontrivial)
    if opts:
        for k_, v_ in opts.items():
            if v_ != DEFAULT_OPTS[k_]:
                ctx.count("diff:" + k_ + "=" + repr(v_))
    if b[0] == "ok" and s[0] == "ok":
        ctx.count("diff:both-render")
    elif b[0] == "err" and s[0] == "err":
        ctx.count("diff:both-fail")
        ctx.count("diff:both-fail:" + ("same-class" if b[1] == s[1] else "other-class"))
    if has_marker:
        ctx.count("diff:has-marker")
        return b, s
    agree = (b == s) if b[0] == "ok" or s[0] == "ok" else True
    if not agree:
        u = render(bj, tpl, main, context, trim, lstrip, unedited=True, opts=opts)
        caused_by_edit = (u != b) and not (u[0] == "err" and b[0] == "err")
        star_comment = any("{#*" in v for v in tpl.values())
        kind = "comment-star-loses-blanks" if (caused_by_edit and star_comment) else \
            "differs-from-stock-because-of-the-lexer-edit" if caused_by_edit else "differs-from-stock-not-because-of-the-lexer-edit"
        lsp = (opts or {}).get("line_statement_prefix")
        if lsp and lsp.endswith("*") and not caused_by_edit and AI.has_lineprefix_wrapper(benv, tpl):
            kind = "line-statement-prefix-star-autoindent"     # the PARSER edit: a line statement taken for an auto-indent block
        fail(ctx, {"kind": kind}, "a template without auto-indent marker renders differently in the bundled engine and in stock Jinja2",
                 {"stream": "differential", "origin": origin, "templates": tpl, "main": main, "context": {k: repr(v) for k, v in context.items()},
                  "context_json": _jsonable(context), "trim_blocks": trim, "lstrip_blocks": lstrip, "environment_options": opts or {}, "bundled": b, "stock": s,
                  "bundled_with_unedited_lexer": u})
    return b, s


def _jsonable(c):
    try:
        json.dumps(c)
        return c
    except TypeError:
        return None


def run_differential(ctx, bj, sj, corpus_templates):
    rng = ctx.rng
    import time as _t
    _t0 = _t.time()
    run_zoo(ctx, bj, sj)
    run_snapshot_bugs(ctx, bj, sj)
    ctx.extra.setdefault("stream_seconds", {})["zoo+snapshot-probes"] = round(_t.time() - _t0, 1)
    _t0 = _t.time()
    run_expressions(ctx, bj, sj)
    ctx.extra.setdefault("stream_seconds", {})["expressions"] = round(_t.time() - _t0, 1)
    plan = [((False, False), 420 if ctx.quick else 5000), ((True, False), 90 if ctx.quick else 800),
            ((False, True), 90 if ctx.quick else 800), ((True, True), 90 if ctx.quick else 800)]
    feats = {}
    for (trim, lstrip), n in plan:
        g = G.Gen(rng, trim=trim, lstrip=lstrip)
        # line statement / comment prefixes, also ones that END in `*` (no marker: the parser must not take them for one)
        gls = [G.Gen(rng, trim=trim, lstrip=lstrip, line_prefixes=pp) for pp in (("%%", "##"), ("//*", "##"), ("%*", "//"))]
        for _ in range(n):
            # the settings Nunavut fixes are varied too: the engine under check is the whole vendored lexer
            opts = {"keep_trailing_newline": rng.random() < 0.55, "newline_sequence": rng.choice(["\n", "\n", "\n", "\r\n", "\r"])}
            gen = g
            if rng.random() < 0.14:
                gen = rng.choice(gls)
                opts.update({"line_statement_prefix": gen.line_prefixes[0], "line_comment_prefix": gen.line_prefixes[1]})
            tpl, main, context = gen.template_set()
            for f in gen.features:
                feats[f] = feats.get(f, 0) + 1
            compare_template_set(ctx, bj, sj, tpl, main, context, trim, lstrip, "grammar", opts)
            if ctx.cases % 997 == 0:
                ctx.sample({"templates": tpl, "main": main, "trim_blocks": trim, "lstrip_blocks": lstrip})
    # templates of the shipped kind: the `{#*` comment (a plain Jinja2 comment that begins with a star) in grammar-generated surroundings
    g = G.Gen(rng)
    for _ in range(50 if ctx.quick else 500):
        tpl, main, context = g.template_set()
        blanks = rng.choice(["", " ", "  ", "\t"])
        tpl[main] = tpl[main] + rng.choice(["", "x", "\n"]) + blanks + "{#*" + rng.choice([" note ", "*** banner ***", ""]) + "#}" + rng.choice(["", "y", "\n"])
        ctx.count("diff:star-comment")
        compare_template_set(ctx, bj, sj, tpl, main, context, False, False, "grammar+star-comment")
    ctx.extra["grammar_features"] = dict(sorted(feats.items()))
    ctx.extra["differential_plan"] = [{"trim_blocks": t, "lstrip_blocks": l, "template_sets": n} for (t, l), n in plan]
    ctx.extra["excluded_from_grammar_as_version_specific"] = G.EXCLUDED


# --------------------------------------------------------------------------------------------------
def replay(ctx, path):
    r = json.loads(open(path).read())
    rp = r.get("replay", {})
    bj, sj = modules()
    stream = rp.get("stream")
    if stream in ("differential", "marker", "autoindent"):
        context = rp.get("context_json")
        if rp.get("origin") == "snapshot-bug-probe":
            be_, se_ = make_env(bj, {}), make_env(sj, {})
            def r_(env):
                try:
                    return ["ok", env.from_string(rp["templates"]["main"]).render(**probe_values(rp.get("probe_values")))]
                except Exception as e:  # noqa: BLE001
                    return ["err", type(e).__name__]
            b, s = r_(be_), r_(se_)
            print(json.dumps({"bundled": b, "stock": s}))
            return 0 if b == s or (b[0] == "err" and s[0] == "err") else 1
        if context is None:
            context = {k: eval(v, {"Markup": bj.Markup}) for k, v in rp.get("context", {}).items()}  # noqa: S307 - our own repr()s
        b = render(bj, rp["templates"], rp["main"], context, rp.get("trim_blocks", False), rp.get("lstrip_blocks", False), opts=rp.get("environment_options"))
        if stream in ("marker", "autoindent"):
            print(json.dumps({"bundled": b, "expected": rp["expected"]}))
            return 0 if list(b) == list(rp["expected"]) else 1
        s = render(sj, rp["templates"], rp["main"], context, rp.get("trim_blocks", False), rp.get("lstrip_blocks", False), opts=rp.get("environment_options"))
        print(json.dumps({"bundled": b, "stock": s}))
        return 0 if b == s or (b[0] == "err" and s[0] == "err") else 1
    if stream == "lexer":
        from nunavut.jinja.jinja2.lexer import Lexer
        env = make_env(bj, {}, rp["lstrip_blocks"], rp["lstrip_blocks"])
        a = tokens_of(Lexer(env), rp["source"], bj.TemplateSyntaxError)
        b = tokens_of(unedited_lexer(bj, env), rp["source"], bj.TemplateSyntaxError)
        print(json.dumps({"bundled_tokens": a, "unedited_tokens": b}))
        return 0 if a == b else 1
    if stream in ("full-lexer", "full-lexer-marker"):
        out, ok = FL.replay_full_lexer(rp, bj)
        print(json.dumps(out))
        return 0 if ok else 1
    if stream == "lineprefix":
        from nunavut.jinja.jinja2.filters import do_lineprefix
        got = do_lineprefix(rp["s"], rp["prefix"])
        print(json.dumps({"got": got, "expected": ref_prefix(rp["prefix"], rp["s"])}))
        return 0 if got == ref_prefix(rp["prefix"], rp["s"]) else 1
    if stream == "ast":
        a = parse_tree(make_env(bj, {}, rp.get("trim_blocks", False), rp.get("lstrip_blocks", False), opts=rp.get("environment_options")), bj, rp["source"])
        b = parse_tree(make_env(sj, {}, rp.get("trim_blocks", False), rp.get("lstrip_blocks", False), opts=rp.get("environment_options")), sj, rp["source"])
        d = None if a == b else (first_ast_difference(a[1], b[1]) if a[0] == b[0] == "ok" else [a[:1], b[:1]])
        print(json.dumps({"first_difference": d}))
        return 0 if a == b or (a[0] == "err" and b[0] == "err") else 1
    if stream == "zoo":
        be_, se_ = make_env(bj, {}), make_env(sj, {})
        zb, zs = zoo(bj), zoo(sj)
        args = eval(rp["args"])  # noqa: S307 - our own repr()
        vn = rp["value"]
        if rp.get("source"):
            def r_(env, z):
                try:
                    return ["ok", env.from_string(rp["source"]).render(**({"v": z[vn]()} if vn in z else {}))]
                except Exception as e:  # noqa: BLE001
                    return ["err", type(e).__name__]
            a, b = r_(be_, zb), r_(se_, zs)
        else:
            call = "call_test" if rp["kind"] == "test" else "call_filter"
            a = outcome(lambda: getattr(be_, call)(rp["name"], zb[vn](), list(args)), bj)
            b = outcome(lambda: getattr(se_, call)(rp["name"], zs[vn](), list(args)), sj)
        print(json.dumps({"bundled": a, "stock": b}, default=str))
        return 0 if a == b or (a[0] == "err" and b[0] == "err") else 1
    if stream == "normalise":
        from nunavut.jinja.jinja2.lexer import Lexer
        o = {"keep_trailing_newline": rp["keep_trailing_newline"]}
        a = lexed_source(Lexer(make_env(bj, {}, opts=o)), rp["source"], bj.TemplateSyntaxError)
        b = lexed_source(sj.lexer.Lexer(make_env(sj, {}, opts=o)), rp["source"], sj.TemplateSyntaxError)
        print(json.dumps({"bundled_sees": a, "stock_sees": b}))
        return 0 if a == b else 1
    if stream == "lineprefix-nonstring":
        from nunavut.jinja.jinja2.filters import do_lineprefix
        val = eval(rp["value"], {"Markup": bj.Markup})  # noqa: S307 - our own repr()
        try:
            got = ["ok", str(do_lineprefix(val, " "))]
        except Exception as e:  # noqa: BLE001
            got = ["err", type(e).__name__]
        print(json.dumps({"got": got, "expected": rp["expected"]}))
        return 0 if got == list(rp["expected"]) else 1
    print("nothing to replay mechanically for stream", stream, "- see the replay file")
    return 1
