"""
C18 — generated Python data objects validate, reflect and convert faithfully.

Proof: lean/NunavutVerif/Properties/C18.lean (model: Model/PyObj.lean).  Tie: the classes `nnvg --target-language py`
generates from the working tree ($VERIF_REPO), imported with NumPy in a worker subprocess (this same file run as a
script), versus the compiled Lean model (`pyobj` driver) on the same requests: setter outcomes and stored values,
constructor calls, operation sequences on unions and structures, `to_builtin` / `update_from_builtin`.
Failing-input search: the property's four statements as independent predicates over the real classes
(out-of-range / wrong-length candidates must raise ValueError and nothing ill-typed may be stored; a union holds exactly
one option after every constructor call and assignment; `_MODEL_` equals the PyDSDL model of the source;
`serialize(update_from_builtin(C(), to_builtin(o))) == serialize(o)`).

Values travel as the token syntax documented in lean/Drivers/PyObj.lean.
"""
import hashlib
import json
import math
import os
import pathlib
import subprocess
import sys
from fractions import Fraction

try:
    from . import common
except ImportError:  # worker mode (run as a script)
    common = None

# ------------------------------------------------------------------------------------------------------------
# token syntax (shared by the main process and the worker)
# ------------------------------------------------------------------------------------------------------------
ONE = 1 << 1074


def odd_part(a):
    if a == 0:
        return 0, 0
    e = (a & -a).bit_length() - 1
    return a >> e, e


def tf(x):
    x = float(x)
    if x != x:
        return "nan"
    if x in (math.inf, -math.inf):
        return "inf 1" if x < 0 else "inf 0"
    neg = math.copysign(1.0, x) < 0
    n, d = abs(x).as_integer_ratio()
    m, e = odd_part(n * ONE // d)
    return f"f {int(neg)} {m} {e}"


def thex(b):
    return bytes(b).hex() if len(b) else "-"


def tN():
    return "N"


def tb(b):
    return f"b {int(bool(b))}"


def ti(i):
    return f"i {int(i)}"


def ts(b):
    return "s " + thex(b)


def tyb(mut, b):
    return f"y {int(mut)} " + thex(b)


def tl(xs):
    return " ".join([f"l {len(xs)}"] + list(xs))


def ta(dt, xs):
    return " ".join([f"a {dt} {len(xs)}"] + list(xs))


def to(cls, xs):
    return " ".join([f"o {cls} {len(xs)}"] + list(xs))


def td(extra, xs):
    return " ".join([f"d {int(extra)} {len(xs)}"] + list(xs))


def parse(s):
    toks = s.split()
    tree, pos = _parse(toks, 0)
    assert pos == len(toks), s
    return tree


def _parse_n(toks, pos, n):
    out = []
    for _ in range(n):
        t, pos = _parse(toks, pos)
        out.append(t)
    return out, pos


def _parse(toks, pos):
    k = toks[pos]
    if k in ("N", "M", "nan"):
        return (k,), pos + 1
    if k == "b":
        return ("b", toks[pos + 1] == "1"), pos + 2
    if k == "i":
        return ("i", int(toks[pos + 1])), pos + 2
    if k == "f":
        return ("f", toks[pos + 1] == "1", int(toks[pos + 2]), int(toks[pos + 3])), pos + 4
    if k == "inf":
        return ("inf", toks[pos + 1] == "1"), pos + 2
    if k == "s":
        h = toks[pos + 1]
        return ("s", b"" if h == "-" else bytes.fromhex(h)), pos + 2
    if k == "y":
        h = toks[pos + 2]
        return ("y", toks[pos + 1] == "1", b"" if h == "-" else bytes.fromhex(h)), pos + 3
    if k == "l":
        xs, pos = _parse_n(toks, pos + 2, int(toks[pos + 1]))
        return ("l", xs), pos
    if k == "a":
        h = toks[pos + 1]
        xs, pos = _parse_n(toks, pos + 3, int(toks[pos + 2]))
        return ("a", h, xs), pos
    if k == "o":
        h = int(toks[pos + 1])
        xs, pos = _parse_n(toks, pos + 3, int(toks[pos + 2]))
        return ("o", h, xs), pos
    if k == "d":
        h = toks[pos + 1] == "1"
        xs, pos = _parse_n(toks, pos + 3, int(toks[pos + 2]))
        return ("d", h, xs), pos
    raise ValueError(f"bad token {k!r}")


def tree_float(t):
    """('f'|'inf'|'nan') tree -> Python float (exact for doubles)."""
    if t[0] == "nan":
        return math.nan
    if t[0] == "inf":
        return -math.inf if t[1] else math.inf
    v = float(Fraction(t[2] << t[3], ONE))
    return -v if t[1] else v


def digest(d):
    """An opaque word standing for a model description (the reflection model treats models as opaque)."""
    return hashlib.sha1(json.dumps(d, sort_keys=True, default=str).encode()).hexdigest()[:16]


def describe_model(m):
    """Structural description of a PyDSDL composite (used on both sides of the `_MODEL_` comparison)."""
    import pydsdl

    def ty(t):
        if isinstance(t, pydsdl.CompositeType):
            # nested models are part of the blob too: describe them in depth (DSDL types are not recursive)
            return ["C", type(t).__name__, t.full_name, t.version.major, t.version.minor, t.extent,
                    [t.bit_length_set.min, t.bit_length_set.max], bool(t.deprecated), t.doc,
                    [[f.name, str(f.data_type), ty(f.data_type), f.doc] for f in t.fields],
                    [[c.name, str(c.data_type), str(c.value.native_value), c.doc] for c in t.constants]]
        if isinstance(t, pydsdl.ArrayType):
            return [type(t).__name__, t.capacity, ty(t.element_type)]
        if isinstance(t, pydsdl.VoidType):
            return ["void", t.bit_length]
        return [type(t).__name__, t.bit_length, t.cast_mode.name]

    d = {"class": type(m).__name__, "name": m.full_name, "version": [m.version.major, m.version.minor],
         "deprecated": bool(m.deprecated), "fixed_port_id": m.fixed_port_id, "source": pathlib.Path(m.source_file_path).name,
         "str": str(m), "doc": m.doc,
         "fields": [[f.name, str(f.data_type), ty(f.data_type), f.doc] for f in m.fields],
         "constants": [[c.name, str(c.data_type), ty(c.data_type), str(c.value.native_value), c.doc] for c in m.constants]}
    if isinstance(m, pydsdl.ServiceType):
        d["request"] = describe_model(m.request_type)
        d["response"] = describe_model(m.response_type)
    else:
        d["extent"] = m.extent
        d["alignment"] = m.alignment_requirement
        d["bit_length_set"] = [m.bit_length_set.min, m.bit_length_set.max]
        d["has_parent_service"] = bool(m.has_parent_service)
        if isinstance(m, pydsdl.DelimitedType):
            d["inner"] = describe_model(m.inner_type)
    return d


# ------------------------------------------------------------------------------------------------------------
# worker: runs under /venv/bin/python with NumPy and the generated packages on sys.path
# ------------------------------------------------------------------------------------------------------------
def same_builtin(a, b):
    """Deep equality of two builtin trees (NaN equals NaN; bool is not int; -0.0 is not 0.0)."""
    if type(a) is not type(b):
        return False
    if isinstance(a, dict):
        return list(a.keys()) == list(b.keys()) and all(same_builtin(a[k], b[k]) for k in a)
    if isinstance(a, (list, tuple)):
        return len(a) == len(b) and all(same_builtin(x, y) for x, y in zip(a, b))
    if isinstance(a, float):
        return (a != a and b != b) or (a == b and math.copysign(1.0, a) == math.copysign(1.0, b))
    if hasattr(a, "dtype") and hasattr(a, "tolist"):
        return a.dtype == b.dtype and same_builtin(a.tolist(), b.tolist())
    try:
        return bool(a == b)
    except Exception:  # noqa
        return a is b


class Worker:
    def __init__(self, schema):
        import importlib
        import warnings
        import numpy as np
        warnings.simplefilter("ignore")
        self.np = np
        self.ns = importlib.import_module("nunavut_support")
        self.schema = schema
        self.classes = {}
        self.cls_id = {}
        for c in schema["classes"]:
            obj = importlib.import_module(c["mod"])
            for a in c["path"]:
                obj = getattr(obj, a)
            self.classes[c["id"]] = obj
            if c["kind"] != "service":
                self.cls_id[obj] = c["id"]
                c["py"] = [f["name"] if isinstance(getattr(obj, f["name"], None), property) else f["name"] + "_"
                           for f in c["fields"]]
        self.by_id = {c["id"]: c for c in schema["classes"]}
        self.dt = {"b": np.bool_, "O": np.object_}
        for w in (8, 16, 32, 64):
            self.dt[f"u{w}"] = getattr(np, f"uint{w}")
            self.dt[f"i{w}"] = getattr(np, f"int{w}")
        for w in (16, 32, 64):
            self.dt[f"f{w}"] = getattr(np, f"float{w}")
        self.dtname = {np.dtype(v): k for k, v in self.dt.items()}

    # ---- abstract -> real ------------------------------------------------------------------------------------
    ARRAY_CODES = {"u8": "B", "i8": "b", "u16": "H", "i16": "h", "u32": "I", "i32": "i", "u64": "Q", "i64": "q", "f32": "f", "f64": "d"}

    def real(self, t, ty=None, np_scalar=False, fl=None):
        """fl (flavour of the top-level value): 'tuple' for a list; 'mv' (memoryview) / 'arr' (array.array) for an ndarray."""
        np = self.np
        k = t[0]
        if fl == "tuple" and k == "l":
            return tuple(self.real(t, ty))
        if fl in ("mv", "arr") and k == "a" and t[1] != "O":
            a = self.real(t, ty)
            if fl == "arr" and t[1] in self.ARRAY_CODES:
                import array
                return array.array(self.ARRAY_CODES[t[1]], a.tolist())
            return memoryview(a)
        if fl in ("be", "strided", "ro") and k == "a" and t[1] != "O":
            a = self.real(t, ty)
            if fl == "be":                 # same values, explicit big-endian byte order (dtype '>u2', '>f4', ...)
                return a.astype(a.dtype.newbyteorder(">"))
            if fl == "strided":            # a non-contiguous view
                return np.repeat(a, 2)[::2]
            a.setflags(write=False)        # a read-only array
            return a
        if k == "o" and t[1] == 999999:
            return (i for i in range(3))   # a foreign object: a generator
        if fl and fl.startswith("np:") and k in ("i", "b", "f", "inf", "nan"):
            # a NumPy scalar of the named dtype holding exactly this value
            v = t[1] if k in ("i", "b") else tree_float(t)
            return self.dt[fl[3:]](v)
        if fl == "sub" and k == "o":
            base = self.real(t, ty)        # an instance of a user-defined subclass of the generated class
            sub = type("Sub" + type(base).__name__, (type(base),), {})
            o = sub.__new__(sub)
            o.__dict__.update(base.__dict__)
            return o
        if k == "N":
            return None
        if k == "b":
            return t[1]
        if k == "i":
            if np_scalar and -2 ** 63 <= t[1] < 2 ** 63:
                return np.int64(t[1])
            return t[1]
        if k in ("f", "inf", "nan"):
            return np.float64(tree_float(t)) if np_scalar else tree_float(t)
        if k == "s":
            return t[1].decode("utf-8")
        if k == "y":
            return bytearray(t[2]) if t[1] else bytes(t[2])
        if k == "l":
            et = ty["e"] if ty and ty["k"] == "A" else None
            return [self.real(x, et) for x in t[1]]
        if k == "a":
            if t[1] == "O":
                a = np.empty(len(t[2]), np.object_)
                for i, x in enumerate(t[2]):
                    a[i] = self.real(x)
                return a
            return np.array([self.real(x) for x in t[2]], self.dt[t[1]])
        if k == "o":
            c = self.by_id[t[1]]
            cls = self.classes[t[1]]
            o = cls.__new__(cls)
            for name, x in zip(c["py"], t[2]):
                setattr(o, "_" + name, self.real(x))
            return o
        if k == "d":
            out = {}
            fields = self.by_id[ty["c"]]["fields"] if ty and ty["k"] == "C" else []
            for f, x in zip(fields, t[2]):
                if x[0] != "M":
                    out[f["name"]] = self.real(x, f["ty"])
            if t[1]:
                out["no_such_field_"] = 0
            return out
        raise ValueError(k)

    # ---- real -> abstract ------------------------------------------------------------------------------------
    def enc(self, v):
        np = self.np
        if v is None:
            return "N"
        if isinstance(v, (bool, np.bool_)):
            return tb(v)
        if isinstance(v, (int, np.integer)):
            return ti(v)
        if isinstance(v, (float, np.floating)):
            return tf(float(v))
        if isinstance(v, str):
            return ts(v.encode("utf-8", "surrogatepass"))
        if isinstance(v, bytes):
            return tyb(False, v)
        if isinstance(v, bytearray):
            return tyb(True, v)
        if isinstance(v, (list, tuple)):
            return tl([self.enc(x) for x in v])
        if isinstance(v, np.ndarray):
            dt = self.dtname.get(v.dtype, "X" + str(v.dtype))
            if dt in self.dt and (not v.dtype.isnative or v.dtype.str != np.dtype(self.dt[dt]).str):
                dt = "X" + v.dtype.str     # representation is part of the type: the storage dtype in native byte order
            if v.ndim != 1:
                dt = f"ND{v.ndim}{dt}"
            return ta(dt, [self.enc(x) for x in v.flatten()])
        cid = next((self.cls_id[b] for b in type(v).__mro__ if b in self.cls_id), None)   # a subclass instance IS-A generated class
        if cid is not None:
            c = self.by_id[cid]
            return to(cid, [self.enc(getattr(v, "_" + name, None)) for name in c["py"]])
        return "o 999999 0"

    def enc_builtin(self, v, ty):
        k = ty["k"]
        if k == "C":
            if not isinstance(v, dict):
                return self.enc(v)
            c = self.by_id[ty["c"]]
            names = [f["name"] for f in c["fields"]]
            vals = [self.enc_builtin(v[f["name"]], f["ty"]) if f["name"] in v else "M" for f in c["fields"]]
            return td(any(x not in names for x in v), vals)
        if k == "A" and isinstance(v, list):
            return tl([self.enc_builtin(x, ty["e"]) for x in v])
        return self.enc(v)

    # ---- cases -----------------------------------------------------------------------------------------------
    @staticmethod
    def exc(e):
        if isinstance(e, OverflowError):
            return "overflow"
        if isinstance(e, ValueError):
            return "value"
        if isinstance(e, TypeError):
            return "type"
        return "other"

    def attempt(self, fn):
        try:
            return "ok", fn(), ""
        except Exception as e:  # noqa
            return self.exc(e), None, f"{type(e).__name__}: {str(e)[:160]}"

    def ser(self, o):
        r, v, m = self.attempt(lambda: b"".join(bytes(x) for x in self.ns.serialize(o)).hex())
        return v if r == "ok" else "err " + m

    def construct(self, cid, args, np_scalar=False):
        c = self.by_id[cid]
        cls = self.classes[cid]
        kw = {}
        for name, f, a in zip(c["py"], c["fields"], args):
            if a is not None:
                kw[name] = self.real(parse(a), f["ty"], np_scalar)
        return cls(**kw)

    def run(self, case):
        k = case["k"]
        ns = self.ns
        if k == "set":
            c = self.by_id[case["c"]]
            cls = self.classes[case["c"]]
            f = c["fields"][case["f"]]
            name = c["py"][case["f"]]
            o = cls()
            x = self.real(parse(case["x"]), f["ty"], case.get("nps", False), case.get("fl"))
            r, _, m = self.attempt(lambda: setattr(o, name, x))
            return {"r": r, "m": m, "v": self.enc(getattr(o, name)), "o": self.enc(o)}
        if k == "ops":
            r, o, m = self.attempt(lambda: self.construct(case["c"], case["a"]))
            out = {"r": r, "m": m, "v": self.enc(o) if r == "ok" else "", "steps": []}
            if r != "ok":
                return out
            c = self.by_id[case["c"]]
            for idx, xs in case["ops"]:
                x = self.real(parse(xs), c["fields"][idx]["ty"])
                r2, _, m2 = self.attempt(lambda: setattr(o, c["py"][idx], x))
                reads = [getattr(o, n) is not None for n in c["py"]]
                out["steps"].append({"r": r2, "m": m2, "v": self.enc(o), "reads": reads})
            if case.get("rt"):
                out["rt"] = self.roundtrip(case["c"], o)
            return out
        if k == "rt":
            o = self.real(parse(case["o"]))
            return {"o": self.enc(o), "rt": self.roundtrip(case["c"], o)}
        if k == "tbraw":
            o = self.real(parse(case["o"]))
            r, b, m = self.attempt(lambda: ns.to_builtin(o))
            return {"r": r, "m": m, "tb": self.enc_builtin(b, {"k": "C", "c": case["c"]}) if r == "ok" else ""}
        if k == "ufb":
            cls = self.classes[case["c"]]
            ty = {"k": "C", "c": case["c"]}
            d = cls() if case["d"] is None else self.real(parse(case["d"]))
            import copy
            src = self.real(parse(case["s"]), ty, fl=case.get("fl"))
            before = copy.deepcopy(src)
            r, v, m = self.attempt(lambda: ns.update_from_builtin(d, src))
            return {"r": r, "m": m, "v": self.enc(v) if r == "ok" else "", "same": v is d, "src_kept": same_builtin(before, src)}
        if k == "alias":
            import importlib
            mod = importlib.import_module(case["mod"])
            out = {}
            for a in case["aliases"]:
                obj = getattr(mod, a, None)
                if obj is None:
                    out[a] = None
                    continue
                m = obj._MODEL_
                out[a] = {"name": m.full_name, "major": m.version.major, "minor": m.version.minor, "cls": obj.__name__,
                          "same_as_versioned": obj is getattr(mod, f"{a}_{m.version.minor}", None),
                          "model": describe_model(ns.get_model(obj))}
            return {"aliases": out, "others": sorted(n for n in vars(mod) if not n.startswith("_") and isinstance(getattr(mod, n), type))}
        if k == "setalias":
            # obj.field = pkg.Name_M()  -- an instance created through the newest-minor alias of the namespace package
            import importlib
            c = self.by_id[case["c"]]
            o = self.classes[case["c"]]()
            name = c["py"][case["f"]]
            r0, alias, m0 = self.attempt(lambda: getattr(importlib.import_module(case["mod"]), case["alias"]))
            if r0 != "ok":
                return {"r": "other", "m": m0, "v": "N", "alias_cls": None}
            x = alias()
            r, _, m = self.attempt(lambda: setattr(o, name, x))
            return {"r": r, "m": m, "v": self.enc(getattr(o, name)), "alias_cls": self.cls_id.get(alias), "stored_is": getattr(o, name) is x}
        if k == "stale":
            import importlib
            def get():
                obj = importlib.import_module(case["mod"])
                for a in case["path"]:
                    obj = getattr(obj, a)
                return describe_model(ns.get_model(obj))
            r, v, m = self.attempt(get)
            return {"r": r, "m": m, "model": v}
        if k == "svc":
            cls = self.classes[case["c"]]
            r1, _, m1 = self.attempt(lambda: ns.to_builtin(cls()))
            r2, _, m2 = self.attempt(lambda: ns.update_from_builtin(cls(), {}))
            return {"tb": r1, "tb_m": m1, "ufb": r2, "ufb_m": m2}
        if k == "snan":
            # a float32/float16 array holding signalling NaNs (enters through the zero-copy ndarray branch)
            np = self.np
            c = self.by_id[case["c"]]
            cls = self.classes[case["c"]]
            o = cls()
            w, n = case["w"], case["n"]
            raw = (b"\x01\x00\x80\x7f" if w == 32 else b"\x01\x7c") * n
            setattr(o, c["py"][case["f"]], np.frombuffer(raw, np.float32 if w == 32 else np.float16))
            return {"rt": self.roundtrip(case["c"], o)}
        if k == "model":
            cls = self.classes[case["c"]]
            c = self.by_id[case["c"]]
            out = {"model": describe_model(cls._MODEL_), "get_model_is": ns.get_model(cls) is cls._MODEL_,
                   "fixed_port_id": ns.get_fixed_port_id(cls), "has_fpid_attr": hasattr(cls, "_FIXED_PORT_ID_")}
            if c["kind"] != "service":
                out["extent_bytes"] = ns.get_extent_bytes(cls)
                out["get_model_instance_is"] = ns.get_model(cls()) is cls._MODEL_
                r, v, m = self.attempt(lambda: ns.get_class(cls._MODEL_) is cls)
                out["get_class"] = v if r == "ok" else m
                out["module"] = cls.__module__
                if len(c["path"]) == 1:
                    import importlib
                    out["pkg_attr_is"] = getattr(importlib.import_module(c["mod"].rsplit(".", 1)[0]), c["path"][0], None) is cls
                out["constants"] = {n: self.enc(ns.get_attribute(cls, n)) for n in case["constants"]}
                out["is_serializable"] = ns.is_serializable(cls)
                out["repr_default"] = repr(cls())[:200]
            else:
                out["is_service"] = ns.is_service_type(cls)
                r, v, m = self.attempt(lambda: ns.get_class(cls._MODEL_) is cls)
                out["get_class"] = v if r == "ok" else m
            return out
        raise ValueError(k)

    def roundtrip(self, cid, o):
        ns = self.ns
        cls = self.classes[cid]
        ty = {"k": "C", "c": cid}
        r, b, m = self.attempt(lambda: ns.to_builtin(o))
        out = {"tb_r": r, "tb_m": m, "ser_o": self.ser(o)}
        if r != "ok":
            return out
        out["tb"] = self.enc_builtin(b, ty)
        try:
            json.dumps(b, allow_nan=True)
            out["json_ok"] = True
        except Exception as e:  # noqa
            out["json_ok"] = f"{type(e).__name__}: {e}"
        import copy
        before = copy.deepcopy(b)
        r2, o2, m2 = self.attempt(lambda: ns.update_from_builtin(cls(), b))
        out["ufb_r"], out["ufb_m"] = r2, m2
        out["src_kept"] = same_builtin(before, b)      # the conversion must not modify the built-in form it reads
        if r2 == "ok":
            out["ufb"] = self.enc(o2)
            out["ser_rt"] = self.ser(o2)
            # the SAME built-in object converted a second time (the conversion is a function of the source value)
            r3, o3, m3 = self.attempt(lambda: ns.update_from_builtin(cls(), b))
            out["ufb2_r"], out["ufb2_m"] = r3, m3
            if r3 == "ok":
                out["ufb2"] = self.enc(o3)
                out["ser_rt2"] = self.ser(o3)
        return out


def worker_main(inp, outp):
    data = json.loads(pathlib.Path(inp).read_text())
    w = Worker(data["schema"])
    res = []
    for case in data["cases"]:
        try:
            res.append(w.run(case))
        except Exception as e:  # noqa  (a harness problem, reported as such)
            import traceback
            res.append({"harness_error": f"{type(e).__name__}: {e}", "tb": traceback.format_exc()[-600:]})
    import numpy
    pathlib.Path(outp).write_text(json.dumps({"results": res, "numpy": numpy.__version__}))


if __name__ == "__main__":
    _here = pathlib.Path(__file__).resolve().parent
    sys.path = [p for p in sys.path if pathlib.Path(p or ".").resolve() != _here]  # a namespace may be called like this file
    worker_main(sys.argv[1], sys.argv[2])
    sys.exit(0)


# ------------------------------------------------------------------------------------------------------------
# main process: schema from the PyDSDL model of the sources
# ------------------------------------------------------------------------------------------------------------
def pick_width(w):
    return 8 if w <= 8 else 16 if w <= 16 else 32 if w <= 32 else 64


class Schema:
    def __init__(self, composites):
        import pydsdl
        self.pydsdl = pydsdl
        self.classes = []
        self.ids = {}
        self.models = {}
        for c in sorted(composites, key=lambda c: (c.full_name, c.version)):
            self.ensure(c)

    def _key(self, m):
        return (m.full_name, m.version.major, m.version.minor)

    def ensure(self, m, parent=None):
        pydsdl = self.pydsdl
        k = self._key(m)
        if k in self.ids:
            return self.ids[k]
        if isinstance(m, pydsdl.ServiceType):
            cid = len(self.classes)
            self.ids[k] = cid
            name = f"{m.short_name}_{m.version.major}_{m.version.minor}"
            self.classes.append({"id": cid, "kind": "service", "mod": ".".join(m.name_components[:-1] + [name]), "path": [name],
                                 "ns": list(m.name_components[:-1]), "modname": name,
                                 "union": False, "fields": [], "full": m.full_name})
            self.models[cid] = m
            for sub in (m.request_type, m.response_type):
                self.classes[self.ensure(sub, m)]["parent"] = cid
            return cid
        fields = []
        for f in m.fields_except_padding:
            fields.append({"name": f.name, "ty": self.ty(f.data_type)})
        cid = len(self.classes)
        self.ids[k] = cid
        if m.has_parent_service:
            p = parent
            name = f"{p.short_name}_{p.version.major}_{p.version.minor}"
            mod, path, nsc = ".".join(p.name_components[:-1] + [name]), [name, m.short_name], list(p.name_components[:-1])
        else:
            name = f"{m.short_name}_{m.version.major}_{m.version.minor}"
            mod, path, nsc = ".".join(m.name_components[:-1] + [name]), [name], list(m.name_components[:-1])
        self.classes.append({"id": cid, "kind": "data", "mod": mod, "path": path, "ns": nsc, "modname": name,
                             "union": isinstance(m.inner_type, pydsdl.UnionType),
                             "fields": fields, "full": f"{m.full_name}.{m.version.major}.{m.version.minor}"})
        self.models[cid] = m
        return cid

    def ty(self, t):
        pydsdl = self.pydsdl
        if isinstance(t, pydsdl.BooleanType):
            return {"k": "B"}
        if isinstance(t, pydsdl.IntegerType):
            return {"k": "I", "s": isinstance(t, pydsdl.SignedIntegerType), "w": t.bit_length,
                    "t": t.cast_mode == pydsdl.PrimitiveType.CastMode.TRUNCATED,
                    "lo": int(t.inclusive_value_range.min), "hi": int(t.inclusive_value_range.max)}
        if isinstance(t, pydsdl.FloatType):
            return {"k": "F", "w": t.bit_length, "t": t.cast_mode == pydsdl.PrimitiveType.CastMode.TRUNCATED,
                    "max": int(t.inclusive_value_range.max)}
        if isinstance(t, pydsdl.ArrayType):
            return {"k": "A", "fx": isinstance(t, pydsdl.FixedLengthArrayType), "cap": t.capacity, "e": self.ty(t.element_type)}
        if isinstance(t, pydsdl.CompositeType):
            return {"k": "C", "c": self.ensure(t)}
        raise ValueError(f"cannot express {t!r}")

    def resolve_modules(self, out):
        """Find each class's module in the generated tree (the generator suffixes reserved names with '_');
        independent of get_class.  Returns the dotted paths of all generated packages."""
        for c in self.classes:
            d, comps = pathlib.Path(out), []
            for comp in c["ns"]:
                pick = comp if (d / comp).is_dir() else comp + "_" if (d / (comp + "_")).is_dir() else None
                if pick is None:
                    raise FileNotFoundError(f"no package for namespace component {comp!r} of {c['full']} under {d}")
                comps.append(pick)
                d = d / pick
            c["pkg"] = comps
            c["mod"] = ".".join(comps + [c["modname"]])
        pk = []
        for f in sorted(pathlib.Path(out).rglob("__init__.py")):
            pk.append(".".join(f.parent.relative_to(out).parts))
        self.packages = pk
        return pk

    def data_classes(self):
        return [c for c in self.classes if c["kind"] == "data"]

    def relatives(self, cid, limit=6):
        """Classes an `isinstance` check of a field declared as class `cid` could confuse with it: other versions of the
        same type (minor, then major), same short name in another namespace, structurally identical definitions."""
        c, m = self.classes[cid], self.models[cid]
        shape = (c["union"], [self.tokens(f["ty"]) for f in c["fields"]])
        ranked = []
        for d in self.data_classes():
            if d["id"] == cid or "parent" in d and "parent" not in c:
                continue
            dm = self.models[d["id"]]
            if dm.full_name == m.full_name:
                rank = 0 if dm.version.major == m.version.major else 1
            elif dm.short_name == m.short_name:
                rank = 2
            elif (d["union"], [self.tokens(f["ty"]) for f in d["fields"]]) == shape:
                rank = 3
            else:
                continue
            ranked.append((rank, -dm.version.minor if rank == 0 else 0, d["id"]))
        return [i for _, _, i in sorted(ranked)[:limit]]

    def tokens(self, ty):
        k = ty["k"]
        if k == "B":
            return "B"
        if k == "I":
            return f"I {int(ty['s'])} {ty['w']} {int(ty['t'])}"
        if k == "F":
            return f"F {ty['w']} {int(ty['t'])}"
        if k == "A":
            return f"A {int(ty['fx'])} {ty['cap']} " + self.tokens(ty["e"])
        c = self.classes[ty["c"]]
        return " ".join([f"C {c['id']} {int(c['union'])} {len(c['fields'])}"] + [self.tokens(f["ty"]) for f in c["fields"]])

    def ctokens(self, cid):
        return self.tokens({"k": "C", "c": cid})

    def dump(self):
        return {"classes": self.classes}


def dtype_of(e):
    if e["k"] == "B":
        return "b"
    if e["k"] == "I":
        return ("i" if e["s"] else "u") + str(pick_width(e["w"]))
    if e["k"] == "F":
        return "f" + str(pick_width(e["w"]))
    return "O"


# ------------------------------------------------------------------------------------------------------------
# namespaces: hand-written corpus + seeded random ones; generation with the tree under check
# ------------------------------------------------------------------------------------------------------------
def prepare_numpy(ctx):
    npdir = ctx.scratch / "np"
    probe = subprocess.run([common.PY, "-c", "import numpy"], capture_output=True)
    if probe.returncode == 0:
        return None
    p = subprocess.run([common.PY, "-m", "pip", "install", "-q", "--no-index", "--find-links", "/opt/veriftools/wheels",
                        "--target", str(npdir), "numpy"], capture_output=True, text=True, timeout=600)
    if p.returncode != 0:
        raise RuntimeError("cannot install numpy into scratch: " + p.stderr[-500:])
    return npdir


class WorkerFailed(RuntimeError):
    pass


class NS:
    """One root namespace: texts -> files -> PyDSDL model -> generated package.

    `prior`: an earlier revision generated first by the SAME process into another directory (per-process state).
    `history`: earlier revisions (complete file sets, oldest first) generated one after the other, each by its own nnvg
    run, into the SAME output directory; between two runs only the files that differ are rewritten (an edit), so
    unchanged definitions keep their old modification time.  The classes under test are those of the last run.
    """

    def __init__(self, ctx, label, texts, prior=None, history=None):
        import pydsdl
        self.label = label
        self.texts = texts
        self.prior = prior
        self.history = history
        self.dir = ctx.scratch / label
        self.src = self.dir / "src"
        self.out = self.dir / "out"
        env = dict(os.environ, PYTHONPATH=str(common.REPO / "src"))
        root = self.src / pathlib.Path(next(iter(texts))).parts[0]
        self.root = root
        nnvg = [common.PY, "-m", "nunavut", "--allow-unregulated-fixed-port-id", "--target-language", "py", "--outdir", str(self.out), str(root)]
        self.gen_error = None
        self.revision_models = []     # per revision of the history: PyDSDL composites (for the model tie)
        have = {}
        for n, rev in enumerate(history or []):
            self._write(rev, have, aged=(n == 0))
            have = dict(rev)
            self.revision_models.append(pydsdl.read_namespace(str(root), [], allow_unregulated_fixed_port_id=True))
            p = subprocess.run(nnvg, capture_output=True, text=True, env=env, timeout=900)
            if p.returncode != 0:
                self.gen_error = f"revision {n}: " + (p.stderr or p.stdout)[-1500:]
                break
        self._write(texts, have, aged=False)
        self.composites = pydsdl.read_namespace(str(root), [], allow_unregulated_fixed_port_id=True)
        self.schema = Schema(self.composites)
        if self.gen_error is not None:
            return
        if prior is not None:
            # ONE process generates twice: first the prior revision, then this one (nunavut.generate_types as a library)
            proot = None
            for rel, text in prior.items():
                q = self.dir / "prior_src" / rel
                q.parent.mkdir(parents=True, exist_ok=True)
                q.write_text(text)
                proot = self.dir / "prior_src" / pathlib.Path(rel).parts[0]
            code = ("import sys, pathlib, nunavut\n"
                    "for r, o in ((sys.argv[1], sys.argv[2]), (sys.argv[3], sys.argv[4])):\n"
                    "    nunavut.generate_types('py', pathlib.Path(r), pathlib.Path(o), omit_serialization_support=False,\n"
                    "                           allow_unregulated_fixed_port_id=True)\n")
            p = subprocess.run([common.PY, "-c", code, str(proot), str(self.dir / "prior_out"), str(root), str(self.out)],
                               capture_output=True, text=True, env=env, timeout=900)
        else:
            p = subprocess.run(nnvg, capture_output=True, text=True, env=env, timeout=900)
        self.gen_error = None if p.returncode == 0 else (p.stderr or p.stdout)[-1500:]
        if self.gen_error is None:
            try:
                self.schema.resolve_modules(self.out)
            except FileNotFoundError as e:
                self.gen_error = str(e)

    def _write(self, texts, have, aged):
        """Bring the source tree from `have` to `texts`, touching only the files that differ.  `aged`: the definitions
        were written an hour ago (so everything generated from them is newer than they are)."""
        import time
        for rel in have:
            if rel not in texts:
                (self.src / rel).unlink()
        for rel, text in texts.items():
            if have.get(rel) == text:
                continue
            p = self.src / rel
            p.parent.mkdir(parents=True, exist_ok=True)
            p.write_text(text)
            if aged:
                t = time.time() - 3600
                os.utime(p, (t, t))

    def run_worker(self, ctx, npdir, cases, tag):
        inp, outp = self.dir / f"cases_{tag}.json", self.dir / f"results_{tag}.json"
        inp.write_text(json.dumps({"schema": self.schema.dump(), "cases": cases}))
        path = [str(self.out)] + ([str(npdir)] if npdir else [])
        env = dict(os.environ, PYTHONPATH=os.pathsep.join(path), PYTHONDONTWRITEBYTECODE="1")
        p = subprocess.run([common.PY, str(pathlib.Path(__file__).resolve()), str(inp), str(outp)], capture_output=True, text=True,
                           env=env, timeout=1500)
        if p.returncode != 0:
            raise WorkerFailed(p.stderr[-1500:])
        data = json.loads(outp.read_text())
        return data["results"], data["numpy"]


PRIOR = {}   # corpus label -> texts of a prior revision to be generated first in the same process
HISTORY = {}  # corpus label -> earlier revisions generated one after the other into the same output directory


def corpus_namespaces():
    out = []
    d = common.VERIF / "corpus" / "C18"
    for f in sorted(d.glob("*.json")) if d.exists() else []:
        j = json.loads(f.read_text())
        if "files" in j:
            out.append((f.stem, j["files"], j.get("cases", [])))
            PRIOR[f.stem] = j.get("prior")
            HISTORY[f.stem] = j.get("history")
    return out


# ------------------------------------------------------------------------------------------------------------
# random namespaces: more versions of referenced types, and an earlier revision (regeneration history)
# ------------------------------------------------------------------------------------------------------------
import re as _re

_DEF = _re.compile(r"^(?P<dir>.*/)(?P<port>\d+\.)?(?P<name>\w+)\.(?P<major>\d+)\.(?P<minor>\d+)\.dsdl$")


def _parses(scratch, tag, texts):
    import pydsdl
    import shutil
    d = scratch / ("try_" + tag)
    shutil.rmtree(d, ignore_errors=True)
    for rel, text in texts.items():
        q = d / rel
        q.parent.mkdir(parents=True, exist_ok=True)
        q.write_text(text)
    try:
        pydsdl.read_namespace(str(d / pathlib.Path(next(iter(texts))).parts[0]), [], allow_unregulated_fixed_port_id=True)
        return True
    except pydsdl.FrontendError:
        return False
    finally:
        shutil.rmtree(d, ignore_errors=True)


def _referenced(texts):
    """Data types without a fixed port-ID that other definitions nest: [(rel path, dotted reference)]."""
    out = []
    for rel, text in sorted(texts.items()):
        m = _DEF.match(rel)
        if not m or m["port"] or "\n---" in text:
            continue
        ref = ".".join(pathlib.Path(m["dir"]).parts + (m["name"], m["major"], m["minor"]))
        if any(_re.search(r"(?m)^" + _re.escape(ref) + r"[ \[]", t) for r2, t in texts.items() if r2 != rel):
            out.append((rel, ref))
    return out


def add_versions(rng, scratch, tag, texts, n=3):
    """Give up to `n` nested types a newer minor version (same text: bit-compatible) and sometimes a new major version;
    the definitions that nest them keep referring to the OLDER minor."""
    out = dict(texts)
    refs = _referenced(texts)
    for rel, _ in rng.sample(refs, min(n, len(refs))):
        m = _DEF.match(rel)
        add = {f"{m['dir']}{m['name']}.{m['major']}.{int(m['minor']) + rng.choice([1, 1, 3])}.dsdl": texts[rel]}
        if rng.random() < 0.5:
            add[f"{m['dir']}{m['name']}.{int(m['major']) + 1}.0.dsdl"] = texts[rel]
        if not any(k in out for k in add) and _parses(scratch, tag, dict(out, **add)):
            out.update(add)
    return out


_NARROW = _re.compile(r"(?m)^((?:saturated |truncated )?u?int)(\d+)( \w+| ?\[)")


def narrowed_prior(rng, scratch, tag, texts, n=3):
    """An earlier revision: up to `n` nested types had a narrower first integer field (so every definition that nests
    them had other bit lengths); None if no such revision parses."""
    out = dict(texts)
    refs = _referenced(texts)
    changed = 0
    for rel, _ in rng.sample(refs, len(refs)):
        if changed >= n:
            break
        m = _NARROW.search(texts[rel])
        if not m or int(m[2]) < 3:
            continue
        trial = dict(out)
        trial[rel] = texts[rel][:m.start()] + f"{m[1]}{int(m[2]) - rng.choice([1, 1, 2])}{m[3]}" + texts[rel][m.end():]
        if _parses(scratch, tag, trial):
            out = trial
            changed += 1
    return out if changed else None


# ------------------------------------------------------------------------------------------------------------
# value and candidate generators (token strings)
# ------------------------------------------------------------------------------------------------------------
import struct as _struct


def _round_to(w, x):
    """x rounded to floatN the way the hardware/NumPy does (inf on overflow)."""
    if w >= 64 or x != x or x in (math.inf, -math.inf):
        return x
    fmt = "<e" if w == 16 else "<f"
    try:
        return _struct.unpack(fmt, _struct.pack(fmt, x))[0]
    except OverflowError:
        return math.copysign(math.inf, x)


def _rand_double(rng, fmax=None):
    k = rng.randrange(8)
    if k == 0:
        x = rng.choice([0.0, -0.0, 1.0, -1.0, 0.5, 1.5, 5e-324, 2.2250738585072014e-308, 1e-40, 65504.0, 65519.99, 3.4028234663852886e38])
    elif k == 1:
        x = rng.uniform(-10, 10)
    elif k == 2:
        x = _struct.unpack("<d", _struct.pack("<Q", rng.getrandbits(64)))[0]
        if x != x or x in (math.inf, -math.inf):
            x = 1.25
    elif k == 3:
        x = math.ldexp(rng.random() + 0.5, rng.randint(-160, 130)) * rng.choice([1, -1])
    elif k == 4:
        x = float(rng.randint(-70000, 70000))
    elif k == 5:
        x = math.ldexp(rng.randint(1, 2 ** 12), rng.randint(-30, 6)) * rng.choice([1, -1])
    else:
        x = rng.uniform(-1, 1) * 10 ** rng.randint(-45, 39)
    if fmax is not None and abs(x) > fmax:
        x = math.copysign(math.fmod(abs(x), fmax), x)
    return x


def _rand_int(rng, lo, hi):
    k = rng.randrange(6)
    if k == 0:
        return lo
    if k == 1:
        return hi
    if k == 2:
        return 0
    if k == 3:
        return max(lo, min(hi, rng.choice([1, -1, 2, hi - 1, lo + 1])))
    return rng.randint(lo, hi)


PRINTABLE = [c for c in range(128) if 32 <= c <= 126 or 9 <= c <= 13]
ALL_DT = ["b", "u8", "u16", "u32", "u64", "i8", "i16", "i32", "i64", "f16", "f32", "f64"]
FOREIGN = "o 999999 0"   # an object of no generated class (realised as a generator)


class Gen:
    def __init__(self, sch, rng):
        self.sch = sch
        self.rng = rng

    # ---- well-typed stored values -----------------------------------------------------------------------------
    def elem(self, e, weak=False):
        rng = self.rng
        if e["k"] == "B":
            return tb(rng.random() < 0.5)
        if e["k"] == "I":
            if weak:
                pw = pick_width(e["w"])
                lo, hi = (-(1 << (pw - 1)), (1 << (pw - 1)) - 1) if e["s"] else (0, (1 << pw) - 1)
                return ti(_rand_int(rng, lo, hi))
            return ti(_rand_int(rng, e["lo"], e["hi"]))
        if e["k"] == "F":
            if rng.random() < 0.15:
                return rng.choice(["nan", "inf 0", "inf 1"])
            x = _round_to(e["w"], _rand_double(rng, float(e["max"]) if e["w"] < 64 else None))
            return tf(x)
        return self.stored(e)

    def stored(self, ty, weak=False, depth=0):
        rng = self.rng
        k = ty["k"]
        if k == "B":
            return tb(rng.random() < 0.5)
        if k == "I":
            return ti(_rand_int(rng, ty["lo"], ty["hi"]))
        if k == "F":
            if rng.random() < 0.15:
                return rng.choice(["nan", "inf 0", "inf 1"])
            return tf(_rand_double(rng, float(ty["max"]) if ty["w"] < 64 else None))
        if k == "A":
            e, cap = ty["e"], ty["cap"]
            if ty["fx"]:
                n = cap
            else:
                n = min(cap, rng.choice([0, 1, 2, 3, cap, rng.randint(0, min(cap, 12))]))
            if e["k"] == "I" and not e["s"] and e["w"] == 8 and rng.random() < 0.5:
                return ta("u8", [ti(rng.choice(PRINTABLE)) for _ in range(n)])
            return ta(dtype_of(e), [self.elem(e, weak) for _ in range(n)])
        c = self.sch.classes[ty["c"]]
        if not c["union"]:
            return to(c["id"], [self.stored(f["ty"], weak, depth + 1) for f in c["fields"]])
        j = rng.randrange(len(c["fields"]))
        return to(c["id"], [self.stored(f["ty"], weak, depth + 1) if i == j else "N" for i, f in enumerate(c["fields"])])

    # ---- candidates -------------------------------------------------------------------------------------------
    def other_obj(self, not_cls=None):
        ds = [c for c in self.sch.data_classes() if c["id"] != not_cls]
        if not ds:
            return "N"
        return self.stored({"k": "C", "c": self.rng.choice(ds)["id"]})

    def cand_py_elem(self, e):
        """A Python scalar acceptable as an element (ints for int elements, floats for float elements, ...)."""
        rng = self.rng
        if e["k"] == "F":
            if rng.random() < 0.2:
                return rng.choice(["nan", "inf 0", "inf 1", ti(rng.randint(-5, 5)), tb(True)])
            return tf(_rand_double(rng, float(e["max"]) if e["w"] < 64 else None))
        if e["k"] == "I" and rng.random() < 0.1 and e["lo"] <= 1 <= e["hi"]:
            return tb(True)
        return self.elem(e)

    def scalar_cands(self, ty):
        rng, k = self.rng, ty["k"]
        obj = self.other_obj()
        if k == "I":
            lo, hi, w = ty["lo"], ty["hi"], ty["w"]
            out = [ti(v) for v in (lo, hi, lo - 1, hi + 1, 0, 1, -1, (lo + hi) // 2, 2 ** 64, -2 ** 64, 2 ** 70, hi + 2 ** w, lo - 2 ** w,
                                   rng.randint(lo, hi), rng.randint(lo - 1000, hi + 1000))]
            out += [tb(False), tb(True)]
            fl = [3.9, -0.0, -0.5, 1e300, -1e300, float(hi), float(lo), float(hi) + 1.0, float(lo) - 1.0, 0.999]
            if hi < 2 ** 51:
                fl += [hi + 0.5, lo - 0.5, hi + 1.5]
            out += [tf(x) for x in fl] + ["inf 0", "inf 1", "nan", "N"]
            out += [ts(b"12"), ts(b"x"), ts(b""), ts(b"+5"), ts(b"-1"), ts(b"99999999999999999999"), ts(b"0"), tyb(False, b"7"), tyb(True, b"q"),
                    tl([ti(1)]), tl([]), obj, FOREIGN, (tl([ti(1)]), "tuple")]
            # NumPy scalars: of the field's own storage dtype (in range, at and beyond the DSDL bounds, at the dtype bounds) and of other dtypes
            own = dtype_of(ty)
            for d in dict.fromkeys([own, "i64", "u8", "i8", "u16", "u64"]):
                dw = int(d[1:])
                dlo, dhi = (-(1 << (dw - 1)), (1 << (dw - 1)) - 1) if d[0] == "i" else (0, (1 << dw) - 1)
                vals = [hi + 1, lo - 1, hi, lo, dhi, dlo] if d == own else [hi + 1, lo - 1, rng.randint(lo, hi)]
                for v in dict.fromkeys(vals):
                    if dlo <= v <= dhi:
                        out.append((ti(v), "np:" + d))
            out += [(tb(True), "np:b"), (tf(2.5), "np:f32"), (tf(float(min(hi, 2 ** 15)) + 1.0), "np:f64")]
            return out
        if k == "F":
            w, mx = ty["w"], ty["max"]
            fm = float(mx)
            out = [tf(x) for x in (0.0, -0.0, 1.5, fm, -fm, 5e-324, _rand_double(rng), _rand_double(rng), 1e-50)]
            if w < 64:
                out += [tf(x) for x in (math.nextafter(fm, math.inf), -math.nextafter(fm, math.inf), fm * 2, 1e300, -1e300, fm + fm / 2 ** (11 if w == 16 else 24))]
            out += [ti(v) for v in (0, 1, -3, mx, -mx, mx + 1, -(mx + 1), 2 * mx, 2 ** 128, 2 ** 128 - 2 ** 103, 2 ** 128 - 2 ** 103 - 1, 65519, 65520,
                                    2 ** 100 + 2 ** 76 + 1, 10 ** 400, -10 ** 400, 2 ** 1024, 2 ** 1024 - 2 ** 970, 2 ** 1024 - 2 ** 970 - 1)]
            out += ["inf 0", "inf 1", "nan", tb(True), tb(False), "N", ts(b"x"), ts(b"12"), ts(b""), ts(b"-7"), tyb(False, b"3"), tl([]), tl([tf(1.0)]), obj, FOREIGN, (tl([]), "tuple")]
            # NumPy scalars: the field's own dtype at its bounds / infinite / NaN, wider dtypes beyond the field's maximum, integers
            own = "f" + str(pick_width(w))
            out += [(tf(fm), "np:" + own), (tf(-fm), "np:" + own), ("inf 0", "np:" + own), ("nan", "np:" + own), (tf(1.5), "np:" + own)]
            if w < 64:
                out += [(tf(fm * 2), "np:f64"), (tf(-fm * 2), "np:f64"), (tf(1.5), "np:f64")]
            if w == 16:
                out += [(tf(65520.0), "np:f32"), (tf(2.0 ** 100), "np:f32")]
            out += [(ti(3), "np:i64"), (ti(200), "np:u8"), (tb(True), "np:b")]
            return out
        if k == "B":
            return ["N", tb(False), tb(True), ti(0), ti(5), ti(-1), tf(0.0), tf(-0.0), tf(0.1), "nan", "inf 1", ts(b""), ts(b"x"), ts(b"0"),
                    tyb(False, b""), tyb(True, b"z"), tl([]), tl([ti(0)]), obj, td(False, []), td(True, []), FOREIGN, (tl([]), "tuple"), (tl([ti(0)]), "tuple"),
                    (tb(True), "np:b"), (tb(False), "np:b"), (ti(0), "np:u8"), (ti(2), "np:i64"), (tf(0.0), "np:f32"), ("nan", "np:f64")]
        if k == "C":
            right = [self.stored(ty) for _ in range(2)]
            rel = [self.stored({"k": "C", "c": r}) for r in self.sch.relatives(ty["c"])]   # other versions / namesakes / look-alikes
            return right + rel + [(right[1], "sub")] + [self.other_obj(ty["c"]), "N", ti(5), ts(b"x"), tl([]), tl([right[0]]), tb(True), tf(1.0), FOREIGN, (tl([right[0]]), "tuple")]
        raise ValueError(k)

    def array_cands(self, ty, full):
        rng = self.rng
        e, cap, fx = ty["e"], ty["cap"], ty["fx"]
        dt = dtype_of(e)
        big = cap > 64
        lens = sorted({0, 1, 2, cap} | ({cap - 1, cap + 1, 2 * cap + 1} if not big else {7}))
        lens = [n for n in lens if n >= 0]
        if not full and len(lens) > 4:
            lens = sorted(set(rng.sample(lens, 3)) | {cap} | (set() if big else {cap + 1}))
        out = []
        el = lambda: self.cand_py_elem(e)  # noqa
        for n in lens:
            out.append(tl([el() for _ in range(n)]))
            out.append(ta(dt, [self.elem(e, weak=rng.random() < 0.3) for _ in range(n)]))
            if e["k"] == "I" and not e["s"] and e["w"] <= 8:
                raw = bytes(rng.choice([rng.randrange(256), rng.choice(PRINTABLE), rng.choice(b"0123456789")]) for _ in range(n))
                out.append(tyb(False, raw))
                out.append(tyb(True, raw))
                out.append(tyb(False, bytes(rng.choice(b"0123456789") for _ in range(n))))
                out.append(tyb(False, bytes(rng.choice(b"xyzuvw#!") for _ in range(n))))
                out.append(ts(bytes(rng.choice(b"0123456789") for _ in range(n))))
                out.append(ts(bytes(rng.choice(b"ghjklmopqrsuvwxz!#%") for _ in range(n))))
                if n >= 2:
                    out.append(ts("é".encode() * (n // 2) + b"k" * (n % 2)))
        m = max(1, min(cap, 2))
        pad = lambda xs: xs + [el() for _ in range(m - len(xs))] if fx else xs  # noqa
        padn = lambda xs: (xs + [el() for _ in range(cap - len(xs))]) if fx and not big else xs  # noqa
        if e["k"] == "I":
            pw = pick_width(e["w"])
            dlo, dhi = (-(1 << (pw - 1)), (1 << (pw - 1)) - 1) if e["s"] else (0, (1 << pw) - 1)
            specials = [e["hi"] + 1, e["lo"] - 1, dhi, dlo, dhi + 1, dlo - 1, 2 ** 70, -2 ** 70, e["hi"], e["lo"]]
            for v in specials:
                out.append(tl(padn([ti(v)])))
            for x in (1.7, -0.0, float(e["hi"]) + 1.0, 1e30):
                out.append(tl(padn([tf(x)])))
            for t in ("nan", "inf 0", "N", ts(b"x"), ts(b"7"), ts(b""), tyb(False, b"1"), tb(True), self.other_obj()):
                out.append(tl(padn([t])))
            other = rng.choice([d for d in ("i64", "u16", "i8", "u64", "b") if d != dt])
            if other == "b":
                out.append(ta("b", [tb(rng.random() < 0.5) for _ in range(cap if fx and not big else m)]))
            else:
                ow = int(other[1:])
                olo, ohi = (-(1 << (ow - 1)), (1 << (ow - 1)) - 1) if other[0] == "i" else (0, (1 << ow) - 1)
                vals = [rng.choice([olo, ohi, e["hi"], e["hi"] + 1, e["lo"], 0, 1, 300, 255, 256, 128, rng.randint(olo, ohi)]) for _ in range(cap if fx and not big else m)]
                out.append(ta(other, [ti(max(olo, min(ohi, v))) for v in vals]))
            out.append(ta("f64", [tf(1.5)] * (cap if fx and not big else 1)))
            out += [ti(e["hi"]), ti(e["hi"] + 1), tf(1.5), "N", ts(b"x"), ts(b"12"), ts(b"00007"), tyb(False, b"00007"), tyb(False, b"12345"), self.other_obj()]
        elif e["k"] == "F":
            fm = float(e["max"])
            w = e["w"]
            sp = [fm, -fm, 5e-324, -0.0, 1.1, 1e-46, 65519.99, 65520.0, 3.4028235677973366e38, 3.4028235677973362e38]
            if w < 64:
                sp += [fm * 2, 1e39, -1e39, 1e300, math.nextafter(fm, math.inf)]
            for x in sp:
                out.append(tl(padn([tf(x)])))
            for t in ("nan", "inf 0", "inf 1", "N", ts(b"x"), ts(b"12"), tb(True), ti(3), ti(2 ** 128), ti(2 ** 100 + 2 ** 76 + 1), ti(10 ** 400),
                      ti(e["max"] + 1), self.other_obj()):
                out.append(tl(padn([t])))
            n = cap if fx and not big else m
            out.append(ta("f64", [tf(rng.choice([1e39, -1e39, 1.1, fm, 1e-46, 0.1, 65520.0])) for _ in range(n)]))
            out.append(ta("f64", ["nan", "inf 1"][:n] + [tf(0.5)] * max(0, n - 2)))
            out.append(ta("i64", [ti(rng.choice([0, 1, -1, 2 ** 62 + 1, 65520, 16777217])) for _ in range(n)]))
            out.append(ta("b", [tb(True)] * n))
            if w != 16:
                out.append(ta("f16", [tf(1.5)] * n))
            out += [tf(1.5), ti(2), "N", ts(b"x"), ts(b"12"), tyb(False, b"5"), "nan", self.other_obj()]
        elif e["k"] == "B":
            for t in (ti(0), ti(5), "N", ts(b""), ts(b"x"), tf(0.0), "nan", tyb(False, b""), self.other_obj()):
                out.append(tl(padn([t])))
            n = cap if fx and not big else m
            out.append(ta("i64", [ti(rng.choice([0, 1, -1, 256])) for _ in range(n)]))
            out.append(ta("f64", [rng.choice([tf(0.0), tf(-0.0), "nan", tf(2.5)]) for _ in range(n)]))
            out.append(ta("u8", [ti(rng.choice([0, 1, 2])) for _ in range(n)]))
            out += [tb(True), ti(0), "N", ts(b""), ts(b"ab"), tyb(False, b"ab"), self.other_obj()]
        else:
            cid = e["c"]
            n = cap if fx and not big else m
            out.append(tl([self.other_obj(cid) for _ in range(n)]))
            for r in self.sch.relatives(cid, 3):
                out.append(tl([self.stored({"k": "C", "c": r}) for _ in range(n)]))
            out.append(tl([ti(1), ts(b"x")][:n] + ["N"] * max(0, n - 2)))
            out.append(tl(["N"] * n))
            out.append(ta("O", [self.other_obj(cid) for _ in range(n)]))
            out += [self.stored(e), "N", ti(3), ts(b"ab"), tyb(False, b"ab")]
        out.append(tl([tl([el()]), tl([el()])]))
        out.append(td(False, []))
        out.append(FOREIGN)
        out.append(tl(padn([FOREIGN])))
        # every sequence flavour at lengths around the capacity: tuples, str, and buffers / ndarrays of every dtype
        # (ndarray, memoryview, array.array) with the capacity reached in ITEMS and in BYTES
        for n in lens:
            out.append((tl([el() for _ in range(n)]), "tuple"))
            if not (e["k"] == "I" and not e["s"] and e["w"] <= 8):
                out.append(ts(bytes(rng.choice(b"0123456789") for _ in range(n))))
                out.append(ts(bytes(rng.choice(b"ghjklmopqrsuvwxz") for _ in range(n))))
        # representation: the right item type in big-endian byte order, a strided view, a read-only array
        rep_cands = []
        if e["k"] != "C":
            for n in lens:
                out.append((ta(dt, [self.elem(e, weak=False) for _ in range(n)]), "be"))
            rep_cands = [(ta(dt, [self.elem(e, weak=False) for _ in range(cap if fx or cap <= 64 else 7)]), f) for f in ("be", "strided", "ro")]
            out += rep_cands
        sweep = []
        flavours = [None, "mv", "arr", "be", "strided", "ro"]
        for di, d in enumerate(ALL_DT):
            size = 1 if d == "b" else int(d[1:]) // 8
            ns = sorted({cap, cap + 1, max(cap - 1, 0), cap // size, cap // size + 1, -(-cap // size), (cap + 1) // size})
            for ni, n in enumerate(x for x in ns if x <= 300):
                if d == "b":
                    elems = [tb(rng.random() < 0.5) for _ in range(n)]
                elif d[0] == "f":
                    elems = [tf(float(rng.choice([0, 1]))) for _ in range(n)]
                else:
                    elems = [ti(rng.choice([0, 1])) for _ in range(n)]
                sweep.append((ta(d, elems), flavours[(di + ni + rng.randrange(6)) % 6]))
        out += sweep if full else rng.sample(sweep, min(len(sweep), 10))
        if not full and len(out) > 40:
            out = rng.sample(out, 40) + rep_cands
        return out

    def cands(self, ty, full=True):
        if ty["k"] == "A":
            return self.array_cands(ty, full)
        out = self.scalar_cands(ty)
        if not full and len(out) > 16 and ty["k"] != "C":
            keep = [x for x in out if isinstance(x, tuple) and x[1] == "np:" + dtype_of(ty)][:4]   # NumPy scalars of the field's own dtype
            out = self.rng.sample(out, 16) + keep
        return out

    def accepted_cand(self, ty):
        """A candidate the setter should accept (used to build objects through the public API)."""
        rng, k = self.rng, ty["k"]
        if k in ("B", "I", "F"):
            return self.cand_py_elem(ty)
        if k == "C":
            return self.stored(ty)
        e, cap = ty["e"], ty["cap"]
        n = cap if ty["fx"] else min(cap, rng.choice([0, 1, 2, 3, cap]))
        if e["k"] == "I" and not e["s"] and e["w"] <= 8 and rng.random() < 0.4:
            raw = bytes(rng.choice(PRINTABLE if rng.random() < 0.7 else range(256)) for _ in range(n))
            if not ty["fx"] and e["w"] == 8 and rng.random() < 0.5:
                return ts(bytes(rng.choice([c for c in PRINTABLE if c < 128]) for _ in range(n)))
            return tyb(rng.random() < 0.3, raw)
        if rng.random() < 0.3:
            return ta(dtype_of(e), [self.elem(e, weak=rng.random() < 0.2) for _ in range(n)])
        return tl([self.cand_py_elem(e) for _ in range(n)])


# ------------------------------------------------------------------------------------------------------------
# the property's predicates, written independently of the Lean model (failing-input search)
# ------------------------------------------------------------------------------------------------------------
def _len_ok(ty, n):
    return n == ty["cap"] if ty["fx"] else n <= ty["cap"]


def _num(t):
    """Numeric reading of a scalar candidate: ('i', int) | ('f', float) | None."""
    if t[0] == "i":
        return ("i", t[1])
    if t[0] == "b":
        return ("i", int(t[1]))
    if t[0] in ("f", "inf", "nan"):
        return ("f", tree_float(t))
    return None


def _int_out(e, num):
    """Is the number outside the integer type's range (floats judged by their truncation)?"""
    if num is None:
        return False
    k, v = num
    if k == "f":
        if v != v:
            return False
        if v in (math.inf, -math.inf):
            return True
        v = int(v)
    return not (e["lo"] <= v <= e["hi"])


def _float_out(e, num):
    if num is None:
        return False
    k, v = num
    if k == "i":
        try:
            v = float(v)
        except OverflowError:
            return True
    if v != v or v in (math.inf, -math.inf):
        return False
    return e["w"] < 64 and abs(v) > float(e["max"])


def expect_reject(ty, t):
    """None, or why the property demands a ValueError for candidate tree `t` offered to a field of type `ty`."""
    k = ty["k"]
    if k == "I":
        return {"what": "int-range"} if _int_out(ty, _num(t)) else None
    if k == "F":
        return {"what": "float-range"} if _float_out(ty, _num(t)) else None
    if k != "A":
        return None
    e = ty["e"]
    n = None
    if t[0] == "l" and all(x[0] not in ("l", "a", "d") for x in t[1]):
        n = len(t[1])
    elif t[0] == "a":
        n = len(t[2])
    elif t[0] == "y" and e["k"] == "I" and not e["s"] and e["w"] <= 8:
        n = len(t[2])
    elif t[0] == "s" and e["k"] == "I" and not e["s"] and e["w"] == 8 and not ty["fx"]:
        n = len(t[1])
    xs = (t[1] if t[0] == "l" else t[2]) if t[0] in ("l", "a") else []
    for x in xs:
        if e["k"] == "I" and _int_out(e, _num(x)):
            return {"what": "elem-range", "elem": "int", "src": "list" if t[0] == "l" else "ndarray"}
        if e["k"] == "F" and _float_out(e, _num(x)):
            return {"what": "elem-range", "elem": "float", "src": "list" if t[0] == "l" else "ndarray"}
    clean = all((_num(x) is not None and not (x[0] == "nan" and e["k"] == "I")) if e["k"] in ("I", "F") else (e["k"] == "B" or x[0] == "o") for x in xs)
    if n is not None and not _len_ok(ty, n) and clean:
        return {"what": "length", "cand": {"l": "list", "a": "ndarray", "y": "bytes", "s": "str"}[t[0]], "n": n}
    return None


def check_stored(ty, t):
    """None if the stored value `t` (a tree) is a well-typed value of the field, else what is wrong."""
    k = ty["k"]
    if k == "B":
        return None if t[0] == "b" else "not-bool"
    if k == "I":
        return None if t[0] == "i" and ty["lo"] <= t[1] <= ty["hi"] else "int-range"
    if k == "F":
        if t[0] in ("inf", "nan"):
            return None
        if t[0] != "f":
            return "not-float"
        return None if ty["w"] >= 64 or abs(tree_float(t)) <= float(ty["max"]) else "float-range"
    if k == "A":
        if t[0] != "a":
            return "not-ndarray"
        if t[1] != dtype_of(ty["e"]):
            return "dtype"
        if not _len_ok(ty, len(t[2])):
            return "array-length"
        if ty["e"]["k"] == "I":
            for x in t[2]:
                if not (x[0] == "i" and ty["e"]["lo"] <= x[1] <= ty["e"]["hi"]):
                    return "elem-range"
        return None
    return None if t[0] == "o" and t[1] == ty["c"] else "class"


def deep_ok(sch, ty, t):
    """Is the object tree `t` a (deeply) well-typed value of `ty`?  Integer array elements need only fit the dtype."""
    k = ty["k"]
    if k == "C":
        c = sch.classes[ty["c"]]
        if t[0] != "o" or t[1] != ty["c"] or len(t[2]) != len(c["fields"]):
            return False
        if c["union"]:
            sel = [i for i, s in enumerate(t[2]) if s[0] != "N"]
            return len(sel) == 1 and deep_ok(sch, c["fields"][sel[0]]["ty"], t[2][sel[0]])
        return all(deep_ok(sch, f["ty"], s) for f, s in zip(c["fields"], t[2]))
    if k == "A":
        if t[0] != "a" or t[1] != dtype_of(ty["e"]) or not _len_ok(ty, len(t[2])):
            return False
        if ty["e"]["k"] == "C":
            return all(deep_ok(sch, ty["e"], x) for x in t[2])
        return True
    return check_stored(ty, t) is None


def slots_of(t):
    return t[2] if t[0] == "o" else None


# ------------------------------------------------------------------------------------------------------------
# the check
# ------------------------------------------------------------------------------------------------------------
def plain(x):
    return x[0] if isinstance(x, tuple) else x


def model_outcome(ans):
    """driver answer -> (class, value tokens)."""
    if ans.startswith("ok "):
        return "ok", ans[3:]
    if ans.startswith("err "):
        parts = ans.split(" ", 2)
        return parts[1], parts[2] if len(parts) > 2 else ""
    if ans.startswith("unmodelled"):
        return "unmodelled", ans[len("unmodelled"):].strip()
    return "bad", ans


class NSCheck:
    def __init__(self, ctx, drv, ns, npdir, full, n_ops, n_rt, ops_len):
        self.ctx, self.drv, self.ns, self.npdir, self.full = ctx, drv, ns, npdir, full
        self.sch = ns.schema
        self.gen = Gen(self.sch, ctx.rng)
        self.n_ops, self.n_rt, self.ops_len = n_ops, n_rt, ops_len
        self.corpus_cases = []
        self.real_models = {}     # class id -> describe_model(get_model(cls)) as observed in the worker
        self.alias_seen = []      # (package, alias, observed description | None)

    def replay_of(self, case, extra=None):
        r = {"namespace": self.ns.label, "files": self.ns.texts, "case": case}
        if self.ns.prior:
            r["prior"] = self.ns.prior
        if self.ns.history:
            r["history"] = self.ns.history
        if case.get("c") is not None:
            r["class"] = self.sch.classes[case["c"]]["full"]
        r.update(extra or {})
        return r

    def ask(self, lines):
        if self.drv is None or not lines:
            return [None] * len(lines)
        return self.drv.ask(lines, timeout=1500)

    # ---- phase 1 ----------------------------------------------------------------------------------------------
    def build_cases(self):
        ctx, sch, gen, rng = self.ctx, self.sch, self.gen, self.ctx.rng
        cases = []
        for c in sch.classes:
            m = sch.models[c["id"]]
            consts = [] if c["kind"] == "service" else [k.name for k in m.constants]
            cases.append({"k": "model", "c": c["id"], "constants": consts})
        for cc in self.corpus_cases:
            c = next(c for c in sch.data_classes() if c["full"] == cc["class"])
            fi = next(i for i, f in enumerate(c["fields"]) if f["name"] == cc["field"])
            cases.append({"k": "set", "c": c["id"], "f": fi, "x": cc["x"]})
            ctx.count("corpus-cases")
        for c in sch.data_classes():
            for fi, f in enumerate(c["fields"]):
                for x in gen.cands(f["ty"], self.full):
                    fl = None
                    if isinstance(x, tuple):
                        x, fl = x
                    case = {"k": "set", "c": c["id"], "f": fi, "x": x}
                    if fl:
                        case["fl"] = fl
                    if f["ty"]["k"] in ("I", "F", "B") and x.split()[0] in ("i", "f", "inf", "nan") and rng.random() < 0.15:
                        case["nps"] = True
                    cases.append(case)
        for c in sch.data_classes():
            # constructor calls handing a composite-typed parameter an instance of a relative of the declared class
            nf = len(c["fields"])
            for fi, f in enumerate(c["fields"]):
                if f["ty"]["k"] == "C":
                    for r in sch.relatives(f["ty"]["c"], 3):
                        args = [None] * nf
                        args[fi] = gen.stored({"k": "C", "c": r})
                        cases.append({"k": "ops", "c": c["id"], "a": args, "ops": [], "rt": True})
                        ctx.count("ctor-with-relative-class")
        for c in sch.data_classes():
            nf = len(c["fields"])
            if nf == 0:
                cases.append({"k": "ops", "c": c["id"], "a": [], "ops": [], "rt": True})
                continue
            reps = self.n_ops * (3 if c["union"] else 1)
            for r in range(reps):
                args = [None] * nf
                mode = r % 5 if c["union"] else rng.randrange(3)
                if c["union"]:
                    picks = {0: [], 1: [rng.randrange(nf)], 2: [rng.randrange(nf)], 3: rng.sample(range(nf), 2), 4: rng.sample(range(nf), min(nf, rng.randint(2, 3)))}[mode]
                else:
                    picks = [] if mode == 0 else [i for i in range(nf) if rng.random() < (0.5 if mode == 1 else 1.0)]
                for i in picks:
                    fty = c["fields"][i]["ty"]
                    args[i] = gen.accepted_cand(fty) if rng.random() < 0.8 else plain(rng.choice(gen.cands(fty, False)))
                    if args[i] == "N":
                        args[i] = None
                ops = []
                for _ in range(rng.randint(0, self.ops_len)):
                    i = rng.randrange(nf)
                    fty = c["fields"][i]["ty"]
                    ops.append([i, gen.accepted_cand(fty) if rng.random() < 0.65 else plain(rng.choice(gen.cands(fty, False)))])
                cases.append({"k": "ops", "c": c["id"], "a": args, "ops": ops, "rt": True})
            for r in range(self.n_rt):
                cases.append({"k": "rt", "c": c["id"], "o": gen.stored({"k": "C", "c": c["id"]}, weak=r % 4 == 3)})
            # to_builtin on objects the API cannot produce: None in a structure field, a union holding no / two options,
            # None / foreign values inside arrays of composites (the "is not None" filter and the duck typing of the code)
            for r in range(2 if self.full else 1):
                t = parse(gen.stored({"k": "C", "c": c["id"]}))
                sl = list(t[2])
                if c["union"]:
                    mode = rng.randrange(3)
                    if mode == 0:
                        sl = [("N",)] * nf
                    else:
                        j = rng.randrange(nf)
                        sl[j] = parse(gen.stored(c["fields"][j]["ty"]))
                else:
                    j = rng.randrange(nf)
                    fty = c["fields"][j]["ty"]
                    if fty["k"] == "A" and fty["e"]["k"] == "C" and rng.random() < 0.5:
                        n = fty["cap"] if fty["fx"] else min(fty["cap"], 2)
                        sl[j] = parse(ta("O", [rng.choice(["N", ti(1)]) if q == 0 else gen.stored(fty["e"]) for q in range(n)]))
                    elif fty["k"] == "A" and rng.random() < 0.4:
                        sl[j] = ("l", [])          # not an ndarray: the `assert isinstance(obj, numpy.ndarray)` branch
                    else:
                        sl[j] = ("N",)
                cases.append({"k": "tbraw", "c": c["id"], "o": unparse(("o", c["id"], sl))})
        return cases

    def driver_lines_1(self, cases):
        sch = self.sch
        lines = []
        for case in cases:
            if case["k"] == "set":
                f = sch.classes[case["c"]]["fields"][case["f"]]
                lines.append("set " + sch.tokens(f["ty"]) + " " + case["x"])
            elif case["k"] == "ops":
                args = " ".join(a if a is not None else "N" for a in case["a"])
                ops = " ".join(f"{i} {x}" for i, x in case["ops"])
                lines.append(f"ops {sch.ctokens(case['c'])} {len(case['a'])} {args} {len(case['ops'])} {ops}")
            elif case["k"] == "tbraw":
                lines.append(f"tb {sch.ctokens(case['c'])} {case['o']}")
            elif case["k"] == "model":
                c = sch.classes[case["c"]]
                lines.append(f"import {len(sch.packages)} " + " ".join(sch.packages) + " " + ".".join(c["ns"]))
            else:
                lines.append(None)
        return lines

    def fail_reject(self, case, fty, why, r, extra):
        ctx = self.ctx
        stored = r["r"] == "ok"
        if why["what"] == "length":
            key = {"kind": "array-length", "cand": why["cand"], "outcome": "stored" if stored else r["r"]}
            what = (f"a {why['cand']} of length {why['n']} offered to an array field of "
                    f"{'length' if fty['fx'] else 'capacity'} {fty['cap']} " + ("is stored" if stored else f"raises {r['m'].split(':')[0]} instead of ValueError"))
        elif why["what"] == "elem-range":
            if stored:
                key = {"kind": "array-element-range-unchecked", "elem": why["elem"], "src": why["src"]}
                what = f"an array element outside the element type's range ({why['elem']}, from a {why['src']}) does not raise; stored: {r['v'][:80]}"
            else:
                key = {"kind": "out-of-range-raises-non-valueerror", "where": "array-element", "exc": r["m"].split(":")[0]}
                what = f"an out-of-range array element raises {r['m'].split(':')[0]} instead of ValueError"
        else:
            if stored:
                key = {"kind": "scalar-out-of-range-stored", "what": why["what"]}
                what = f"a value outside the field's range is stored: {r['v'][:80]}"
            else:
                key = {"kind": "out-of-range-raises-non-valueerror", "where": why["what"], "exc": r["m"].split(":")[0]}
                what = f"an out-of-range value raises {r['m'].split(':')[0]} instead of ValueError"
        ctx.fail(key, what, self.replay_of(case, dict(extra, observed=r)))

    def judge_set(self, case, r, ans):
        ctx, sch = self.ctx, self.sch
        c = sch.classes[case["c"]]
        fty = c["fields"][case["f"]]["ty"]
        tree = parse(case["x"])
        ctx.case(("set", sch.tokens(fty), case["x"], case.get("fl")), True)
        ctx.count("set:" + fty["k"] + ":" + r["r"])
        if case.get("fl"):
            ctx.count("flavour:" + case["fl"])
        # tie
        if ans is not None:
            mc, mv = model_outcome(ans)
            if mc == "unmodelled":
                ctx.count("unmodelled")
            else:
                ctx.traces += 1
                if mc != r["r"] or (mc == "ok" and mv != r["v"]):
                    ctx.disagree("set", self.replay_of(case, {"field_type": sch.tokens(fty)}), ans[:300], {"r": r["r"], "v": r["v"][:300], "m": r["m"]})
        # property: out of range / wrong length must raise ValueError
        why = expect_reject(fty, tree)
        if why is not None:
            ctx.count("must-reject:" + why["what"])
            if r["r"] != "value":
                self.fail_reject(case, fty, why, r, {"field_type": sch.tokens(fty)})
        # property: whatever is in the field afterwards is a well-typed value
        bad = None if (c["union"] and r["v"] == "N" and r["r"] != "ok") else check_stored(fty, parse(r["v"]))
        if bad is not None:
            if bad == "elem-range":
                key = {"kind": "array-element-range-unchecked", "elem": "int", "src": "stored"}
            else:
                key = {"kind": "stored-ill-typed", "what": bad}
            ctx.fail(key, f"after the assignment the field holds an ill-typed value ({bad}): {r['v'][:80]}",
                     self.replay_of(case, {"field_type": sch.tokens(fty), "observed": r}))
        if r["r"] != "ok":
            # a failed assignment must leave the object as constructed
            if c["union"] and sum(1 for s in slots_of(parse(r["o"])) if s[0] != "N") != 1:
                ctx.fail({"kind": "union-not-one-option", "after": "failed-assignment"}, "a raising union setter leaves the union without exactly one option",
                         self.replay_of(case, {"observed": r}))
        elif c["union"]:
            sl = slots_of(parse(r["o"]))
            if [i for i, s in enumerate(sl) if s[0] != "N"] != [case["f"]]:
                ctx.fail({"kind": "union-not-one-option", "after": "assignment"}, "after a union setter the selected option is not the only one that is not None",
                         self.replay_of(case, {"observed": r}))

    def judge_union_state(self, case, state_tokens, reads, where):
        sl = slots_of(parse(state_tokens))
        n = sum(1 for s in sl if s[0] != "N")
        if n != 1 or (reads is not None and sum(reads) != 1):
            self.ctx.fail({"kind": "union-not-one-option", "after": where}, f"union holds {n} options after {where}",
                          self.replay_of(case, {"state": state_tokens[:300], "reads": reads}))

    def judge_rt(self, case, otoks, rt, tag):
        """Statement 4 on the implementation + tie of to_builtin/update_from_builtin; returns driver requests."""
        ctx, sch = self.ctx, self.sch
        ctx.count("roundtrip-objects")
        rp = lambda: self.replay_of(case, {"object": otoks[:2000], "observed": {k: (v[:400] if isinstance(v, str) else v) for k, v in rt.items()}})  # noqa
        serializable = not rt["ser_o"].startswith("err")
        if not deep_ok(sch, {"k": "C", "c": case["c"]}, parse(otoks)):
            # an array of composites accepted elements of another class (not checked by the setter, see REPORT): not an object
            ctx.count("roundtrip-skipped-ill-typed-object")
            serializable = False
        if rt["tb_r"] != "ok":
            if serializable:
                ctx.fail({"kind": "builtin-roundtrip", "case": "to_builtin-raises"}, "to_builtin raises on a serializable object: " + rt["tb_m"], rp())
            return []
        if rt["ufb_r"] != "ok":
            if serializable:
                ctx.fail({"kind": "builtin-roundtrip", "case": "update_from_builtin-raises"},
                         "update_from_builtin(C(), to_builtin(o)) raises: " + rt["ufb_m"], rp())
        elif serializable and rt["ser_rt"] != rt["ser_o"]:
            ctx.fail({"kind": "builtin-roundtrip", "case": "bytes-differ"},
                     "serialize(update_from_builtin(C(), to_builtin(o))) != serialize(o)", rp())
        if rt.get("src_kept") is False:
            ctx.fail({"kind": "builtin-roundtrip", "case": "source-modified"},
                     "update_from_builtin modified the built-in form it was given (deep comparison before/after)", rp())
        if rt["ufb_r"] == "ok" and (rt.get("ufb2_r") != "ok" or rt.get("ufb2") != rt["ufb"] or rt.get("ser_rt2") != rt["ser_rt"]):
            ctx.fail({"kind": "builtin-roundtrip", "case": "second-conversion-differs"},
                     "converting the same built-in object a second time gives another object: " + str(rt.get("ufb2_m") or rt.get("ufb2", ""))[:120], rp())
        ctx.count("roundtrip-source-reused")
        if not deep_ok(sch, {"k": "C", "c": case["c"]}, parse(otoks)):
            return []   # duck typing on foreign elements is outside the model
        ct = sch.ctokens(case["c"])
        reqs = [("tb", f"tb {ct} {otoks}", ("ok", rt["tb"]))]
        reqs.append(("ufb", f"ufb {ct} D {rt['tb']}", (rt["ufb_r"], rt.get("ufb", ""))))
        return [(tag, case, a, b, c) for a, b, c in reqs]

    def run(self):
        ctx, sch = self.ctx, self.sch
        if self.ns.gen_error:
            ctx.disagree("generate", {"namespace": self.ns.label, "files": self.ns.texts}, "nnvg generates Python", self.ns.gen_error)
            return
        cases = self.build_cases()
        try:
            results, npver = self.ns.run_worker(ctx, self.npdir, cases, "p1")
        except WorkerFailed as e:
            ctx.fail({"kind": "generated-package-unusable"}, "the generated package cannot be imported / executed: " + str(e)[-300:],
                     {"namespace": self.ns.label, "files": self.ns.texts, "stderr": str(e)})
            self.dead = True
            return
        ctx.extra["numpy"] = npver
        lines = self.driver_lines_1(cases)
        idx = [i for i, l in enumerate(lines) if l is not None]
        answers = dict(zip(idx, self.ask([lines[i] for i in idx])))
        later = []   # (tag, case, kind, request, expected)
        mutate_src = []
        for i, (case, r) in enumerate(zip(cases, results)):
            if "harness_error" in r:
                raise RuntimeError(f"worker error on {case}: {r['harness_error']}\n{r.get('tb')}")
            ans = answers.get(i)
            k = case["k"]
            if k == "model":
                self.judge_model(case, r, ans)
            elif k == "set":
                self.judge_set(case, r, ans)
            elif k == "ops":
                self.judge_ops(case, r, ans, later, mutate_src)
            elif k == "tbraw":
                ctx.case(("tbraw", case["c"], case["o"]), True)
                ctx.count("to_builtin-raw-object:" + r["r"])
                if ans is not None:
                    mc, mv = model_outcome(ans)
                    if mc == "unmodelled":
                        ctx.count("unmodelled")
                    else:
                        ctx.traces += 1
                        if mc != r["r"] or (mc == "ok" and mv != r["tb"]):
                            ctx.disagree("tb-raw", self.replay_of(case), ans[:400], {"r": r["r"], "v": r["tb"][:400], "m": r["m"]})
            elif k == "rt":
                ctx.case(("rt", case["c"], case["o"]), True)
                if r["o"] != case["o"]:
                    raise RuntimeError(f"object did not survive realisation: {case['o'][:200]} -> {r['o'][:200]}")
                later += self.judge_rt(case, case["o"], r["rt"], "rt")
                if r["rt"].get("tb"):
                    mutate_src.append((case["c"], r["rt"]["tb"]))
        # ---- phase 2: to_builtin / update_from_builtin against the model, mutated sources ------------------------
        answers2 = self.ask([x[3] for x in later])
        for (tag, case, kind, req, exp), ans in zip(later, answers2):
            if ans is None:
                continue
            mc, mv = model_outcome(ans)
            if mc == "unmodelled":
                ctx.count("unmodelled")
                continue
            ctx.traces += 1
            ctx.count("tie:" + kind)
            if mc != exp[0] or (mc == "ok" and mv != exp[1]):
                ctx.disagree(kind, self.replay_of(case, {"request": req[:3000]}), ans[:400], {"r": exp[0], "v": exp[1][:400]})
        self.phase_ufb(mutate_src)
        self.phase_alias()
        self.phase_reflect()

    def judge_ops(self, case, r, ans, later, mutate_src):
        ctx, sch = self.ctx, self.sch
        c = sch.classes[case["c"]]
        ctx.case(("ops", case["c"], tuple(case["a"]), tuple(map(tuple, case["ops"]))), bool(case["ops"]) or any(a is not None for a in case["a"]))
        nargs = sum(1 for a in case["a"] if a is not None)
        ctx.count(("union" if c["union"] else "struct") + f"-ctor:{min(nargs, 2)}-args:" + r["r"])
        segs = ans.split(" ; ") if ans is not None else None
        if segs is not None:
            mc, mv = model_outcome(segs[0])
            if mc == "unmodelled":
                ctx.count("unmodelled")
                segs = None
            else:
                ctx.traces += 1
                if mc != r["r"] or (mc == "ok" and mv != r["v"]):
                    ctx.disagree("ctor", self.replay_of(case), segs[0][:400], {"r": r["r"], "v": r["v"][:400], "m": r["m"]})
                    segs = None
        if c["union"] and nargs >= 2 and r["r"] == "ok":
            ctx.fail({"kind": "union-ctor-two-args"}, "a union constructed with two options does not raise", self.replay_of(case, {"observed": r["v"][:300]}))
        if r["r"] != "ok":
            return
        for i, sl in enumerate(slots_of(parse(r["v"]))):
            bad = None if sl[0] == "N" and c["union"] else check_stored(c["fields"][i]["ty"], sl)
            if bad is not None:
                key = {"kind": "array-element-range-unchecked", "elem": "int", "src": "stored"} if bad == "elem-range" else {"kind": "stored-ill-typed", "what": bad, "by": "constructor"}
                ctx.fail(key, f"the constructor returned an object whose field {c['fields'][i]['name']} holds an ill-typed value ({bad}): {unparse(sl)[:80]}",
                         self.replay_of(case, {"observed": r["v"][:400]}))
        if c["union"]:
            self.judge_union_state(case, r["v"], None, "constructor")
            if nargs == 0 and [i for i, s in enumerate(slots_of(parse(r["v"]))) if s[0] != "N"] != [0]:
                ctx.fail({"kind": "union-default-option"}, "C() does not select the first option", self.replay_of(case, {"observed": r["v"][:300]}))
        state = r["v"]
        for j, st in enumerate(r["steps"]):
            i, x = case["ops"][j]
            fty = c["fields"][i]["ty"]
            ctx.count("op:" + st["r"])
            if segs is not None:
                mc, mv = model_outcome(segs[j + 1])
                if mc == "unmodelled":
                    ctx.count("unmodelled")
                    segs = None
                else:
                    ctx.traces += 1
                    if mc != st["r"] or mv != st["v"]:
                        ctx.disagree("ops", self.replay_of(case, {"step": j}), segs[j + 1][:400], {"r": st["r"], "v": st["v"][:400], "m": st["m"]})
                        segs = None
            if st["r"] != "ok" and st["v"] != state:
                ctx.fail({"kind": "failed-assignment-changes-object"}, "an assignment that raises changes the object", self.replay_of(case, {"step": j, "before": state[:300], "after": st["v"][:300]}))
            why = expect_reject(fty, parse(x))
            if why is not None and st["r"] != "value":
                self.fail_reject(case, fty, why, {"r": st["r"], "m": st["m"], "v": st["v"]}, {"step": j})
            if c["union"]:
                self.judge_union_state(case, st["v"], st["reads"], "assignment" if st["r"] == "ok" else "failed-assignment")
                if st["r"] == "ok" and [q for q, s in enumerate(slots_of(parse(st["v"]))) if s[0] != "N"] != [i]:
                    ctx.fail({"kind": "union-not-one-option", "after": "assignment"}, "the assigned option is not the selected one", self.replay_of(case, {"step": j}))
            state = st["v"]
        if "rt" in r:
            later += self.judge_rt(case, state, r["rt"], "ops-rt")
            if r["rt"].get("tb"):
                mutate_src.append((case["c"], r["rt"]["tb"]))

    def judge_model(self, case, r, ans=None):
        ctx, sch = self.ctx, self.sch
        c = sch.classes[case["c"]]
        m = sch.models[case["c"]]
        ctx.case(("model", c["full"]), True)
        ctx.count("model-compared")
        self.real_models[case["c"]] = r["model"]
        if any(x != y for x, y in zip(c["ns"], c["pkg"])):
            ctx.count("class-in-stropped-namespace")
        if ans is not None:
            # tie of get_class's module walk: model over the generated package tree vs the tree itself and the class's module
            ctx.traces += 1
            if ans != ".".join(c["pkg"]) or (c["kind"] != "service" and r.get("module") != c["mod"]):
                ctx.disagree("import", self.replay_of(case, {"packages": sch.packages}), ans, {"tree": ".".join(c["pkg"]), "module": r.get("module")})
        exp = describe_model(m)
        problems = []
        if r["model"] != exp:
            diff = [k for k in exp if r["model"].get(k) != exp[k]]
            problems.append({"what": "_MODEL_ differs from the PyDSDL model of the source", "keys": diff,
                             "embedded": {k: r["model"].get(k) for k in diff}, "source": {k: exp[k] for k in diff}})
        if not r["get_model_is"]:
            problems.append({"what": "get_model(cls) is not cls._MODEL_"})
        fpid = sch.models[c["parent"]].fixed_port_id if "parent" in c else m.fixed_port_id
        if r["fixed_port_id"] != fpid:
            problems.append({"what": "fixed port id", "embedded": r["fixed_port_id"], "source": fpid})
        if c["kind"] != "service":
            if r["extent_bytes"] * 8 != m.extent:
                problems.append({"what": "_EXTENT_BYTES_", "embedded": r["extent_bytes"], "source_bits": m.extent})
            if r.get("pkg_attr_is") is False:
                ctx.fail({"kind": "alias-shadows-class"}, f"the attribute {c['path'][0]} of package {'.'.join(c['pkg'])} is not the class generated for {c['full']}",
                         self.replay_of(case, {}))
            if r["get_class"] is not True:
                ctx.fail({"kind": "get-class"}, f"get_class(get_model({c['full']})) is not the class: {r['get_class']}",
                         self.replay_of(case, {"observed": r["get_class"]}))
            if not r["get_model_instance_is"] or not r["is_serializable"]:
                problems.append({"what": "get_model(instance) / is_serializable"})
            for k in m.constants:
                v = k.value.native_value
                if isinstance(v, bool):
                    e = tb(v)
                elif k.data_type.__class__.__name__ == "FloatType":
                    e = tf(v.numerator / v.denominator)
                else:
                    e = ti(int(v))
                if r["constants"].get(k.name) != e:
                    problems.append({"what": "constant " + k.name, "embedded": r["constants"].get(k.name), "source": e})
        else:
            if not r["is_service"]:
                problems.append({"what": "is_service_type"})
            if r["get_class"] is not True:
                ctx.fail({"kind": "get-class"}, f"get_class(get_model({c['full']})) is not the class: {r['get_class']}",
                         self.replay_of(case, {"observed": r["get_class"]}))
        if problems:
            ctx.fail({"kind": "model-mismatch"}, problems[0]["what"], self.replay_of(case, {"problems": problems}))

    # ---- package-level aliases Name_M ---------------------------------------------------------------------------
    def phase_alias(self):
        ctx, sch = self.ctx, self.sch
        groups = {}
        for c in sch.classes:
            if "parent" in c:
                continue
            m = sch.models[c["id"]]
            groups.setdefault(tuple(c["pkg"]), []).append((m.short_name, int(m.version.major), int(m.version.minor), bool(m.deprecated)))
        cases, expect = [], []
        for pkg, tys in sorted(groups.items()):
            exp = {}
            for n, ma, mi, dep in tys:
                exp[f"{n}_{ma}"] = max(exp.get(f"{n}_{ma}", -1), mi)   # the property: the NEWEST (integer) minor, deprecated or not
                if dep:
                    ctx.count("alias-deprecated-definitions")
            cases.append({"k": "alias", "mod": ".".join(pkg), "aliases": sorted(exp)})
            expect.append((tys, exp))
        results, _ = self.ns.run_worker(ctx, self.npdir, cases, "alias")
        lines = ["aliases %d %s" % (len(tys), " ".join(f"{n} {ma} {mi} {int(dep)}" for n, ma, mi, dep in tys)) for tys, _ in expect]
        for case, (tys, exp), r, ans in zip(cases, expect, results, self.ask(lines)):
            if "harness_error" in r:
                raise RuntimeError(f"worker error on {case}: {r['harness_error']}\n{r.get('tb')}")
            ctx.case(("alias", case["mod"], tuple(sorted(tys))), len(tys) > len(exp))
            ctx.count("alias-packages")
            names = {f"{n}_{ma}_{mi}" for n, ma, mi, _ in tys}      # the classes of the package
            got = {a: v["cls"] for a, v in r["aliases"].items() if v and v["cls"] != a}   # a name bound to a class called otherwise
            for a, v in sorted(r["aliases"].items()):
                self.alias_seen.append((case["mod"], a, v["model"] if v else None))
            if ans is not None:
                ctx.traces += 1
                toks = [] if ans == "-" else ans.split()
                model = {toks[i]: toks[i + 1] for i in range(0, len(toks), 2)}
                if model != got:
                    ctx.disagree("aliases", {"namespace": self.ns.label, "files": self.ns.texts, "case": case}, model, got)
            for a, mi in sorted(exp.items()):
                v = r["aliases"].get(a)
                ctx.count("aliases-checked")
                if a in names:
                    # Name_M is spelled like the class of another definition (Foo_1.2.x next to Foo.1.2): the class keeps its name
                    ctx.count("alias-name-is-a-class-name")
                    if v is None or v["cls"] != a:
                        ctx.fail({"kind": "alias-shadows-class"}, f"{case['mod']}.{a} is not the class {a} (generated from another definition) but {v and v['cls']}",
                                 {"namespace": self.ns.label, "files": self.ns.texts, "case": case, "observed": r["aliases"]})
                    continue
                if v is None or v["minor"] != mi or not v["same_as_versioned"] or f"{v['cls']}" != f"{a}_{mi}":
                    ctx.fail({"kind": "alias-not-newest-minor"},
                             f"package alias {case['mod']}.{a} does not refer to the newest minor version {a}_{mi}: {v}",
                             {"namespace": self.ns.label, "files": self.ns.texts, "case": case, "expected": exp, "observed": r["aliases"]})

    # ---- reflection: which model is behind get_model(C); alias-built instances; service classes ------------------
    def gen_pkg(self, m):
        """Namespace components of a composite as generated (reserved names carry a trailing underscore)."""
        d, comps = pathlib.Path(self.ns.out), []
        for comp in m.name_components[:-1]:
            pick = comp if (d / comp).is_dir() or not (d / (comp + "_")).is_dir() else comp + "_"
            comps.append(pick)
            d = d / pick
        return comps

    def phase_reflect(self):
        """Tie of Model/PyReflect.lean: every generation run of the history (or the single run) goes to the model as
        (package, name, version, opaque model word [, request, response]); the model says which word is behind
        get_model of every class, of every package alias and of modules that are no longer part of the last run;
        the real side is get_model() of the imported classes, described and digested the same way."""
        ctx, sch, pydsdl = self.ctx, self.sch, self.sch.pydsdl
        runs = list(self.ns.revision_models) + [self.ns.composites]
        words, keys = [], []
        for comps in runs:
            row, ks = [], set()
            for m in sorted(comps, key=lambda m: (m.full_name, m.version)):
                svc = isinstance(m, pydsdl.ServiceType)
                row.append(" ".join([".".join(self.gen_pkg(m)), m.short_name, str(m.version.major), str(m.version.minor), digest(describe_model(m)),
                                     digest(describe_model(m.request_type)) if svc else "-", digest(describe_model(m.response_type)) if svc else "-"]))
                ks.add((tuple(self.gen_pkg(m)), m.short_name, m.version.major, m.version.minor, svc))
            words.append(f"{len(row)} " + " ".join(row))
            keys.append(ks)
        queries, expect, what = [], [], []
        for c in sch.classes:
            queries.append(f"cls {c['mod']} {'.'.join(c['path'])}")
            expect.append(digest(self.real_models[c["id"]]) if c["id"] in self.real_models else "none")
            what.append(c["full"])
        for mod, a, desc in self.alias_seen:
            queries.append(f"via {mod} {a}")
            expect.append(digest(desc) if desc is not None else "none")
            what.append(f"{mod}.{a}")
        stale = sorted(set().union(*keys[:-1]) - keys[-1]) if len(keys) > 1 else []
        cases = []
        for pkg, name, ma, mi, svc in stale:
            cases.append({"k": "stale", "mod": ".".join(pkg + (f"{name}_{ma}_{mi}",)), "path": [f"{name}_{ma}_{mi}"]})
        for c in sch.classes:
            if c["kind"] == "service":
                cases.append({"k": "svc", "c": c["id"]})
        for c in sch.data_classes():
            for fi, f in enumerate(c["fields"]):
                if f["ty"]["k"] == "C" and "parent" not in sch.classes[f["ty"]["c"]]:
                    d, dm = sch.classes[f["ty"]["c"]], sch.models[f["ty"]["c"]]
                    cases.append({"k": "setalias", "c": c["id"], "f": fi, "mod": ".".join(d["pkg"]), "alias": f"{dm.short_name}_{dm.version.major}"})
        results = self.ns.run_worker(ctx, self.npdir, cases, "p3")[0] if cases else []
        table = [c for c in sch.data_classes() if "parent" not in c]
        tkeys = " ".join(f"{'.'.join(c['pkg'])} {sch.models[c['id']].short_name} {sch.models[c['id']].version.major} {sch.models[c['id']].version.minor}" for c in table)
        lines = []
        for case, r in zip(cases, results):
            if "harness_error" in r:
                raise RuntimeError(f"worker error on {case}: {r['harness_error']}\n{r.get('tb')}")
            if case["k"] == "stale":
                queries.append(f"cls {case['mod']} {'.'.join(case['path'])}")
                expect.append(digest(r["model"]) if r["r"] == "ok" else "none")
                what.append("stale " + case["mod"])
                ctx.count("stale-modules-of-earlier-revisions")
                lines.append(None)
            elif case["k"] == "svc":
                ct = f"C {case['c']} 0 0"
                lines.append([f"tbtop 1 {ct} o {case['c']} 0", f"ufbtop 1 {ct} D d 0 0"])
            else:
                dcl = sch.classes[case["c"]]["fields"][case["f"]]["ty"]["c"]
                dm = sch.models[dcl]
                idx = [c["id"] for c in table].index(dcl)
                lines.append([f"aliasset {len(table)} {tkeys} {idx} {case['mod']} {dm.short_name} {dm.version.major}"])
        flat = [l for ls in lines if ls for l in ls]
        answers = iter(self.ask(flat))
        for case, r, ls in zip(cases, results, lines):
            if not ls:
                continue
            ans = [next(answers) for _ in ls]
            if case["k"] == "svc":
                ctx.case(("svc-builtin", sch.classes[case["c"]]["full"]), True)
                ctx.count("service-class-builtin-form")
                if ans[0] is not None:
                    ctx.traces += 2
                    got = ["err " + r["tb"], "err " + r["ufb"]]
                    if ans != got:
                        ctx.disagree("service-builtin", self.replay_of(case), ans, {"to_builtin": r["tb_m"], "update_from_builtin": r["ufb_m"]})
            else:
                c = sch.classes[case["c"]]
                fty = c["fields"][case["f"]]["ty"]
                ctx.case(("setalias", c["full"], case["f"], case["alias"]), True)
                ctx.count("alias-instance-assigned:" + r["r"])
                if ans[0] is not None:
                    ctx.traces += 1
                    if ans[0] != ("ok" if r["r"] == "ok" else "err " + r["r"]):
                        ctx.disagree("aliasset", self.replay_of(case), ans[0], {"r": r["r"], "m": r["m"], "alias_class": r["alias_cls"]})
                if r["r"] == "ok" and (r["alias_cls"] != fty["c"] or check_stored(fty, parse(r["v"])) is not None):
                    ctx.fail({"kind": "stored-ill-typed", "what": "class", "by": "alias-instance"},
                             f"an instance of {case['mod']}.{case['alias']} (a different class) is stored in a field declared as {sch.classes[fty['c']]['full']}",
                             self.replay_of(case, {"observed": r}))
                if r["r"] != "ok" and r["alias_cls"] == fty["c"]:
                    ctx.fail({"kind": "alias-instance-rejected"}, f"an instance of the declared class made through its alias is rejected: {r['m']}",
                             self.replay_of(case, {"observed": r}))
        if self.drv is not None:
            req = f"regen {len(runs)} " + " ".join(words) + f" {len(queries)} " + " ".join(queries)
            ans = self.ask([req])[0].split()
            ctx.count("reflection-runs", len(runs))
            if len(ans) != len(expect):
                ctx.disagree("regen", {"namespace": self.ns.label, "files": self.ns.texts, "history": self.ns.history, "request": req[:2000]}, ans[:20], "answer count")
                return
            for q, a, e, w in zip(queries, ans, expect, what):
                ctx.traces += 1
                ctx.count("reflection-queries")
                if a != e:
                    ctx.disagree("regen", {"namespace": self.ns.label, "files": self.ns.texts, "history": self.ns.history, "query": q, "class": w},
                                 a, {"get_model_digest": e})

    # ---- update_from_builtin with arbitrary dict sources -------------------------------------------------------
    def bad_value(self, ty):
        """A source value update_from_builtin has to refuse or convert: None, wrong types, out of range, wrong length,
        byte arrays as bytes / bytearray / str / list, non-iterables and strings for arrays of composites, positional forms."""
        rng, k = self.ctx.rng, ty["k"]
        if k == "I":
            return rng.choice(["N", ts(b"x"), ts(b"7"), ti(ty["hi"] + 1), ti(ty["lo"] - 1), tf(1.5), tl([]), "nan", "inf 0", tb(True)])
        if k == "F":
            return rng.choice(["N", ts(b"x"), ts(b"12"), ti(10 ** 400), ti(3), tb(False), tl([])] + ([tf(1e300), ti(ty["max"] + 1)] if ty["w"] < 64 else []))
        if k == "B":
            return rng.choice(["N", ti(2), ti(0), ts(b""), ts(b"x"), tf(0.0), tl([])])
        if k == "C":
            nf = len(self.sch.classes[ty["c"]]["fields"])
            return rng.choice(["N", ti(5), tl([]), tl([ti(1)] * (nf + 1)), tl([ti(0)] * max(nf, 1)), ts(b"ab"), tf(0.5), tb(True)])
        e, cap = ty["e"], ty["cap"]
        n_ok = cap if ty["fx"] else min(cap, rng.randint(0, 3))
        n_bad = cap + 1 if cap < 64 else 0
        if e["k"] == "C":
            return rng.choice(["N", ti(3), tf(1.0), tb(True), ts(b"ab"[:max(1, min(2, cap))]), ts(b""), tyb(False, b"\x01\x02"[:max(1, min(2, cap))]),
                               tl([self.builtin_of(e) for _ in range(n_bad)]), tl(["N"] * n_ok), tl([ti(1)] * n_ok)])
        el = lambda: self.gen.cand_py_elem(e)  # noqa
        opts = ["N", ti(1), tl([el() for _ in range(n_bad)]), tl([el() for _ in range(n_ok)]), tl((["N"] + [el() for _ in range(n_ok)])[:max(n_ok, 1)])]
        if e["k"] == "I":
            opts += [tl([ti(e["hi"] + 1)] + [el() for _ in range(max(n_ok - 1, 0))]), tl([ti(2 ** 70)] + [el() for _ in range(max(n_ok - 1, 0))])]
            if not e["s"] and e["w"] <= 8:
                raw = bytes(rng.choice(PRINTABLE) for _ in range(n_ok))
                opts += [tyb(False, raw), tyb(True, raw), tyb(False, raw + b"0" * (cap + 1 - len(raw))), ts(raw), ts(raw + b"z" * (cap + 1 - len(raw))),
                         tl([ti(b) for b in raw])]
        return rng.choice(opts)

    def positionalize(self, ty, t, top=True):
        """The positional spelling of a builtin tree (lists / a bare scalar instead of dicts) when it has one: every present
        key is a prefix of the fields (a union: its first option), recursively; None otherwise."""
        rng = self.ctx.rng
        if t[0] == "d":
            if ty["k"] != "C" or t[1]:
                return None
            c = self.sch.classes[ty["c"]]
            present = [i for i, v in enumerate(t[2]) if v[0] != "M"]
            if present != list(range(len(present))) or (c["union"] and present != [0]):
                return None
            items = [self.positionalize(c["fields"][i]["ty"], t[2][i], False) for i in present]
            if any(x is None for x in items):
                return None
            if len(items) == 1 and items[0].split()[0] not in ("l", "d") and rng.random() < 0.5:
                return items[0]       # a bare value stands for a 1-tuple
            return tl(items)
        if t[0] == "l" and ty["k"] == "A":
            items = [self.positionalize(ty["e"], x, False) for x in t[1]]
            return None if any(x is None for x in items) else tl(items)
        return unparse(t)

    def mutate(self, ty, t, depth=0):
        """Random edit of a builtin tree: drop keys, add an unknown key, select a second union option, replace values by
        ones update_from_builtin must refuse or convert."""
        rng = self.ctx.rng
        if depth and rng.random() < 0.1:
            return self.bad_value(ty)
        if t[0] == "d" and ty["k"] == "C":
            c = self.sch.classes[ty["c"]]
            vals = list(t[2])
            out = []
            for f, v in zip(c["fields"], vals):
                if v[0] == "M":
                    if rng.random() < 0.25:
                        out.append(self.builtin_of(f["ty"]))
                    else:
                        out.append("M")
                elif rng.random() < 0.25:
                    out.append("M")
                else:
                    out.append(self.mutate(f["ty"], v, depth + 1))
            return td(rng.random() < 0.08, out)
        if t[0] == "l" and ty["k"] == "A":
            return tl([self.mutate(ty["e"], x, depth + 1) for x in t[1]])
        return unparse(t)

    def builtin_of(self, ty):
        """A builtin source value for a field (a plain accepted candidate; dicts for composites)."""
        k = ty["k"]
        if k == "C":
            c = self.sch.classes[ty["c"]]
            if c["union"]:
                j = self.ctx.rng.randrange(len(c["fields"]))
                return td(False, [self.builtin_of(f["ty"]) if i == j else "M" for i, f in enumerate(c["fields"])])
            return td(False, [self.builtin_of(f["ty"]) if self.ctx.rng.random() < 0.7 else "M" for f in c["fields"]])
        if k == "A" and ty["e"]["k"] == "C":
            n = ty["cap"] if ty["fx"] else min(ty["cap"], self.ctx.rng.randint(0, 2))
            return tl([self.builtin_of(ty["e"]) for _ in range(n)])
        if k == "A":
            n = ty["cap"] if ty["fx"] else min(ty["cap"], self.ctx.rng.randint(0, 3))
            return tl([self.gen.cand_py_elem(ty["e"]) for _ in range(n)])
        return self.gen.cand_py_elem(ty)

    def phase_ufb(self, mutate_src):
        ctx, sch, rng = self.ctx, self.sch, self.ctx.rng
        if not mutate_src:
            return
        n = min(len(mutate_src), 120 if ctx.quick else 600)
        cases = []
        for cid, tbt in rng.sample(mutate_src, n):
            ty = {"k": "C", "c": cid}
            src = self.mutate(ty, parse(tbt))
            dest = None if rng.random() < 0.4 else self.gen.stored(ty)
            case = {"k": "ufb", "c": cid, "d": dest, "s": src}
            if rng.random() < 0.35:
                pos = self.positionalize(ty, parse(src))
                if pos is not None:
                    case["s"] = pos
                    ctx.count("ufb-positional-source")
                    if pos.startswith("l ") and rng.random() < 0.4:
                        case["fl"] = "tuple"
            cases.append(case)
        results, _ = self.ns.run_worker(ctx, self.npdir, cases, "p2")
        lines = [f"ufb {sch.ctokens(c['c'])} {c['d'] if c['d'] is not None else 'D'} {c['s']}" for c in cases]
        for case, r, ans in zip(cases, results, self.ask(lines)):
            if "harness_error" in r:
                raise RuntimeError(f"worker error on {case}: {r['harness_error']}\n{r.get('tb')}")
            ctx.case(("ufb", case["c"], case["d"], case["s"], case.get("fl")), True)
            ctx.count("ufb-mutated:" + r["r"])
            if ans is None:
                continue
            mc, mv = model_outcome(ans)
            if mc == "unmodelled":
                ctx.count("unmodelled")
                ctx.count("ufb-mutated-unmodelled")
                continue
            ctx.traces += 1
            if mc != r["r"] or (mc == "ok" and mv != r["v"]):
                ctx.disagree("ufb-mutated", self.replay_of(case), ans[:400], {"r": r["r"], "v": r["v"][:400], "m": r["m"]})
            if r["r"] == "ok" and sch.classes[case["c"]]["union"]:
                self.judge_union_state(case, r["v"], None, "update_from_builtin")
            if r.get("src_kept") is False:
                ctx.fail({"kind": "builtin-roundtrip", "case": "source-modified"},
                         "update_from_builtin modified the source it was given (deep comparison before/after)", self.replay_of(case, {"observed": r}))


def unparse(t):
    k = t[0]
    if k in ("N", "M", "nan"):
        return k
    if k == "b":
        return tb(t[1])
    if k == "i":
        return ti(t[1])
    if k == "f":
        return f"f {int(t[1])} {t[2]} {t[3]}"
    if k == "inf":
        return f"inf {int(t[1])}"
    if k == "s":
        return ts(t[1])
    if k == "y":
        return tyb(t[1], t[2])
    if k == "l":
        return tl([unparse(x) for x in t[1]])
    if k == "a":
        return ta(t[1], [unparse(x) for x in t[2]])
    if k == "o":
        return to(t[1], [unparse(x) for x in t[2]])
    return td(t[1], [unparse(x) for x in t[2]])


def snan_probe(chk):
    """Statement 4 on objects whose float arrays hold signalling NaNs (not expressible in the token syntax)."""
    ctx, sch = chk.ctx, chk.sch
    cases = []
    for c in sch.data_classes():
        if c["union"]:
            continue
        for fi, f in enumerate(c["fields"]):
            t = f["ty"]
            if t["k"] == "A" and t["e"]["k"] == "F" and t["e"]["w"] in (16, 32) and t["cap"] <= 64:
                cases.append({"k": "snan", "c": c["id"], "f": fi, "w": t["e"]["w"], "n": t["cap"] if t["fx"] else 1})
    cases = cases[:6]
    if not cases:
        return
    results, _ = chk.ns.run_worker(ctx, chk.npdir, cases, "snan")
    for case, r in zip(cases, results):
        if "harness_error" in r:
            raise RuntimeError(f"worker error on {case}: {r['harness_error']}\n{r.get('tb')}")
        rt = r["rt"]
        ctx.case(("snan", case["c"], case["f"]), True)
        ctx.count(f"snan-float{case['w']}-array")
        if rt.get("ser_rt") != rt["ser_o"]:
            ctx.fail({"kind": "builtin-roundtrip", "case": f"signalling-nan-float{case['w']}-array"},
                     "a signalling NaN in a float array comes back from to_builtin/update_from_builtin as a quiet NaN (different bytes)",
                     chk.replay_of(case, {"serialized": rt["ser_o"], "after_roundtrip": rt.get("ser_rt"), "ufb": rt.get("ufb_m")}))


def pickle_filter_tie(ctx, drv, ns, limit):
    """filter_pickle of the tree under check, executed in this process on the PyDSDL models of a namespace: the emitted
    text must be adjacent string literals that the model's `segments 100` predicts from their concatenation, and
    pickle.loads(gzip.decompress(b85decode(.))) of the concatenation must describe the same model (the codec law)."""
    import ast
    import base64
    import gzip
    import pickle
    from nunavut.lang.py import filter_pickle
    models = []
    for m in ns.composites:
        models += [m.request_type, m.response_type, m] if hasattr(m, "request_type") else [m]
    for m in models[:limit]:
        text = filter_pickle(m)
        ctx.case(("filter_pickle", str(m)), True)
        ctx.count("filter-pickle-blobs")
        try:
            lits = [ast.literal_eval(l) for l in text.split("\n")]
            whole = ast.literal_eval("(" + text + ")")
            back = pickle.loads(gzip.decompress(base64.b85decode(whole)))
            ok = isinstance(whole, str) and "".join(lits) == whole and describe_model(back) == describe_model(m)
        except Exception as e:  # noqa
            lits, whole, ok = [], "", False
            ctx.count("filter-pickle-error:" + type(e).__name__)
        if not ok:
            ctx.fail({"kind": "model-mismatch", "where": "filter_pickle"}, f"_restore_constant_(filter_pickle(m)) does not describe m for {m}",
                     {"namespace": ns.label, "files": ns.texts, "case": {"k": "pickle", "type": str(m)}, "text": text[:300]})
            continue
        if drv is not None and whole and " " not in whole:
            ans = drv.ask([f"segments 100 {whole}"], timeout=300)[0]
            ctx.traces += 1
            if ans.split() != lits:
                ctx.disagree("segments", {"namespace": ns.label, "type": str(m), "text": whole[:300]}, ans[:300], [x[:40] for x in lits][:6])


def run(ctx):
    # C18_* theorems of the Python refinement layer (decoded values pass the generated setters / fit their dtype)
    _refine = ["C01RefinePy"] if (common.LEAN / "NunavutVerif" / "Properties" / "C01RefinePy.lean").exists() else []
    drivers = ctx.prove(["C18"] + _refine, exes=["pyobj"], name_filter=(lambda n: n.startswith("C18_")) if _refine else None)
    drv = drivers.get("pyobj")
    ctx.rule = ("per generated class and field: the full boundary candidate list (corpus namespace) or a seeded sample of it (random namespaces): "
                "min, max, +-1, far out, floats/NaN/inf into int fields, ints beyond 2^1024 into float fields, None, str, bytes, lists, ndarrays of the "
                "same and of other dtypes, every length 0,1,2,cap-1,cap,cap+1,2cap+1, wrong classes; constructor argument combinations and random "
                "assignment sequences; to_builtin/update_from_builtin on API-built and raw well-typed objects and on mutated dict sources; "
                "composite fields: instances of every other minor/major version of the declared type, of namesakes in other namespaces, of structurally "
                "identical types, of user subclasses, and instances made through the package alias Name_M, by setter and by constructor (corpus vers.json; "
                "random namespaces get extra minor/major versions of nested types); update_from_builtin sources also positional (list/tuple/bare scalar), "
                "None, wrong types, out of range, wrong length, byte arrays as bytes/bytearray/str/list, strings/bytes/scalars for arrays of composites; "
                "to_builtin on raw objects with None slots / zero or two union options; service classes; "
                "_MODEL_ of every class, also after a regeneration history into ONE output directory (corpus hist.json: nested type edited, minor versions "
                "added, a type deleted; every random namespace is first generated from an earlier revision with narrower nested types), each class's "
                "get_model digest compared with the reflection model (which model is behind which class / alias / stale module). non-trivial = everything except an argument-free constructor call without assignments; distinct by "
                "(field type, candidate) / (class, arguments, operations)")
    ctx.assumptions = ["NumPy's casting (numpy.array(x, dtype).flatten()) is an oracle parameter of the model constrained by two laws; the concrete oracle "
                       "(NumPy >= 2 semantics) is validated by this tie, float->int ndarray casts and nested sequences are outside it (unmodelled)",
                       "str/bytes candidates: int()/float() modelled for plain decimal literals and for text containing a character that occurs in no numeric literal",
                       "NaN payloads are abstracted in the model (checked separately by the signalling-NaN probe)",
                       "pickle/gzip/base85 of _MODEL_ is an abstract codec with dec(enc m) = m in the reflection model (validated structurally on every class)",
                       "update_from_builtin: the partial in-place mutation of the destination when it raises midway is not modelled (error => no result)"]
    npdir = prepare_numpy(ctx)
    from . import dsdlgen
    spaces = [(label, files, True) for label, files, _ in corpus_namespaces()]
    corpus_cases = {label: cs for label, _, cs in corpus_namespaces()}
    n_random, n_types = (2, 24) if ctx.quick else (14, 30)
    for i in range(n_random):
        g = dsdlgen.generate(ctx.rng, ctx.scratch / f"gen{i}", n_types=n_types, root_name=f"vns{i}")
        base = dict(g.texts)
        first = narrowed_prior(ctx.rng, ctx.scratch, f"p{i}", base)
        final = add_versions(ctx.rng, ctx.scratch, f"v{i}", base)
        HISTORY[f"rand{i}"] = [first] if first is not None else None
        spaces.append((f"rand{i}", final, False))
        ctx.count("random-types", len(g.types))
        ctx.count("random-namespace-extra-versions", len(final) - len(base))
        ctx.count("random-namespace-with-history", int(first is not None))
    ctx.extra["namespaces"] = []
    for label, files, full in spaces:
        ns = NS(ctx, label, files, PRIOR.get(label), HISTORY.get(label))
        if PRIOR.get(label):
            ctx.count("second-generation-in-one-process-classes", len(ns.schema.classes))
        if HISTORY.get(label):
            ctx.count("regenerated-into-same-directory-classes", len(ns.schema.classes))
        chk = NSCheck(ctx, drv, ns, npdir, full, n_ops=(4 if ctx.quick else 12), n_rt=(3 if ctx.quick else 10), ops_len=(5 if ctx.quick else 9))
        chk.corpus_cases = corpus_cases.get(label, [])
        chk.run()
        if not ns.gen_error and not getattr(chk, "dead", False):
            snan_probe(chk)
        ctx.extra["namespaces"].append({"label": label, "classes": len(ns.schema.classes), "files": len(files), "full_candidate_lists": full})
        if label in ("base", "regen", "rand0"):
            pickle_filter_tie(ctx, drv, ns, 12 if ctx.quick else 60)
        if label == "base":
            c = ns.schema.classes[ns.schema.ids[("c18.U", 1, 0)]]
            ctx.sample({"class": c["full"], "type": ns.schema.ctokens(c["id"])})
    ctx.exhaustive = False
    if os.environ.get("C18_DEBUG"):
        for d in ctx.disagreements[:int(os.environ["C18_DEBUG"])]:
            dd = dict(d)
            if isinstance(dd["input"], dict):
                dd["input"] = {k: v for k, v in dd["input"].items() if k != "files"}
            print("DISAGREE", json.dumps(dd, default=str)[:1500], file=sys.stderr)


def replay(ctx, path):
    """Re-run the recorded case on the generated classes of the tree under check; exit 1 if the failure reproduces."""
    r = json.loads(open(path).read())
    rp = r.get("replay", {})
    if "files" not in rp or "case" not in rp:
        print("nothing to replay (no failing input in the file)")
        return 1
    npdir = prepare_numpy(ctx)
    ns = NS(ctx, "replay", rp["files"], rp.get("prior"), rp.get("history"))
    if ns.gen_error:
        print("generation failed:", ns.gen_error)
        ctx.cleanup()
        return 1
    case = rp["case"]
    res, _ = ns.run_worker(ctx, npdir, [case], "replay")
    print(json.dumps(res[0])[:3000])
    chk = NSCheck(ctx, None, ns, npdir, False, 0, 0, 0)
    k = case["k"]
    if k == "set":
        chk.judge_set(case, res[0], None)
    elif k == "ops":
        chk.judge_ops(case, res[0], None, [], [])
    elif k == "rt":
        chk.judge_rt(case, case["o"], res[0]["rt"], "rt")
    elif k == "model":
        chk.judge_model(case, res[0])
    elif k == "alias":
        for a, mi in rp.get("expected", {}).items():
            v = res[0]["aliases"].get(a)
            if v is None or v["minor"] != mi:
                ctx.fail({"kind": "alias-not-newest-minor"}, f"{a} -> {v}", {})
    elif k == "snan":
        if res[0]["rt"].get("ser_rt") != res[0]["rt"]["ser_o"]:
            ctx.fail({"kind": "builtin-roundtrip"}, "bytes differ", {})
    elif k == "setalias":
        fty = ns.schema.classes[case["c"]]["fields"][case["f"]]["ty"]
        if res[0]["r"] == "ok" and res[0]["alias_cls"] != fty["c"]:
            ctx.fail({"kind": "stored-ill-typed", "what": "class", "by": "alias-instance"}, "an instance of another class is stored", {})
    elif k == "ufb":
        if ns.schema.classes[case["c"]]["union"] and res[0]["r"] == "ok":
            chk.judge_union_state(case, res[0]["v"], None, "update_from_builtin")
        if res[0].get("src_kept") is False:
            ctx.fail({"kind": "builtin-roundtrip", "case": "source-modified"}, "update_from_builtin modified its source", {})
    n = len(ctx.failures)
    for f in ctx.failures:
        print("FAILS:", f["key"], f["what"])
    ctx.cleanup()
    return 1 if n else 0
