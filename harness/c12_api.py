"""
C12, two more streams over whole generator runs (not single `_generate_code` calls):

* "links": real `nnvg` invocations into trees whose OUTPUT PATHS are occupied by symbolic links (to an existing file, dangling,
  the support header too), by a directory, or lie below a symbolically linked directory — histories --no-overwrite / overwrite /
  --no-overwrite.  Everything `generate_all` does before it reaches the per-file code is in the loop here.  Model: the extended
  file-system model (`fsx` request) with the writes of a reference run into an empty directory; compared per step: status class
  and every entry of the tree.  Property on the implementation: `c12_fsx.check_step` (a --no-overwrite run changes / removes
  nothing that existed — a link is an entry too; an overwriting run keeps links, reads through them as the fresh content).
* "api": histories of `nunavut.generate_types(...)` calls inside ONE interpreter into one output directory (differing
  omit_serialization_support / language options / allow_overwrite), the way a build script embeds Nunavut.  Model: the
  regular-files model (`hist` request) with the writes of a reference call made by a FRESH interpreter into an empty directory.
  Property on the implementation: after a successful overwriting call every file of the reference is there with the
  reference's content; an allow_overwrite=False call over existing outputs raises and changes nothing.
"""
import hashlib
import json
import os
import pathlib
import stat
import subprocess

from . import common
from . import c12_fsx

LINK_FILE_TEXT = "linked target, not generated\n"


def snap_tree(c12, root):
    out = {}
    for dp, dn, fn in os.walk(root, followlinks=False):
        for name in dn + fn:
            p = os.path.join(dp, name)
            rel = os.path.relpath(p, root)
            st = os.lstat(p)
            if stat.S_ISLNK(st.st_mode):
                out[rel] = ["L", os.path.relpath(os.readlink(p), root)]
            elif stat.S_ISDIR(st.st_mode):
                out[rel] = ["D", stat.S_IMODE(st.st_mode)]
            else:
                out[rel] = ["F", stat.S_IMODE(st.st_mode), c12.sha_norm(open(p, "rb").read())]
    return out


def _status(c12, rc, err):
    s = c12.classify_rc(rc, err)
    if s.startswith("other"):
        for exc, name in (("IsADirectoryError", "isdir"), ("NotADirectoryError", "notdir"), ("FileExistsError", "exists"), ("FileNotFoundError", "noent")):
            if exc in err:
                return name
    return s.split(":")[0] if s.startswith("other") else s


# ---------------------------------------------------------------------------------------------------------------
# links
# ---------------------------------------------------------------------------------------------------------------
def link_scenarios(order):
    """`order`: output paths of the reference run in generation order (support header first)."""
    support = [p for p in order if p.startswith("nunavut/")]
    types = [p for p in order if not p.startswith("nunavut/")]
    t0, t1 = types[0], types[-1]
    sub = os.path.dirname(t1)
    scs = [
        ("type-link-to-file", [("D", "ext", 0o755), ("F", "ext/real.h", 0o444), ("L", t0, "ext/real.h")]),
        ("type-link-dangling", [("D", "ext", 0o755), ("L", t0, "ext/new.h")]),
        ("type-link-writable-target", [("D", "ext", 0o755), ("F", "ext/real.h", 0o644), ("L", t1, "ext/real.h")]),
        ("dir-at-type-path", [("D", t0, 0o755)]),
        ("linked-directory", [("D", "elsewhere", 0o755), ("L", sub, "elsewhere")] if sub and sub != os.path.dirname(t0) else [("D", "elsewhere", 0o755)]),
    ]
    if support:
        scs.append(("support-link-to-file", [("D", "ext", 0o755), ("F", "ext/sup.h", 0o400), ("L", support[0], "ext/sup.h")]))
    return scs


def run_links(ctx, drv, c12, cli, pool):
    umask = 0o022
    cfgs = [{"lang": "c", "file_mode": None, "no_overwrite": False, "omit": False, "support": None, "trim": False, "maxempty": None, "prog": None},
            {"lang": "py", "file_mode": "0o640", "no_overwrite": False, "omit": False, "support": None, "trim": False, "maxempty": None, "prog": None}]
    if ctx.quick:
        cfgs = cfgs[:1]
    jobs = []
    for cfg in cfgs:
        ref = cli.reference(cfg, umask)
        if ref["status"] != "ok":
            ctx.disagree("links:reference", {"cfg": cfg}, "ok", ref["status"] + " " + ref["stderr"][-200:])
            continue
        for name, init in link_scenarios(ref["order"]):
            jobs.append((cfg, ref, name, init))

    def work(job):
        cfg, ref, name, init = job
        wd = cli._fresh("lnk")
        out = wd / "out"
        out.mkdir()
        full = []
        for ent in sorted(init, key=lambda e: (e[1].count("/"), e[1])):
            p = out / ent[1]
            for pre in c12_fsx._prefixes(os.path.dirname(ent[1])) if os.path.dirname(ent[1]) else []:
                if not (out / pre).exists() and not (out / pre).is_symlink():
                    (out / pre).mkdir()
                    os.chmod(out / pre, 0o755)
                    full.append(["D", pre, 0o755])
            if ent[0] == "F":
                p.write_text(LINK_FILE_TEXT)
                os.chmod(p, ent[2])
                full.append(["F", ent[1], ent[2], LINK_FILE_TEXT])
            elif ent[0] == "D":
                p.mkdir()
                os.chmod(p, ent[2])
                full.append(["D", ent[1], ent[2]])
            else:
                os.symlink(str(out / ent[2]), str(p))
                full.append(["L", ent[1], ent[2]])
        steps = []
        for i, no in enumerate((True, False, True)):
            c = dict(cfg, no_overwrite=no)
            env = c12.sub_env()
            p = subprocess.run(["/bin/sh", "-c", f"umask {umask:03o}; exec \"$@\"", "sh"] + [str(a) for a in c12.nnvg_args(c, out, cli.ns, cli.prog)],
                               cwd=wd, env=env, capture_output=True, text=True, timeout=c12.RUN_TIMEOUT)
            steps.append({"allow": not no, "status": _status(c12, p.returncode, p.stderr), "snap": snap_tree(c12, out), "stderr": p.stderr[-300:]})
        for dp, dn, fn in os.walk(wd):
            for d in dn:
                q = os.path.join(dp, d)
                if not os.path.islink(q):
                    os.chmod(q, 0o755)
        return full, steps

    results = list(pool.map(work, jobs))
    reqs, metas = [], []
    for (cfg, ref, name, init), (full, steps) in zip(jobs, results):
        ids = {"init": c12.sha_norm(LINK_FILE_TEXT.encode())}
        nodes = []
        for e in full:
            nodes.append(f"F:{e[1]}=init={e[2]}" if e[0] == "F" else (f"D:{e[1]}={e[2]}" if e[0] == "D" else f"L:{e[1]}={e[2]}"))
        writes = []
        for k, pth in enumerate(ref["order"]):
            ids[f"w{k}"] = ref["files"][pth][1]
            writes.append(f"{pth}=w{k}=R")
        mode = c12.file_mode_int(cfg)
        runs = [f"{1 if st['allow'] else 0}:M{mode}:{','.join(writes)}" for st in steps]
        probe = set(e[1] for e in full)
        links = {e[1]: e[2] for e in full if e[0] == "L"}
        for pth in ref["order"]:
            for pre in c12_fsx._prefixes(pth):
                probe.add(pre)
                if pre in links:
                    rest = pth[len(pre):].strip("/")
                    probe.add(links[pre])
                    for sub in (c12_fsx._prefixes(rest) if rest else []):
                        probe.add(links[pre] + "/" + sub)
        for st in steps:
            probe |= set(st["snap"])
        probe = sorted(probe)
        reqs.append(f"fsx 1,{0o666 & ~umask},{0o777 & ~umask} {'|'.join(nodes) or '-'} {';'.join(runs)} {','.join(probe)}")
        metas.append((ids, probe, writes))
    answers = drv.ask(reqs, timeout=600) if (drv is not None and reqs) else [None] * len(reqs)
    for (cfg, ref, name, init), (full, steps), ans, (ids, probe, writes) in zip(jobs, results, answers, metas):
        rev = {v: k for k, v in ids.items()}
        slim = {"stream": "links", "scenario": name, "lang": cfg["lang"], "tree": [e[:3] for e in full]}
        ctx.case(("links", cfg["lang"], name), True)
        ctx.count("links_scenarios")
        before = {e[1]: (["F", e[2], ids["init"]] if e[0] == "F" else [e[0], e[2]]) for e in full}
        msteps = ans.split(";") if ans not in (None, "bad-op") else None
        for si, st in enumerate(steps):
            ctx.count("links_status=" + st["status"])
            if msteps is not None:
                ctx.traces += 1
                listing = "|".join(c12_fsx.show_entry(p, st["snap"][p], rev) for p in probe if p in st["snap"]) or "-"
                mstatus, _, mfs = msteps[si].split("#")
                want, got = (mstatus.split("@")[0], mfs), (st["status"], listing)
                if want != got:
                    a, b = set(want[1].split("|")), set(got[1].split("|"))
                    ctx.disagree("links-history", {"scenario": slim, "step": si, "allow": st["allow"]},
                                 {"status": want[0], "only_model": sorted(a - b)[:6]}, {"status": got[0], "only_impl": sorted(b - a)[:6], "stderr": st["stderr"][-160:]})
            run = {"allow": st["allow"], "pps": [["M", c12.file_mode_int(cfg)]],
                   "writes": [{"path": w.split("=")[0], "tag": w.split("=")[1], "kind": "R", "copy_mode": None} for w in writes]}
            real = {"status": st["status"] if st["status"] in ("ok", "conflict") else "err", "snap": st["snap"]}
            c12_fsx.check_step(ctx, slim, si, run, before, real, [], ids)
            before = st["snap"]


# ---------------------------------------------------------------------------------------------------------------
# api: generate_types several times in one interpreter
# ---------------------------------------------------------------------------------------------------------------
API_SCRIPT = r'''
import json, os, sys, hashlib, stat, re
spec = json.load(open(sys.argv[1]))
import nunavut
res = []
for call in spec["calls"]:
    status = "ok"
    try:
        nunavut.generate_types(call["lang"], spec["ns"], call["out"], omit_serialization_support=call["omit"],
                               allow_overwrite=call["allow"], language_options=call.get("options") or None,
                               include_experimental_languages=True)
    except PermissionError as e:
        status = "eacces" if e.errno == 13 else "conflict"
    except Exception as e:
        status = "other:" + type(e).__name__ + ":" + str(e)[:120]
    snap = {}
    for dp, dn, fn in os.walk(call["out"]):
        for f in fn:
            p = os.path.join(dp, f)
            snap[os.path.relpath(p, call["out"])] = [stat.S_IMODE(os.lstat(p).st_mode), open(p, "rb").read().hex()]
    res.append({"status": status, "snap": snap})
json.dump(res, open(sys.argv[2], "w"))
'''

API_VARIANTS = [
    {"lang": "c", "omit": False, "options": None},
    {"lang": "c", "omit": False, "options": {"target_endianness": "big"}},
    {"lang": "c", "omit": False, "options": {"enable_serialization_asserts": True}},
    {"lang": "c", "omit": True, "options": None},
    {"lang": "cpp", "omit": False, "options": None},
    {"lang": "cpp", "omit": False, "options": {"std": "c++17"}},
    {"lang": "py", "omit": False, "options": None},
]


def _run_script(c12, cli, wd, spec):
    (wd / "spec.json").write_text(json.dumps(spec))
    script = wd / "api_script.py"
    script.write_text(API_SCRIPT)
    p = subprocess.run([common.PY, str(script), str(wd / "spec.json"), str(wd / "result.json")], cwd=wd, env=c12.sub_env(),
                       capture_output=True, text=True, timeout=c12.RUN_TIMEOUT)
    if p.returncode != 0:
        raise RuntimeError("api script failed: " + p.stderr[-800:])
    res = json.loads((wd / "result.json").read_text())
    for st in res:
        st["snap"] = {k: (m, c12.sha_norm(bytes.fromhex(h))) for k, (m, h) in st["snap"].items()}
    return res


def gen_api_histories(rng, n):
    out = []
    for _ in range(n):
        lang = rng.choice(["c", "c", "cpp", "py"])
        vs = [v for v in API_VARIANTS if v["lang"] == lang]
        calls = []
        for _ in range(rng.randint(2, 4)):
            calls.append(dict(rng.choice(vs), allow=rng.random() < 0.7))
        calls[0]["allow"] = True if rng.random() < 0.8 else False
        out.append(calls)
    return out


def run_api(ctx, drv, c12, cli, pool, histories):
    refs = {}

    def reference(v):
        key = json.dumps(v, sort_keys=True)
        if key not in refs:
            wd = cli._fresh("apiref")
            res = _run_script(c12, cli, wd, {"ns": str(cli.ns / "tiny"), "calls": [dict(v, allow=True, out=str(wd / "out"))]})
            refs[key] = res[0]
        return refs[key]

    for v in API_VARIANTS:
        r = reference(v)
        if r["status"] != "ok":
            ctx.disagree("api:reference", v, "ok", r["status"])

    def work(calls):
        wd = cli._fresh("api")
        return _run_script(c12, cli, wd, {"ns": str(cli.ns / "tiny"), "calls": [dict(c, out=str(wd / "out")) for c in calls]})

    results = list(pool.map(work, histories))
    reqs = []
    for calls in histories:
        runs = []
        for c in calls:
            ref = reference({k: c[k] for k in ("lang", "omit", "options")})
            # generation order: support files first, then the types (both sorted: distinct paths, the order does not matter for the end state)
            order = sorted(ref["snap"], key=lambda p: (0 if ("support" in p or os.path.basename(p).startswith("nunavut_support")) else 1, p))
            runs.append(f"{1 if c['allow'] else 0}:-:{','.join(f'{p}={c12.cid(ref['snap'][p][1])}=R' for p in order)}")
        reqs.append(f"hist 1,{0o644} - {';'.join(runs)}")
    answers = drv.ask(reqs, timeout=600) if (drv is not None and reqs) else [None] * len(reqs)
    for calls, res, ans in zip(histories, results, answers):
        slim = {"stream": "api", "calls": calls}
        ctx.case(("api", json.dumps(calls, sort_keys=True)), True)
        ctx.count("api_histories")
        msteps = ans.split(";") if ans not in (None, "bad-op") else None
        before = {}
        for i, (c, st) in enumerate(zip(calls, res)):
            ref = reference({k: c[k] for k in ("lang", "omit", "options")})
            ctx.count("api_status=" + st["status"].split(":")[0])
            if msteps is not None:
                ctx.traces += 1
                mstatus, _, mfs = msteps[i].split("#")
                listing = "|".join(f"{p}={c12.cid(sha)}={m}" for p, (m, sha) in sorted(st["snap"].items())) or "-"
                if (mstatus.split("@")[0], mfs) != (st["status"].split(":")[0], listing):
                    a, b = set(mfs.split("|")), set(listing.split("|"))
                    ctx.disagree("api-history", {"history": slim, "step": i}, {"status": mstatus, "only_model": sorted(a - b)[:5]},
                                 {"status": st["status"], "only_impl": sorted(b - a)[:5]})
            # the property itself
            if c["allow"] and st["status"] == "ok":
                bad = sorted(p for p, (m, sha) in ref["snap"].items() if st["snap"].get(p, (None, None))[1] != sha)
                if bad:
                    ctx.fail({"kind": "api-overwrite-content"},
                             "after a successful generate_types call into a used directory a file differs from the same call into an empty directory",
                             {"history": slim, "step": i, "files": bad[:6]})
            if not c["allow"]:
                changed = sorted(p for p in before if st["snap"].get(p) != before[p])
                if changed:
                    ctx.fail({"kind": "api-no-overwrite-changed"}, "generate_types(allow_overwrite=False) changed a file that existed before the call",
                             {"history": slim, "step": i, "files": changed[:6]})
                conflict = sorted(p for p in ref["snap"] if p in before)
                if conflict and st["status"] == "ok":
                    ctx.fail({"kind": "api-no-overwrite-silent"}, "generate_types(allow_overwrite=False) over existing outputs does not report the conflict",
                             {"history": slim, "step": i, "existing_outputs": conflict[:6]})
            before = dict(st["snap"])
