"""
Paired real runs for the noninterference properties C07 / C10 (shared by harness/c07.py and harness/c10.py).

A *job* is a list of generator runs executed one after the other inside ONE fresh interpreter (the worker: this
file run as a script), under one hash seed, one fake clock and one working directory.  Every run goes through the
real CLI code (`nunavut.cli._make_parser` + `nunavut.cli.runners.ArgparseRunner`, i.e. what `nnvg` does); the only
interposition is an optional transformation of the type list returned by the front end (subset / shuffle), applied
by wrapping `nunavut.cli.runners.read_dsdl_namespace`.  No hook in the repository is needed.

The worker reports, per run, sha256 of every file under the output directory keyed by the path relative to it.
"""
import concurrent.futures
import hashlib
import json
import os
import pathlib
import shutil
import subprocess
import sys

PY = "/venv/bin/python"
HERE = pathlib.Path(__file__).resolve()


# =====================================================================================================================
# worker side (runs in its own interpreter; imports nothing from /verif)
# =====================================================================================================================
import time as _time_mod
_REAL_TIME = _time_mod.time       # kept before the fake clock replaces time.time


def _install_fake_clock(base: float, step: float):
    """Replace datetime.datetime (utcnow/now/today) and time.time/time_ns by a deterministic clock."""
    import datetime as _dt
    import time as _time

    state = {"n": 0}

    def tick() -> float:
        state["n"] += 1
        return base + step * state["n"]

    real = _dt.datetime

    class FakeDateTime(real):  # type: ignore
        @classmethod
        def utcnow(cls):
            return real.fromtimestamp(tick(), _dt.timezone.utc).replace(tzinfo=None)

        @classmethod
        def now(cls, tz=None):
            t = tick()
            return real.fromtimestamp(t, tz) if tz is not None else real.fromtimestamp(t, _dt.timezone.utc).replace(tzinfo=None)

        @classmethod
        def today(cls):
            return cls.now()

    _dt.datetime = FakeDateTime
    _time.time = tick
    _time.time_ns = lambda: int(tick() * 1e9)
    return state


def _sha_tree(root: pathlib.Path):
    out = {}
    if root.exists():
        for p in sorted(root.rglob("*")):
            if p.is_file():
                out[p.relative_to(root).as_posix()] = hashlib.sha256(p.read_bytes()).hexdigest()
    return out


_SHARED = {}


def _one_run(run: dict) -> dict:
    import nunavut.cli
    import nunavut.cli.runners as runners

    os.chdir(run["cwd"])
    for path, text in run.get("edits") or []:
        # an edit of the inputs between two runs of a history (None = delete)
        fp = pathlib.Path(path)
        if text is None:
            if fp.exists():
                fp.unlink()
        else:
            fp.parent.mkdir(parents=True, exist_ok=True)
            fp.write_text(text, encoding="utf-8")
            import time as _t
            future = _REAL_TIME() + 5.0     # make sure the edited definition is newer than anything generated so far
            os.utime(fp, (future, future))
    argv = list(run["argv"])
    args = nunavut.cli._make_parser().parse_args(argv)
    real_reader = runners.read_dsdl_namespace
    tr = run.get("transform") or {}
    seen = {}

    def reader(*a, **kw):
        types = list(real_reader(*a, **kw))
        seen["all"] = [f"{t.full_name}.{t.version.major}.{t.version.minor}" for t in types]
        if tr.get("subset") is not None:
            keep = set(tr["subset"])
            types = [t for t in types if f"{t.full_name}.{t.version.major}.{t.version.minor}" in keep]
        if tr.get("order") is not None:
            pos = {n: i for i, n in enumerate(tr["order"])}
            types.sort(key=lambda t: pos[f"{t.full_name}.{t.version.major}.{t.version.minor}"])
        seen["used"] = [f"{t.full_name}.{t.version.major}.{t.version.minor}" for t in types]
        return types

    runners.read_dsdl_namespace = reader
    real_create = runners.ArgparseRunner._create_language_context
    if run.get("share_lctx"):
        # library use: ONE LanguageContext for all namespace trees of the process (a build script / watch loop that re-reads definitions)
        def create(self):
            if _SHARED.get("lctx") is None:
                _SHARED["lctx"] = real_create(self)
            return _SHARED["lctx"]
        runners.ArgparseRunner._create_language_context = create
    real_builder = runners.LanguageContextBuilder
    if run.get("share_builder"):
        # library use: ONE LanguageContextBuilder, create() called again after further overrides (each run sets every override again)
        def builder_factory(*a, **kw):
            if _SHARED.get("builder") is None:
                _SHARED["builder"] = real_builder(*a, **kw)
            return _SHARED["builder"]
        runners.LanguageContextBuilder = builder_factory
    try:
        extra = list(args.lookup_dir) if args.lookup_dir is not None else []
        runner = runners.ArgparseRunner(args.root_namespace, args, extra)
        if run.get("gen_calls"):
            # several generate_all calls on the SAME generator objects (library use), into the same output directory
            for call in run["gen_calls"]:
                kw = dict(is_dryrun=bool(call.get("dry")), allow_overwrite=True, omit_serialization_support=bool(call.get("omit")),
                          embed_auditing_info=bool(call.get("audit")))
                if runner._should_generate_support():
                    runner._support_generator.generate_all(**kw)
                if args.generate_support != "only":
                    seen["generated"] = [str(x) for x in runner._generator.generate_all(**kw)]
        else:
            runner.run()
        err = None
    except BaseException as e:  # noqa  (SystemExit from argparse included)
        err = f"{type(e).__name__}: {e}"
    finally:
        runners.read_dsdl_namespace = real_reader
        runners.ArgparseRunner._create_language_context = real_create
        runners.LanguageContextBuilder = real_builder
    gen = None
    if seen.get("generated") is not None:
        outp = pathlib.Path(run["out"]).resolve()
        gen = sorted(pathlib.Path(x).resolve().relative_to(outp).as_posix() for x in seen["generated"] if pathlib.Path(x).exists())
    return {"files": _sha_tree(pathlib.Path(run["out"])), "error": err, "types": seen.get("used"), "generated": gen}


def _worker(jobfile: str) -> int:
    job = json.loads(pathlib.Path(jobfile).read_text())
    if job.get("fake_time") is not None:
        _install_fake_clock(float(job["fake_time"]), float(job.get("fake_step", 1.0)))
    sys.path.insert(0, job["repo_src"])
    sys.dont_write_bytecode = True
    import logging
    logging.disable(logging.CRITICAL)
    if job.get("prelude") == "uniq":
        # a library user (or an earlier, unrelated generator) left the process-wide name generator in some state
        from nunavut.lang._common import UniqueNameGenerator
        UniqueNameGenerator.reset()
        g = UniqueNameGenerator.get_instance()
        for key in ("c", "cpp", "py", "html"):
            for base in ("index", "result", "size_bytes", "sat", "err", "ptr", "origin", "i", "elem", "e", "tmp", "x"):
                for _ in range(3):
                    g(key, base, "_", "_")
    results = []
    for run in job["runs"]:
        results.append(_one_run(run))
    pathlib.Path(job["report"]).write_text(json.dumps({"runs": results, "hashseed": os.environ.get("PYTHONHASHSEED")}))
    return 0


# =====================================================================================================================
# harness side
# =====================================================================================================================
def make_run(argv, out, cwd, transform=None, edits=None, gen_calls=None, share_lctx=False, share_builder=False):
    return {"argv": [str(a) for a in argv], "out": str(out), "cwd": str(cwd), "transform": transform,
            "edits": [[str(p), t] for p, t in (edits or [])], "gen_calls": gen_calls, "share_lctx": share_lctx, "share_builder": share_builder}


# =====================================================================================================================
# histories: several runs with edits / option changes in between, in ONE interpreter and (mostly) ONE output directory,
# always compared with the same FINAL run in a fresh interpreter into a fresh directory
# =====================================================================================================================
def history_stream(ctx, repo_src, root, lookups, langs, edits_spec, quick=True, tag="h"):
    """
    root/lookups: a small corpus input (copied privately per job).  edits_spec: {name: [(relative path below the copy, new text)]}.
    Returns a list of findings: dict(scenario, lang, file, where-paths, errors ...).  Every scenario's last run is compared with a
    fresh-process, fresh-directory run on the same final inputs with the same final arguments / flags.
    """
    scratch = ctx.scratch / f"hist_{tag}"
    scratch.mkdir(parents=True, exist_ok=True)
    (scratch / "cwd").mkdir(exist_ok=True)
    jobs, fresh_jobs, plan = [], [], []
    root, lookups = pathlib.Path(root), [pathlib.Path(l) for l in lookups]

    def private_copy(name):
        base = scratch / name / "in"
        copy_tree(root, base / root.name)
        for lk in lookups:
            copy_tree(lk, base / lk.name)
        return base

    def argv(lang, base, out, extra=()):
        return ["--experimental-languages", "-l", lang, "-O", out, base / root.name] + [x for lk in lookups for x in ("-I", base / lk.name)] + list(extra)

    def abs_edits(base, name):
        return [(base / rel, text) for rel, text in edits_spec[name]]

    for lang in langs:
        scen = []   # (scenario name, [run specs builder(base, outs)], final extra, final edits name, final gen_call)
        # S1 edit a nested type, rerun into the SAME output directory
        scen.append(("edit-nested-type-same-outdir", lambda b, o: [make_run(argv(lang, b, o[0]), o[0], scratch / "cwd"),
                                                                  make_run(argv(lang, b, o[0]), o[0], scratch / "cwd", edits=abs_edits(b, "nested"))], (), "nested", None))
        # S2 change an option, rerun into the SAME output directory
        opt = {"c": ["--enable-serialization-asserts"], "cpp": ["--enable-serialization-asserts"], "py": ["--pp-max-emptylines", "3"],
               "html": ["--pp-max-emptylines", "3"]}[lang]
        scen.append(("change-option-same-outdir", lambda b, o, opt=opt: [make_run(argv(lang, b, o[0]), o[0], scratch / "cwd"),
                                                                         make_run(argv(lang, b, o[0], opt), o[0], scratch / "cwd")], tuple(opt), None, None))
        # S3 a dependency is swapped for another type with the same bit length set; second generation in the process, fresh outdir
        scen.append(("swap-dependency-same-size-second-generation", lambda b, o: [make_run(argv(lang, b, o[0]), o[0], scratch / "cwd"),
                                                                                make_run(argv(lang, b, o[1]), o[1], scratch / "cwd", edits=abs_edits(b, "swap"))], (), "swap", None))
        # S3b the same with ONE LanguageContext reused for both namespace trees (library use; the CLI makes a new one per run)
        scen.append(("swap-dependency-same-size-reused-language-context",
                     lambda b, o: [make_run(argv(lang, b, o[0]), o[0], scratch / "cwd", share_lctx=True),
                                   make_run(argv(lang, b, o[1]), o[1], scratch / "cwd", edits=abs_edits(b, "swap"), share_lctx=True)], (), "swap", None))
        # S3c ONE LanguageContextBuilder: create() + generate with the defaults, then further overrides, create() + generate again
        bo = ["--configuration", pathlib.Path(__file__).resolve().parent.parent / "corpus" / "C10" / "config" / "builder_override.yaml"]
        scen.append(("same-builder-create-again-after-overrides",
                     lambda b, o: [make_run(argv(lang, b, o[0]), o[0], scratch / "cwd", share_builder=True),
                                   make_run(argv(lang, b, o[1], bo), o[1], scratch / "cwd", share_builder=True)], tuple(bo), None, None))
        # S4 a run with auditing info, then the plain run (other outdir)
        scen.append(("auditing-run-then-plain-run", lambda b, o: [make_run(argv(lang, b, o[0], ["--embed-auditing-info"]), o[0], scratch / "cwd"),
                                                                make_run(argv(lang, b, o[1]), o[1], scratch / "cwd")], (), None, None))
        # S5 the same generator objects: omit serialization support off then on / on then off; auditing on then off
        scen.append(("same-generator-omit-off-then-on", lambda b, o: [make_run(argv(lang, b, o[0]), o[0], scratch / "cwd", gen_calls=[{"omit": False}, {"omit": True}])], (), None, {"omit": True}))
        scen.append(("same-generator-omit-on-then-off", lambda b, o: [make_run(argv(lang, b, o[0]), o[0], scratch / "cwd", gen_calls=[{"omit": True}, {"omit": False}])], (), None, {"omit": False}))
        scen.append(("same-generator-dry-run-then-generate", lambda b, o: [make_run(argv(lang, b, o[0]), o[0], scratch / "cwd", gen_calls=[{"dry": True}, {}])], (), None, {}))
        scen.append(("same-generator-auditing-on-then-off", lambda b, o: [make_run(argv(lang, b, o[0]), o[0], scratch / "cwd", gen_calls=[{"audit": True}, {"audit": False}])], (), None, {}))
        if not quick:
            scen.append(("edit-nested-type-second-generation", lambda b, o: [make_run(argv(lang, b, o[0]), o[0], scratch / "cwd"),
                                                                             make_run(argv(lang, b, o[1]), o[1], scratch / "cwd", edits=abs_edits(b, "nested"))], (), "nested", None))
            scen.append(("omit-run-then-plain-run-same-outdir", lambda b, o: [make_run(argv(lang, b, o[0], ["--omit-serialization-support"]), o[0], scratch / "cwd"),
                                                                              make_run(argv(lang, b, o[0]), o[0], scratch / "cwd")], (), None, None))
        for si, (name, build, fextra, fedit, fcall) in enumerate(scen):
            jn = f"{tag}{len(jobs)}"
            base = private_copy(jn)
            outs = [scratch / jn / "out0", scratch / jn / "out1"]
            runs = build(base, outs)
            jobs.append({"name": jn, "runs": runs, "hashseed": "0", "fake_time": 1.0e9, "fake_step": 0.0})
            # the fresh-process comparison run: AFTER the history, on the very same (now edited) input copy — same absolute location —
            # into a fresh directory
            fn = f"{tag}{len(jobs)}f"
            fout = scratch / jn / "fresh"
            frun = make_run(argv(lang, base, fout, fextra), fout, scratch / "cwd", gen_calls=([fcall] if fcall is not None else None))
            fresh_jobs.append({"name": fn, "runs": [frun], "hashseed": "0", "fake_time": 1.0e9, "fake_step": 0.0})
            plan.append({"scenario": name, "lang": lang, "job": jn, "fresh": fn, "final_out": runs[-1]["out"], "fresh_out": str(fout),
                         "runs": [{"argv": [a.replace(str(scratch), "<scratch>") for a in r["argv"]], "gen_calls": r["gen_calls"],
                                   "edits": [e[0].replace(str(scratch), "<scratch>") for e in r["edits"]]} for r in runs]})
    results = exec_jobs(repo_src, ctx.scratch, jobs, max_workers=14)
    results.update(exec_jobs(repo_src, ctx.scratch, fresh_jobs, max_workers=14))
    findings = []
    for pl in plan:
        h, f = results[pl["job"]], results[pl["fresh"]]
        if isinstance(h, Exception) or isinstance(f, Exception):
            findings.append({**pl, "kind": "worker-error", "error": str(h if isinstance(h, Exception) else f)[:500]})
            continue
        hl, fr = h[-1], f[0]
        if any(r["error"] for r in h[:-1]) or bool(hl["error"]) or bool(fr["error"]):
            if bool(hl["error"]) != bool(fr["error"]) and not any(r["error"] for r in h[:-1]):
                findings.append({**pl, "kind": "outcome", "errors": [str(hl["error"])[:300], str(fr["error"])[:300]]})
            else:
                findings.append({**pl, "kind": "skipped-error", "errors": [str(r["error"])[:200] for r in h] + [str(fr["error"])[:200]]})
            continue
        # what the fresh run produced must be there with the same bytes (left-overs of earlier runs are another property's subject)
        bad = sorted(k for k, v in fr["files"].items() if hl["files"].get(k) != v)
        findings.append({**pl, "kind": "differs" if bad else "equal", "files": bad[:40], "n": len(bad), "n_files": len(fr["files"]),
                         "sha256": [hl["files"].get(bad[0]), fr["files"].get(bad[0])] if bad else None})
    return findings



# =====================================================================================================================
# histories ACROSS processes: state that outlives the interpreter (caches under the temp / home directory) would carry
# one run's compile-time decisions into the next process
# =====================================================================================================================
def cross_process_stream(ctx, repo_src, root, lookups, langs, quick=True, tag="x"):
    """Per language and scenario: process 1 runs with options A, then process 2 runs with options B — both with the SAME private
    TMPDIR / HOME / XDG_CACHE_HOME —, and B alone in a process whose TMPDIR / HOME are fresh; also A then B inside one interpreter.
    Returns findings: dict(scenario, lang, how ('next-process' | 'same-interpreter'), kind ('equal' | 'differs' | 'outcome' | 'worker-error'), files…)."""
    scratch = ctx.scratch / f"xproc_{tag}"
    (scratch / "cwd").mkdir(parents=True, exist_ok=True)
    root, lookups = pathlib.Path(root), [pathlib.Path(l) for l in lookups]
    ws = ["--trim-blocks", "--lstrip-blocks"]
    scen = {l: [("whitespace-options-then-default", ws, [])] for l in langs}
    if not quick:
        for l in langs:
            scen[l].append(("default-then-whitespace-options", [], ws))
        scen["c"].append(("asserts-big-endian-then-default", ["--enable-serialization-asserts", "--target-endianness", "big"], []))
        scen["cpp"].append(("c++17-pmr-then-default", ["--language-standard", "c++17-pmr"], []))
        scen["py"].append(("pyi-then-default", ["--output-extension", ".pyi"], []))

    def env_for(d):
        for sub in ("tmp", "home", "home/.cache"):
            (d / sub).mkdir(parents=True, exist_ok=True)
        return {"TMPDIR": str(d / "tmp"), "TEMP": str(d / "tmp"), "TMP": str(d / "tmp"), "HOME": str(d / "home"),
                "XDG_CACHE_HOME": str(d / "home" / ".cache"), "USERPROFILE": str(d / "home")}

    def argv(lang, out, extra):
        return ["--experimental-languages", "-l", lang, "-O", out, root] + [x for lk in lookups for x in ("-I", lk)] + list(extra)

    round1, round2, plan = [], [], []
    for lang in langs:
        for name, A, B in scen[lang]:
            sid = f"{tag}{len(plan)}"
            S = scratch / sid
            common_ = {"hashseed": "0", "fake_time": 1.0e9, "fake_step": 0.0}
            round1.append({"name": sid + "p1", "runs": [make_run(argv(lang, S / "out1", A), S / "out1", scratch / "cwd")], "env": env_for(S / "shared"), **common_})
            round2.append({"name": sid + "p2", "runs": [make_run(argv(lang, S / "out2", B), S / "out2", scratch / "cwd")], "env": env_for(S / "shared"), **common_})
            round1.append({"name": sid + "f", "runs": [make_run(argv(lang, S / "outf", B), S / "outf", scratch / "cwd")], "env": env_for(S / "fresh"), **common_})
            round1.append({"name": sid + "s", "runs": [make_run(argv(lang, S / "outs1", A), S / "outs1", scratch / "cwd"),
                                                       make_run(argv(lang, S / "outs2", B), S / "outs2", scratch / "cwd")], "env": env_for(S / "same"), **common_})
            plan.append({"scenario": name, "lang": lang, "sid": sid, "first_options": A, "options": B,
                         "outs": {"next-process": str(S / "out2"), "same-interpreter": str(S / "outs2"), "fresh": str(S / "outf")}})
    results = exec_jobs(repo_src, ctx.scratch, round1, max_workers=14)
    results.update(exec_jobs(repo_src, ctx.scratch, round2, max_workers=14))
    findings = []
    for pl in plan:
        sid = pl["sid"]
        fr = results[sid + "f"]
        for how, res in (("next-process", results[sid + "p2"]), ("same-interpreter", results[sid + "s"])):
            if isinstance(fr, Exception) or isinstance(res, Exception):
                findings.append({**pl, "how": how, "kind": "worker-error", "error": str(res if isinstance(res, Exception) else fr)[:500]})
                continue
            f0, r = fr[0], res[-1]
            if bool(f0["error"]) != bool(r["error"]):
                findings.append({**pl, "how": how, "kind": "outcome", "errors": [str(f0["error"])[:300], str(r["error"])[:300]]})
            elif f0["error"]:
                findings.append({**pl, "how": how, "kind": "skipped-error", "errors": [str(f0["error"])[:300]]})
            else:
                bad = compare(f0["files"], r["files"])
                findings.append({**pl, "how": how, "kind": "differs" if bad else "equal", "files": bad[:8], "n": len(bad), "n_files": len(f0["files"]),
                                 "sha256": [f0["files"].get(bad[0]), r["files"].get(bad[0])] if bad else None})
    return findings


def exec_job(repo_src, scratch: pathlib.Path, name: str, runs, hashseed="0", fake_time=None, fake_step=1.0, timeout=600,
             prelude=None, extra_env=None):
    """Run one job in a fresh interpreter.  Returns the list of per-run results (or raises on worker failure)."""
    jobdir = scratch / "jobs"
    jobdir.mkdir(parents=True, exist_ok=True)
    jf, rf = jobdir / f"{name}.job.json", jobdir / f"{name}.report.json"
    jf.write_text(json.dumps({"repo_src": str(repo_src), "fake_time": fake_time, "fake_step": fake_step,
                              "runs": runs, "report": str(rf), "prelude": prelude}))
    env = {k: v for k, v in os.environ.items() if k not in ("PYTHONPATH", "PYTHONHASHSEED", "DSDL_INCLUDE_PATH")}
    env["PYTHONHASHSEED"] = str(hashseed)
    env["PYTHONDONTWRITEBYTECODE"] = "1"
    for k, v in (extra_env or {}).items():      # ambient environment of this job (None = unset)
        if v is None:
            env.pop(k, None)
        else:
            env[k] = str(v)
    p = subprocess.run([PY, str(HERE), "--worker", str(jf)], env=env, capture_output=True, text=True, timeout=timeout,
                       cwd=str(scratch))
    if p.returncode != 0 or not rf.exists():
        raise RuntimeError(f"paired-run worker {name} failed rc={p.returncode}: {p.stderr[-1500:]}")
    return json.loads(rf.read_text())["runs"]


def exec_jobs(repo_src, scratch, jobs, max_workers=12):
    """jobs: list of dicts(name, runs, hashseed, fake_time[, fake_step]).  Returns {name: results | Exception}."""
    out = {}
    with concurrent.futures.ThreadPoolExecutor(max_workers=max_workers) as ex:
        futs = {ex.submit(exec_job, repo_src, scratch, j["name"], j["runs"], j.get("hashseed", "0"), j.get("fake_time"),
                          j.get("fake_step", 1.0), j.get("timeout", 600), j.get("prelude"), j.get("env")): j["name"] for j in jobs}
        for f in concurrent.futures.as_completed(futs):
            try:
                out[futs[f]] = f.result()
            except Exception as e:  # noqa
                out[futs[f]] = e
    return out


def first_diff(a: pathlib.Path, b: pathlib.Path):
    """(line number, line in a, line in b) of the first differing line of two files (1-based), texts clipped."""
    la = a.read_bytes().split(b"\n") if a.exists() else []
    lb = b.read_bytes().split(b"\n") if b.exists() else []
    for i in range(max(len(la), len(lb))):
        x = la[i] if i < len(la) else None
        y = lb[i] if i < len(lb) else None
        if x != y:
            clip = lambda s: None if s is None else s[:200].decode("utf-8", "replace")
            return i + 1, clip(x), clip(y)
    return None


def compare(files_a: dict, files_b: dict, only=None):
    """Relative paths whose sha256 differ or that exist on one side only (restricted to `only` if given)."""
    keys = set(files_a) | set(files_b)
    if only is not None:
        keys &= set(only)
    return sorted(k for k in keys if files_a.get(k) != files_b.get(k))


def copy_tree(src: pathlib.Path, dst: pathlib.Path):
    if dst.exists():
        shutil.rmtree(dst)
    shutil.copytree(src, dst)
    return dst


def snapshot_tree(root: pathlib.Path, limit=400_000):
    """{relative path: text} of a small input tree (stored in replay files so that a replay needs nothing else)."""
    out, size = {}, 0
    for p in sorted(root.rglob("*")):
        if p.is_file():
            t = p.read_text(encoding="utf-8", errors="replace")
            size += len(t)
            if size > limit:
                return None
            out[p.relative_to(root).as_posix()] = t
    return out


def restore_tree(snap: dict, dst: pathlib.Path):
    for rel, text in snap.items():
        f = dst / rel
        f.parent.mkdir(parents=True, exist_ok=True)
        f.write_text(text, encoding="utf-8")
    return dst


def snapshot_input(root, lookups):
    r = snapshot_tree(pathlib.Path(root))
    ls = [(pathlib.Path(l).name, snapshot_tree(pathlib.Path(l))) for l in lookups]
    if r is None or any(x[1] is None for x in ls):
        return None
    return {"root": pathlib.Path(root).name, "files": r, "lookups": [{"name": n, "files": f} for n, f in ls]}


def restore_input(snap, dst: pathlib.Path):
    """-> (root dir, [lookup dirs]) below dst."""
    root = restore_tree(snap["files"], dst / snap["root"])
    (dst / snap["root"]).mkdir(parents=True, exist_ok=True)
    lks = []
    for l in snap["lookups"]:
        (dst / l["name"]).mkdir(parents=True, exist_ok=True)
        lks.append(restore_tree(l["files"], dst / l["name"]))
    return root, lks


def file_kind(lang: str, rel: str) -> str:
    """Coarse kind of an output file (part of the key of a finding)."""
    name = rel.rsplit("/", 1)[-1]
    if rel.startswith("nunavut/") or name.startswith("nunavut_support"):
        return "support"
    if name.startswith("__init__") or name.startswith("index.") or name.startswith("Namespace"):
        return "namespace"
    return "type"


def run_translator(ctx, repo):
    """Regenerate Gen/TplFlows*.lean from the tree under check (fresh interpreter).  Returns the info dict; a translator
    that can no longer express the source is a broken obligation."""
    info_path = ctx.scratch / "tplflows_info.json"
    verif = HERE.parent.parent
    lock = verif / "lean" / ".lock"
    import fcntl
    with open(lock, "w") as lk:
        fcntl.flock(lk, fcntl.LOCK_EX)      # Gen files are shared with concurrent checks (C07 / C10)
        p = subprocess.run([PY, str(verif / "translate" / "tplflows.py"), "--repo", str(repo), "--info", str(info_path)],
                           capture_output=True, text=True, timeout=600)
    if not info_path.exists():
        ctx.broken.append({"kind": "translator-crash", "translator": "tplflows", "stderr": p.stderr[-2000:]})
        return None
    info = json.loads(info_path.read_text())
    if info.get("error"):
        ctx.broken.append({"kind": "translator", "translator": "tplflows", "error": info["error"]})
        return None
    return info


# source facts whose details name what is wrong (fact -> key of the detail list in the translator's info)
FACT_DETAILS = {"file_pp_calls_pure": "file_pp_state_writes", "line_pp_reset_complete": "line_pp_state_not_reset",
                "file_pp_source_matches_model": "file_pp_source_diffs", "generator_runs_file_pps_once_in_order": "generator_pp_loop_problems",
                "no_undeclared_ambient_inputs": "ambient_probes", "no_unlisted_shared_containers": "shared_containers",
                "registered_callables_classified": "unclassified_callables", "registered_callables_as_expected": "unexpected_ambient_callables",
                "no_unlisted_process_state": "process_state_unlisted", "memo_keys_determine_result": "memo_keys_coarser_than_function", "config_files_read_in_given_order": "config_files_loop", "memoised_functions_modelled": "memoised_not_modelled"}


def report_source_facts(ctx, info, names):
    """A source fact that is false is a broken obligation of its own, with the offending places by name (the property module
    that `decide`s the fact fails to build as well)."""
    if info is None:
        return
    facts = info.get("facts") or {}
    for n in names:
        if n in facts and facts[n] is False:
            ctx.broken.append({"kind": "source-fact", "fact": n, "details": (facts.get(FACT_DETAILS.get(n, "")) or [])[:12]})


def parse_flags(ans: str) -> dict:
    return {k: v == "1" for k, v in (t.split("=") for t in ans.split())}


if __name__ == "__main__":
    if len(sys.argv) == 3 and sys.argv[1] == "--worker":
        sys.exit(_worker(sys.argv[2]))
    sys.exit(2)
