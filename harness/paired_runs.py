"""
Paired real runs for the noninterference properties C07 / C10 (shared by harness/c07.py and harness/c10.py).

A *job* is a list of generator runs executed one after the other inside ONE fresh interpreter (the worker: this
file run as a script), under one hash seed, one fake clock and one working directory.  Every run goes through the
real CLI code (`nunavut.cli._make_parser` + `nunavut.cli.runners.ArgparseRunner`, i.e. what `nnvg` does); the only
interposition is an optional transformation of the type list returned by the front end (subset / shuffle), applied
by wrapping `nunavut.cli.runners.read_dsdl_namespace`.  No hook in the repository is needed.

The worker reports, per run, sha256 of every file under the output directory keyed by the path relative to it.
"""
import concurrent.futures
import hashlib
import json
import os
import pathlib
import shutil
import subprocess
import sys

PY = "/venv/bin/python"
HERE = pathlib.Path(__file__).resolve()


# =====================================================================================================================
# worker side (runs in its own interpreter; imports nothing from /verif)
# =====================================================================================================================
def _install_fake_clock(base: float, step: float):
    """Replace datetime.datetime (utcnow/now/today) and time.time/time_ns by a deterministic clock."""
    import datetime as _dt
    import time as _time

    state = {"n": 0}

    def tick() -> float:
        state["n"] += 1
        return base + step * state["n"]

    real = _dt.datetime

    class FakeDateTime(real):  # type: ignore
        @classmethod
        def utcnow(cls):
            return real.fromtimestamp(tick(), _dt.timezone.utc).replace(tzinfo=None)

        @classmethod
        def now(cls, tz=None):
            t = tick()
            return real.fromtimestamp(t, tz) if tz is not None else real.fromtimestamp(t, _dt.timezone.utc).replace(tzinfo=None)

        @classmethod
        def today(cls):
            return cls.now()

    _dt.datetime = FakeDateTime
    _time.time = tick
    _time.time_ns = lambda: int(tick() * 1e9)
    return state


def _sha_tree(root: pathlib.Path):
    out = {}
    if root.exists():
        for p in sorted(root.rglob("*")):
            if p.is_file():
                out[p.relative_to(root).as_posix()] = hashlib.sha256(p.read_bytes()).hexdigest()
    return out


def _one_run(run: dict) -> dict:
    import nunavut.cli
    import nunavut.cli.runners as runners

    os.chdir(run["cwd"])
    argv = list(run["argv"])
    args = nunavut.cli._make_parser().parse_args(argv)
    real_reader = runners.read_dsdl_namespace
    tr = run.get("transform") or {}
    seen = {}

    def reader(*a, **kw):
        types = list(real_reader(*a, **kw))
        seen["all"] = [f"{t.full_name}.{t.version.major}.{t.version.minor}" for t in types]
        if tr.get("subset") is not None:
            keep = set(tr["subset"])
            types = [t for t in types if f"{t.full_name}.{t.version.major}.{t.version.minor}" in keep]
        if tr.get("order") is not None:
            pos = {n: i for i, n in enumerate(tr["order"])}
            types.sort(key=lambda t: pos[f"{t.full_name}.{t.version.major}.{t.version.minor}"])
        seen["used"] = [f"{t.full_name}.{t.version.major}.{t.version.minor}" for t in types]
        return types

    runners.read_dsdl_namespace = reader
    try:
        extra = list(args.lookup_dir) if args.lookup_dir is not None else []
        runner = runners.ArgparseRunner(args.root_namespace, args, extra)
        runner.run()
        err = None
    except BaseException as e:  # noqa  (SystemExit from argparse included)
        err = f"{type(e).__name__}: {e}"
    finally:
        runners.read_dsdl_namespace = real_reader
    return {"files": _sha_tree(pathlib.Path(run["out"])), "error": err, "types": seen.get("used")}


def _worker(jobfile: str) -> int:
    job = json.loads(pathlib.Path(jobfile).read_text())
    if job.get("fake_time") is not None:
        _install_fake_clock(float(job["fake_time"]), float(job.get("fake_step", 1.0)))
    sys.path.insert(0, job["repo_src"])
    sys.dont_write_bytecode = True
    import logging
    logging.disable(logging.CRITICAL)
    if job.get("prelude") == "uniq":
        # a library user (or an earlier, unrelated generator) left the process-wide name generator in some state
        from nunavut.lang._common import UniqueNameGenerator
        UniqueNameGenerator.reset()
        g = UniqueNameGenerator.get_instance()
        for key in ("c", "cpp", "py", "html"):
            for base in ("index", "result", "size_bytes", "sat", "err", "ptr", "origin", "i", "elem", "e", "tmp", "x"):
                for _ in range(3):
                    g(key, base, "_", "_")
    results = []
    for run in job["runs"]:
        results.append(_one_run(run))
    pathlib.Path(job["report"]).write_text(json.dumps({"runs": results, "hashseed": os.environ.get("PYTHONHASHSEED")}))
    return 0


# =====================================================================================================================
# harness side
# =====================================================================================================================
def make_run(argv, out, cwd, transform=None):
    return {"argv": [str(a) for a in argv], "out": str(out), "cwd": str(cwd), "transform": transform}


def exec_job(repo_src, scratch: pathlib.Path, name: str, runs, hashseed="0", fake_time=None, fake_step=1.0, timeout=600,
             prelude=None):
    """Run one job in a fresh interpreter.  Returns the list of per-run results (or raises on worker failure)."""
    jobdir = scratch / "jobs"
    jobdir.mkdir(parents=True, exist_ok=True)
    jf, rf = jobdir / f"{name}.job.json", jobdir / f"{name}.report.json"
    jf.write_text(json.dumps({"repo_src": str(repo_src), "fake_time": fake_time, "fake_step": fake_step,
                              "runs": runs, "report": str(rf), "prelude": prelude}))
    env = {k: v for k, v in os.environ.items() if k not in ("PYTHONPATH", "PYTHONHASHSEED", "DSDL_INCLUDE_PATH")}
    env["PYTHONHASHSEED"] = str(hashseed)
    env["PYTHONDONTWRITEBYTECODE"] = "1"
    p = subprocess.run([PY, str(HERE), "--worker", str(jf)], env=env, capture_output=True, text=True, timeout=timeout,
                       cwd=str(scratch))
    if p.returncode != 0 or not rf.exists():
        raise RuntimeError(f"paired-run worker {name} failed rc={p.returncode}: {p.stderr[-1500:]}")
    return json.loads(rf.read_text())["runs"]


def exec_jobs(repo_src, scratch, jobs, max_workers=12):
    """jobs: list of dicts(name, runs, hashseed, fake_time[, fake_step]).  Returns {name: results | Exception}."""
    out = {}
    with concurrent.futures.ThreadPoolExecutor(max_workers=max_workers) as ex:
        futs = {ex.submit(exec_job, repo_src, scratch, j["name"], j["runs"], j.get("hashseed", "0"), j.get("fake_time"),
                          j.get("fake_step", 1.0), j.get("timeout", 600), j.get("prelude")): j["name"] for j in jobs}
        for f in concurrent.futures.as_completed(futs):
            try:
                out[futs[f]] = f.result()
            except Exception as e:  # noqa
                out[futs[f]] = e
    return out


def first_diff(a: pathlib.Path, b: pathlib.Path):
    """(line number, line in a, line in b) of the first differing line of two files (1-based), texts clipped."""
    la = a.read_bytes().split(b"\n") if a.exists() else []
    lb = b.read_bytes().split(b"\n") if b.exists() else []
    for i in range(max(len(la), len(lb))):
        x = la[i] if i < len(la) else None
        y = lb[i] if i < len(lb) else None
        if x != y:
            clip = lambda s: None if s is None else s[:200].decode("utf-8", "replace")
            return i + 1, clip(x), clip(y)
    return None


def compare(files_a: dict, files_b: dict, only=None):
    """Relative paths whose sha256 differ or that exist on one side only (restricted to `only` if given)."""
    keys = set(files_a) | set(files_b)
    if only is not None:
        keys &= set(only)
    return sorted(k for k in keys if files_a.get(k) != files_b.get(k))


def copy_tree(src: pathlib.Path, dst: pathlib.Path):
    if dst.exists():
        shutil.rmtree(dst)
    shutil.copytree(src, dst)
    return dst


def snapshot_tree(root: pathlib.Path, limit=400_000):
    """{relative path: text} of a small input tree (stored in replay files so that a replay needs nothing else)."""
    out, size = {}, 0
    for p in sorted(root.rglob("*")):
        if p.is_file():
            t = p.read_text(encoding="utf-8", errors="replace")
            size += len(t)
            if size > limit:
                return None
            out[p.relative_to(root).as_posix()] = t
    return out


def restore_tree(snap: dict, dst: pathlib.Path):
    for rel, text in snap.items():
        f = dst / rel
        f.parent.mkdir(parents=True, exist_ok=True)
        f.write_text(text, encoding="utf-8")
    return dst


def snapshot_input(root, lookups):
    r = snapshot_tree(pathlib.Path(root))
    ls = [(pathlib.Path(l).name, snapshot_tree(pathlib.Path(l))) for l in lookups]
    if r is None or any(x[1] is None for x in ls):
        return None
    return {"root": pathlib.Path(root).name, "files": r, "lookups": [{"name": n, "files": f} for n, f in ls]}


def restore_input(snap, dst: pathlib.Path):
    """-> (root dir, [lookup dirs]) below dst."""
    root = restore_tree(snap["files"], dst / snap["root"])
    (dst / snap["root"]).mkdir(parents=True, exist_ok=True)
    lks = []
    for l in snap["lookups"]:
        (dst / l["name"]).mkdir(parents=True, exist_ok=True)
        lks.append(restore_tree(l["files"], dst / l["name"]))
    return root, lks


def file_kind(lang: str, rel: str) -> str:
    """Coarse kind of an output file (part of the key of a finding)."""
    name = rel.rsplit("/", 1)[-1]
    if rel.startswith("nunavut/") or name.startswith("nunavut_support"):
        return "support"
    if name.startswith("__init__") or name.startswith("index.") or name.startswith("Namespace"):
        return "namespace"
    return "type"


def run_translator(ctx, repo):
    """Regenerate Gen/TplFlows*.lean from the tree under check (fresh interpreter).  Returns the info dict; a translator
    that can no longer express the source is a broken obligation."""
    info_path = ctx.scratch / "tplflows_info.json"
    verif = HERE.parent.parent
    lock = verif / "lean" / ".lock"
    import fcntl
    with open(lock, "w") as lk:
        fcntl.flock(lk, fcntl.LOCK_EX)      # Gen files are shared with concurrent checks (C07 / C10)
        p = subprocess.run([PY, str(verif / "translate" / "tplflows.py"), "--repo", str(repo), "--info", str(info_path)],
                           capture_output=True, text=True, timeout=600)
    if not info_path.exists():
        ctx.broken.append({"kind": "translator-crash", "translator": "tplflows", "stderr": p.stderr[-2000:]})
        return None
    info = json.loads(info_path.read_text())
    if info.get("error"):
        ctx.broken.append({"kind": "translator", "translator": "tplflows", "error": info["error"]})
        return None
    return info


def parse_flags(ans: str) -> dict:
    return {k: v == "1" for k, v in (t.split("=") for t in ans.split())}


if __name__ == "__main__":
    if len(sys.argv) == 3 and sys.argv[1] == "--worker":
        sys.exit(_worker(sys.argv[2]))
    sys.exit(2)
