"""
C10 — per-type output ignores sibling types, processing order and earlier runs.

Proof: lean/NunavutVerif/Properties/C10.lean (noninterference for the process-state classes over the generated
dataflow tables; UniqueNameGenerator, memoisation and LimitEmptyLines as explicit state machines).
Tie: translate/tplflows.py (regenerated on every run) +
  * the real `UniqueNameGenerator` against the model for random request sequences and prior states,
  * the real `_generate_code` of real generators that share one post-processor list (support generator first, then the
    type generator, as the CLI does) against the model's multi-file run, exhaustive small domain + random,
  * memoised functions against their un-memoised bodies,
  * paired real runs: whole namespace vs dependency-closed subsets vs shuffled type lists vs two / three consecutive
    generator runs in one interpreter (with a polluted process state), built-in templates and user templates that begin and
    end with empty lines and use the unique-name filters, line post-processors on; sha256 per relative path.
Failing-input search: the property's predicate on the implementation — the bytes written for a file in any company,
order or history versus the bytes written for it alone by a fresh process.
"""
import io
import itertools
import json
import pathlib
import tempfile

from . import common
from . import paired_runs as pr
from . import c07 as shared
from . import filepp
from .common import enc, dec

LANGS = ["c", "cpp", "py", "html"]
C10_CLASSES = shared.PROC_CLASSES
OPTSETS = {
    "c": [("default", []), shared.PPRUN, ("pp2", ["--pp-max-emptylines", "2", "--pp-trim-trailing-whitespace"]), ("asserts", ["--enable-serialization-asserts"])],
    "cpp": [("default", []), shared.PPRUN, ("pp1", ["--pp-max-emptylines", "1", "--pp-trim-trailing-whitespace"]), ("c++17", ["--language-standard", "c++17"])],
    "py": [("default", []), shared.PPRUN, ("pp2", ["--pp-max-emptylines", "2"])],
    "html": [("pp1", ["--pp-max-emptylines", "1"]), ("default", [])],
}


# ---- in-process pieces ---------------------------------------------------------------------------------------------------
def real_uniq(reset, prior, reqs):
    from nunavut.lang._common import UniqueNameGenerator
    UniqueNameGenerator.reset()
    g = UniqueNameGenerator.get_instance()
    for (k, b), n in prior:
        for _ in range(n):
            g(k, b, "", "")
    if reset:
        UniqueNameGenerator.reset()
    g = UniqueNameGenerator.get_instance()
    return [g(*r) for r in reqs]


def uniq_line(reset, prior, reqs):
    p = ";".join(f"{enc(k)}:{enc(b)}:{n}" for (k, b), n in prior) or "!"
    r = ";".join(":".join(enc(x) for x in q) for q in reqs) or "!"
    return f"uniq {1 if reset else 0} {p} {r}"


class RealGenerators:
    """Real DSDLCodeGenerator + SupportGenerator sharing ONE post-processor list (create_default_generators, as the CLI).
    `start(pps)` puts fresh processor objects into that shared list (= a new run)."""

    def __init__(self, workdir: pathlib.Path):
        import nunavut
        from nunavut._generators import create_default_generators
        from nunavut.lang import LanguageContextBuilder
        self.dir = pathlib.Path(tempfile.mkdtemp(dir=workdir))
        (self.dir / "ns").mkdir()
        lctx = LanguageContextBuilder(include_experimental_languages=True).set_target_language("html").create()
        ns = nunavut.build_namespace_tree([], str(self.dir / "ns"), str(self.dir / "out"), lctx)
        self.shared = []
        self.gen, self.sup = create_default_generators(ns, post_processors=self.shared)
        if self.gen._post_processors is not self.shared or self.sup._post_processors is not self.shared:
            raise RuntimeError("the generators no longer share the post-processor list they are given")
        self.out = self.dir / "f.txt"

    def start(self, pps):
        import nunavut._postprocessors as npp
        self.shared[:] = [npp.TrimTrailingWhitespace() if p == "T" else npp.LimitEmptyLines(int(p[1:])) for p in pps]
        return self

    class Boom(Exception):
        pass

    def write(self, text, via_support=False, aborted=False):
        """One file through the real `_generate_code`.  aborted: the template generator raises after it yielded the text (the
        caller catches the exception and carries on, as a build script or a test harness does)."""
        g = self.sup if via_support else self.gen

        def chunks():
            yield text
            if aborted:
                raise RealGenerators.Boom()
        try:
            g._generate_code(self.out, None, chunks(), True)
        except RealGenerators.Boom:
            pass
        with open(self.out, encoding="utf-8", newline="") as f:
            return f.read()


def files_line(reset, pps, texts):
    return f"files {1 if reset else 0} {','.join(pps) if pps else '-'} {','.join('0' for _ in pps) if pps else '-'} " + "|".join(enc(t) for t in texts)


def dep_closure(types):
    """name -> set of names (within the list) it needs, transitively."""
    import pydsdl
    key = lambda t: f"{t.full_name}.{t.version.major}.{t.version.minor}"
    names = {key(t) for t in types}

    def direct(t):
        out = set()
        parts = [t.request_type, t.response_type] if isinstance(t, pydsdl.ServiceType) else [t]
        for p in parts:
            for a in p.attributes:
                dt = a.data_type
                while isinstance(dt, pydsdl.ArrayType):
                    dt = dt.element_type
                if isinstance(dt, pydsdl.CompositeType) and key(dt) in names:
                    out.add(key(dt))
        return out

    d = {key(t): direct(t) for t in types}
    closed = {}
    for k in d:
        seen, todo = set(), [k]
        while todo:
            x = todo.pop()
            if x in seen:
                continue
            seen.add(x)
            todo += list(d[x])
        closed[k] = seen
    return closed


def run(ctx: common.Ctx):
    info = pr.run_translator(ctx, common.REPO)
    pr.report_source_facts(ctx, info, ["file_pp_calls_pure", "line_pp_reset_complete", "file_pp_source_matches_model", "generator_runs_file_pps_once_in_order", "no_unlisted_shared_containers", "no_undeclared_ambient_inputs", "line_buffer_per_call", "memo_keys_determine_result", "memoised_functions_modelled"])
    drivers = ctx.prove(["C10"], exes=["tpl"])
    drv = drivers.get("tpl")
    rng = ctx.rng
    ctx.rule = ("(a) UniqueNameGenerator: request sequences x prior states; (b) multi-file post-processing through real generators sharing "
                "one processor list: exhaustive texts over {LF, y, space} up to length L x 2-file sequences x processor lists, + random "
                "3-5 file sequences; (c) memoised vs un-memoised; (d) paired real runs: whole vs closed subsets vs shuffled lists vs "
                "consecutive runs in one interpreter, built-in and user templates; non-trivial = a sequence with >= 2 files / a pair whose "
                "company, order or history differs; distinct by the full case")
    ctx.assumptions = [
        "memoised functions are pure (compared cached vs un-memoised on the inputs explored)",
        "PyDSDL front end is deterministic; a subset/permutation of its result list is what a caller of build_namespace_tree may pass",
        "namespace-level files (__init__.py, index.html) list the members of their namespace: outside the per-type claim when the company "
        "changes, compared (and expected equal up to member order) when only the order changes",
    ]
    model = shared.Model(drv, info) if (drv is not None and info is not None) else None
    flags = model.flags if model is not None else {}
    ppreset = bool(flags.get("ppreset"))
    if model is not None:
        ctx.extra["model_flags"] = flags
        ctx.extra["source_facts"] = info.get("facts")

    # ---- (a) UniqueNameGenerator ------------------------------------------------------------------------------------------
    if drv is not None:
        cases = []
        keys, bases = ["c", "py"], ["a", "b", ""]
        reqpool = [(k, b, p, s) for k in keys for b in bases for p, s in (("_", "_"), ("", ""))]
        for L in range(0, 4):
            for tup in itertools.product(reqpool[:6], repeat=L):
                for prior in ([], [(("c", "a"), 2)], [(("py", ""), 1), (("c", "b"), 3)]):
                    cases.append((True, prior, list(tup)))
                    cases.append((False, prior, list(tup)))
        for _ in range(300 if ctx.quick else 5000):
            prior = [((rng.choice(keys + ["html"]), rng.choice(bases + ["é x", "index"])), rng.randint(0, 12)) for _ in range(rng.randint(0, 4))]
            prior = list({k: n for k, n in prior}.items())
            reqs = [(rng.choice(keys + ["html"]), rng.choice(bases + ["é x", "index"]), rng.choice(["", "_", "p:"]), rng.choice(["", "_"]))
                    for _ in range(rng.randint(0, 12))]
            cases.append((rng.random() < 0.6, prior, reqs))
        ans = drv.ask([uniq_line(*c) for c in cases])
        for (reset, prior, reqs), a in zip(cases, ans):
            got = real_uniq(reset, prior, reqs)
            m = [] if a == "!" else [dec(x) for x in a.split("|")]
            ctx.traces += 1
            ctx.case(("uniq", reset, tuple(prior), tuple(reqs)), nontrivial=len(reqs) >= 2)
            ctx.count("uniq_reset" if reset else "uniq_noreset")
            if m != got:
                ctx.disagree("uniq", {"reset": reset, "prior": prior, "reqs": reqs}, m, got)
            if reset:
                # the property on the implementation: names after a reset do not depend on the prior state
                if got != real_uniq(True, [], reqs):
                    ctx.fail({"kind": "unique-names-depend-on-prior-state"}, "names issued after reset() depend on the prior state",
                             {"prior": prior, "reqs": reqs, "got": got})
        ctx.sample({"uniq": {"prior": cases[-1][1], "reqs": cases[-1][2][:4], "names": real_uniq(*cases[-1])[:4]}})

    # ---- (b) line post-processors across files through the real generators ---------------------------------------------------
    if drv is not None:
        seqs = []   # (pps, texts, via_support_first)
        corpus = common.VERIF / "corpus" / "C10" / "limiter_cases.json"
        if corpus.exists():
            for c in json.loads(corpus.read_text()):
                seqs.append((c["pps"], c["texts"], True))
        ncorpus = len(seqs)
        alphabet = ["\n", "y", " "]
        maxlen = 3 if ctx.quick else 4
        texts = ["".join(t) for L in range(0, maxlen + 1) for t in itertools.product(alphabet, repeat=L)]
        ppss = [["L0"], ["L1"], ["L2"], ["T", "L1"], ["L1", "T"]] if ctx.quick else [["L0"], ["L1"], ["L2"], ["T", "L1"], ["L1", "T"], ["T", "L0"], ["L2", "L1"], ["T"]]
        for pps in ppss:
            for a in texts:
                for b in texts:
                    seqs.append((pps, [a, b], False))
        nexh = len(seqs) - ncorpus
        big = alphabet + ["\r\n", "z", "\t", "\n\n"]
        for _ in range(400 if ctx.quick else 4000):
            pps = rng.choice(ppss + [["L3"], ["T", "L2", "L1"]])
            ts = ["".join(rng.choice(big) for _ in range(rng.randint(0, 9))) for _ in range(rng.randint(3, 5))]
            seqs.append((pps, ts, rng.random() < 0.5))
        ctx.extra["limiter_domain"] = {"corpus": ncorpus, "exhaustive_two_file_sequences": nexh, "max_text_length": maxlen, "random_sequences": len(seqs) - ncorpus - nexh}
        ans = drv.ask([files_line(ppreset, p, t) for p, t, _ in seqs], timeout=1200)
        workdir = ctx.scratch / "gens"
        workdir.mkdir()
        G = RealGenerators(workdir)
        alone_cache = {}
        nfail = 0
        for (pps, ts, sup_first), a in zip(seqs, ans):
            g = G.start(pps)
            got = [g.write(t, via_support=(sup_first and i == 0)) for i, t in enumerate(ts)]
            m = [dec(x) for x in a.split("|")]
            ctx.traces += 1
            ctx.case(("files", tuple(pps), tuple(ts)), nontrivial=len(ts) >= 2 and any("\n" in t for t in ts))
            ctx.count("files_pps=" + ",".join(p[0] for p in pps))
            if sup_first:
                ctx.count("files_support_generator_first")
            if m != got:
                ctx.disagree("files", {"pps": pps, "texts": ts, "model_reset_per_file": ppreset}, m, got)
            # failing-input search: each file as written here vs written alone by fresh generators
            for i, t in enumerate(ts):
                k = (tuple(pps), t)
                if k not in alone_cache:
                    alone_cache[k] = G.start(pps).write(t)
                if got[i] != alone_cache[k]:
                    nfail += 1
                    if nfail <= 40:
                        ctx.fail({"kind": "limiter-carry-over", "level": "generator"},
                                 "the text written for a file depends on the files generated before it (empty-line count carried over)",
                                 {"pps": pps, "texts_in_order": ts, "index": i, "written": got[i], "written_alone": alone_cache[k]})
                    break
        ctx.count("files_sequences_with_carry_over", nfail)

    # ---- (b3) renderings aborted by an exception in the middle of a line, the caller carries on -------------------------------------
    if drv is not None:
        linebuf = bool(flags.get("linebuf", True))
        rcases = []
        small = ["", "\n", "y", "y\n", "ab", "a\nb", "\n\n", "a\r", "a\r\nb", " \n"]
        for pps in ([], ["T"], ["L1"], ["T", "L1"]):
            for a in small:
                for b in small[:6]:
                    rcases.append((pps, [a, b], "10"))
        for _ in range(60 if ctx.quick else 1500):
            n = rng.randint(2, 5)
            rcases.append((rng.choice([[], ["T"], ["L0"], ["L2"], ["T", "L1"], ["L1", "T"]]),
                           ["".join(rng.choice(["\n", "y", " ", "\r\n", "z", "\r"]) for _ in range(rng.randint(0, 7))) for _ in range(n)],
                           "".join(rng.choice("01") for _ in range(n))))
        lines = [f"renderings {1 if linebuf else 0} {1 if ppreset else 0} {','.join(p) if p else '-'} {','.join('0' for _ in p) if p else '-'} "
                 + "|".join(enc(t) for t in ts) + " " + ab for p, ts, ab in rcases]
        G3 = RealGenerators(ctx.scratch / "gens")
        nab = 0
        for (pps, ts, ab), a in zip(rcases, drv.ask(lines)):
            g = G3.start(pps)
            got = [g.write(t, via_support=(i % 2 == 1), aborted=(ab[i] == "1")) for i, t in enumerate(ts)]
            m = [dec(x) for x in a.split("|")] if a != "!" else []
            ctx.traces += 1
            ctx.case(("renderings", tuple(pps), tuple(ts), ab), nontrivial="1" in ab and any(t and not t.endswith("\n") for t in ts))
            ctx.count("renderings_sequences")
            if m != got:
                ctx.disagree("renderings", {"pps": pps, "texts": ts, "aborted": ab, "model_line_buffer_per_call": linebuf}, m, got)
            # the property on the implementation: a completed rendering vs the same rendering alone by fresh generators
            for i, t in enumerate(ts):
                if ab[i] == "0" and "1" in ab[:i]:
                    alone = G3.start(pps).write(t)
                    if got[i] != alone:
                        nab += 1
                        if nab <= 20:
                            ctx.fail({"kind": "aborted-rendering-leaks-into-next-file", "level": "generator"},
                                     "the text written for a file depends on an earlier rendering that was aborted by an exception",
                                     {"pps": pps, "texts_in_order": ts, "aborted": ab, "index": i, "written": got[i], "written_alone": alone})
                        break
        ctx.count("renderings_with_leak", nab)

    # ---- (b2) file post-processors: order of post-processing, command lines, permission bits (harness/filepp.py) ------------------
    filepp.run(ctx, drv)

    # ---- (c) memoisation ---------------------------------------------------------------------------------------------------------
    try:
        from nunavut.lang import LanguageContextBuilder
        toks = ["a", "int", "class", "_x", "9lives", "with space", "é", "", "register", "uint8_t", "Foo.Bar", "__dunder", "NULL", "def"]
        toks += ["".join(rng.choice("aZ_9 .-é") for _ in range(rng.randint(1, 8))) for _ in range(60 if ctx.quick else 600)]
        for lang in LANGS:
            lctx = LanguageContextBuilder(include_experimental_languages=True).set_target_language(lang).create()
            L = lctx.get_target_language()
            encoder = getattr(L, "_token_encoder", None)
            if encoder is None or not hasattr(type(encoder).strop, "__wrapped__"):
                ctx.count("memo_strop_not_memoised_" + lang)
                continue
            raw = type(encoder).strop.__wrapped__
            for t in toks:
                for ty in ("any", "path", "macro", "typedef"):
                    outs = []
                    for f in (lambda: encoder.strop(t, ty), lambda: encoder.strop(t, ty), lambda: raw(encoder, t, ty)):
                        try:
                            outs.append(("ok", f()))
                        except Exception as e:  # noqa
                            outs.append(("err", type(e).__name__))
                    ctx.traces += 1
                    ctx.count("memo_strop_compared")
                    if not (outs[0] == outs[1] == outs[2]):
                        ctx.fail({"kind": "memo-not-transparent", "function": "strop"}, "memoised strop differs from its body", {"lang": lang, "token": t, "type": ty, "results": outs})
    except Exception as e:  # noqa
        ctx.broken.append({"kind": "impl-call", "what": "memoisation tie", "error": repr(e)[:500]})

    # ---- (d) paired real runs ------------------------------------------------------------------------------------------------------
    import pydsdl
    inputs = shared.corpus_inputs(ctx) + shared.generated_inputs(ctx, 1 if ctx.quick else 3)
    if ctx.quick:
        inputs = [i for i in inputs if not i[0].startswith("corpus:") or i[0] == "corpus:vnet"]
    scratch = ctx.scratch
    (scratch / "cwd").mkdir()
    tpl_root = common.VERIF / "corpus" / "C10" / "templates"
    jobs, meta = [], {}
    snaps = {iname: pr.snapshot_input(root, lookups) for iname, root, lookups in inputs}
    nsub = 2 if ctx.quick else 3
    nopt = 2 if ctx.quick else 3
    for ii, (iname, root, lookups) in enumerate(inputs):
        types = pydsdl.read_namespace(str(root), [str(l) for l in lookups])
        names = [f"{t.full_name}.{t.version.major}.{t.version.minor}" for t in types]
        closure = dep_closure(types)
        other = inputs[(ii + 1) % len(inputs)] if len(inputs) > 1 else inputs[0]
        for lang in LANGS:
            variants = [(o, e, None) for o, e in OPTSETS[lang][:nopt]]
            variants.append(("user-templates+pp", ["--templates", str(tpl_root / lang), "--pp-max-emptylines", "1", "--pp-trim-trailing-whitespace"], "user"))
            if not ctx.quick:
                variants.append(("user-templates", ["--templates", str(tpl_root / lang)], "user"))
            for oname, extra, tset in variants:
                cfg = f"{ii}|{lang}|{oname}"

                def argv_for(inp, out, extra=extra, lang=lang, oname=oname):
                    _, r, lks = inp
                    a = ["--experimental-languages", "-l", lang, "-O", out]
                    for lk in lks:
                        a += ["-I", lk]
                    if oname == "pp-run-program":
                        # the recording program (logs every command line next to the output directory, edits every file it is given)
                        return a + filepp.cli_extra(out) + [r]
                    return a + list(extra) + [r]

                def add(variant, runs, compare_run, transform_kind, prelude=None, cfg=cfg, lang=lang, extra=extra, tset=tset, oname=oname):
                    name = f"j{len(jobs)}"
                    jobs.append({"name": name, "runs": runs, "hashseed": "0", "fake_time": 1.0e9, "fake_step": 0.0, "prelude": prelude})
                    meta[name] = {"cfg": cfg, "variant": variant, "compare_run": compare_run, "kind": transform_kind, "lang": lang,
                                  "extra": list(extra) if oname != "pp-run-program" else filepp.cli_extra(runs[compare_run]["out"]),
                                  "templates": tset or "builtin", "input": iname, "runs": runs, "oname": oname}

                out = lambda tag: scratch / "out" / f"{ii}_{lang}_{oname.replace('+', '_')}_{tag}"
                me = (iname, root, lookups)
                add("whole", [pr.make_run(argv_for(me, out("whole")), out("whole"), scratch / "cwd")], 0, "base")
                for k in range(nsub):
                    seeds = rng.sample(names, k=max(1, rng.randint(1, max(1, len(names) // 3))))
                    sub = sorted(set().union(*[closure[s] for s in seeds]))
                    if len(sub) == len(names):
                        sub = sorted(closure[rng.choice(names)])
                    add(f"subset{k}", [pr.make_run(argv_for(me, out(f"sub{k}")), out(f"sub{k}"), scratch / "cwd", {"subset": sub})], 0, "subset")
                for sp in [n_ for n_ in names if n_.rsplit(".", 3)[-3] in ("StropA", "StropB", "register", "_register")]:
                    sub = sorted(closure[sp])
                    tagn = "only_" + sp.rsplit(".", 3)[-3]
                    add(f"subset-{tagn}", [pr.make_run(argv_for(me, out(tagn)), out(tagn), scratch / "cwd", {"subset": sub})], 0, "subset")
                for k in range(nsub):
                    order = names[:]
                    rng.shuffle(order)
                    add(f"shuffle{k}", [pr.make_run(argv_for(me, out(f"shuf{k}")), out(f"shuf{k}"), scratch / "cwd", {"order": order})], 0, "shuffle")
                add("three-runs", [pr.make_run(argv_for(me, out(f"r3_{i}")), out(f"r3_{i}"), scratch / "cwd") for i in range(3)], 2, "history", prelude="uniq")
                add("after-other-namespace", [pr.make_run(argv_for(other, out("o_other")), out("o_other"), scratch / "cwd"),
                                              pr.make_run(argv_for(me, out("o_me")), out("o_me"), scratch / "cwd")], 1, "history", prelude="uniq")
                if tset is None and not ctx.quick:
                    ol = LANGS[(LANGS.index(lang) + 1) % 4]
                    add("after-other-language",
                        [pr.make_run(["--experimental-languages", "-l", ol, "-O", out("ol_other")] + [x for lk in lookups for x in ("-I", lk)] + [root], out("ol_other"), scratch / "cwd"),
                         pr.make_run(argv_for(me, out("ol_me")), out("ol_me"), scratch / "cwd")], 1, "history")
    # ---- sequences of runs in ONE interpreter whose language configuration / options differ, every run against the same run in
    #      a fresh interpreter (identifiers that need stropping: corpus type vnet.Keywords, field `register`, `class`, ...) -----------
    cfgd = common.VERIF / "corpus" / "C10" / "config"
    SEQ = {
        "c": [("strop-prefix", ["--configuration", cfgd / "strop_prefix.yaml"]), ("default", []), ("strop-suffix", ["--configuration", cfgd / "strop_suffix.yaml"]),
              ("big-endian-c11", ["--target-endianness", "big", "--language-standard", "c11"]), ("asserts", ["--enable-serialization-asserts"])],
        "cpp": [("strop-prefix", ["--configuration", cfgd / "strop_prefix.yaml"]), ("default", []), ("strop-suffix", ["--configuration", cfgd / "strop_suffix.yaml"]),
                ("c++17-pmr", ["--language-standard", "c++17-pmr"]), ("asserts-big", ["--enable-serialization-asserts", "--target-endianness", "big"])],
        "py": [("strop-prefix", ["--configuration", cfgd / "strop_prefix.yaml"]), ("default", []), ("strop-suffix", ["--configuration", cfgd / "strop_suffix.yaml"]),
               ("ext", ["--output-extension", ".pyi"])],
        "html": [("default", []), ("ext", ["--output-extension", ".htm"]), ("pp", ["--pp-max-emptylines", "1", "--pp-trim-trailing-whitespace"])],
    }
    seq_jobs, seq_meta = [], {}
    for ii, (iname, root, lookups) in enumerate(inputs if not ctx.quick else inputs[:1]):
        for lang in LANGS:
            V = SEQ[lang]

            def sargv(extra, out, lang=lang, root=root, lookups=lookups):
                return ["--experimental-languages", "-l", lang, "-O", out, root] + [x for lk in lookups for x in ("-I", lk)] + list(extra)

            fresh = {}
            for vi, (vn, extra) in enumerate(V):
                out = scratch / "seq" / f"{ii}_{lang}_fresh_{vi}"
                name = f"s{len(seq_jobs)}"
                seq_jobs.append({"name": name, "runs": [pr.make_run(sargv(extra, out), out, scratch / "cwd")], "hashseed": "0", "fake_time": 1.0e9, "fake_step": 0.0})
                fresh[vi] = name
            orders = [list(range(len(V))), list(reversed(range(len(V))))]
            perm = list(range(len(V))); rng.shuffle(perm); orders.append(perm)
            for oi, order in enumerate(orders[: 2 if ctx.quick else 3]):
                runs = []
                for pos, vi in enumerate(order):
                    out = scratch / "seq" / f"{ii}_{lang}_seq{oi}_{pos}"
                    runs.append(pr.make_run(sargv(V[vi][1], out), out, scratch / "cwd"))
                name = f"s{len(seq_jobs)}"
                seq_jobs.append({"name": name, "runs": runs, "hashseed": "0", "fake_time": 1.0e9, "fake_step": 0.0})
                seq_meta[name] = {"input": iname, "lang": lang, "order": order, "fresh": dict(fresh), "runs": runs, "variants": [v[0] for v in V],
                                  "options": [[str(x) for x in v[1]] for v in V]}
    ctx.extra["paired_jobs"] = len(jobs) + len(seq_jobs)
    results = pr.exec_jobs(common.REPO / "src", scratch, jobs + seq_jobs, max_workers=14)
    seq_fresh_jobs = {j["name"]: j for j in seq_jobs}
    for name, sm in sorted(seq_meta.items(), key=lambda kv: int(kv[0][1:])):
        res = results[name]
        if isinstance(res, Exception):
            ctx.broken.append({"kind": "paired-run-worker", "job": f"sequence {sm['lang']} {sm['order']}", "error": str(res)[:600]})
            continue
        for pos, vi in enumerate(sm["order"]):
            fr = results[sm["fresh"][vi]]
            if isinstance(fr, Exception):
                ctx.broken.append({"kind": "paired-run-worker", "job": f"fresh {sm['lang']} {vi}", "error": str(fr)[:600]})
                continue
            fr, rr = fr[0], res[pos]
            ctx.case(("seq", sm["input"], sm["lang"], tuple(sm["order"]), pos), nontrivial=pos > 0)
            ctx.count("sequence_runs_compared")
            ctx.count("sequence_files_compared", len(fr["files"]))
            if model is not None:
                ctx.traces += 1
            rpbase = {"input": sm["input"], "lang": sm["lang"], "runs_in_interpreter": [sm["variants"][v] for v in sm["order"]],
                      "options_of_runs": [sm["options"][v] for v in sm["order"]], "position": pos, "variant": sm["variants"][vi]}
            if bool(fr["error"]) != bool(rr["error"]):
                ctx.fail({"kind": "run-outcome-depends-on-history", "lang": sm["lang"], "variant": "config-sequence"},
                         "a run fails in a fresh process and succeeds after other runs (or the other way round)",
                         {**rpbase, "fresh_error": str(fr["error"])[:300], "in_sequence_error": str(rr["error"])[:300]})
                continue
            if fr["error"]:
                ctx.count("sequence_variant_error_both")
                continue
            d = pr.compare(fr["files"], rr["files"])
            if d:
                rel = d[0]
                fo = pathlib.Path(seq_fresh_jobs[sm["fresh"][vi]]["runs"][0]["out"])
                so = pathlib.Path(sm["runs"][pos]["out"])
                where, dl = shared.where_of_diff(sm["lang"], fo / rel, so / rel)
                if model is not None and flags.get("cachedprop", True):
                    ctx.disagree("config-sequence", {**rpbase, "file": rel, "first_differing_line": dl}, "equal (caches are per instance / transparent)", "files differ")
                ctx.fail({"kind": "run-in-sequence-differs-from-fresh-process", "lang": sm["lang"], "file_kind": pr.file_kind(sm["lang"], rel), "where": where},
                         f"{sm['lang']}: run {pos + 1} ({sm['variants'][vi]}) of a sequence of runs with different language configuration in one interpreter wrote "
                         f"different bytes for {rel} than the same run in a fresh interpreter",
                         {**rpbase, "file": rel, "n_differing_files": len(d), "first_differing_line": dl, "sha256": [fr["files"].get(rel), rr["files"].get(rel)]})
                ctx.sample({"sequence": rpbase["runs_in_interpreter"], "position": pos, "differs": rel})
    bases = {m["cfg"]: n for n, m in meta.items() if m["variant"] == "whole"}
    first_lines_checked = 0
    for name, m in sorted(meta.items(), key=lambda kv: int(kv[0][1:])):
        res = results[name]
        bres = results[bases[m["cfg"]]]
        if isinstance(res, Exception) or isinstance(bres, Exception):
            ctx.broken.append({"kind": "paired-run-worker", "job": m["cfg"] + "|" + m["variant"], "error": str(res if isinstance(res, Exception) else bres)[:600]})
            continue
        b0 = bres[0]
        if m.get("oname") == "pp-run-program":
            # the log of the recording program: one invocation per generated file, with that file only
            for ri, rr in enumerate(res):
                if not rr["error"] and (m["variant"] != "after-other-language" or ri == m["compare_run"]):
                    filepp.check_cli_log(ctx, drv, m["lang"], m["runs"][ri]["out"], rr["files"], common.PY, label=f"{m['cfg']}|{m['variant']}|run{ri}")
        if m["variant"] == "whole":
            if b0["error"]:
                ctx.count("base_run_error")
                ctx.extra.setdefault("base_run_errors", []).append({"cfg": m["cfg"], "error": b0["error"][:300]})
            elif model is not None and m["templates"] == "builtin":
                # tie of the root table: every generated file starts with the first line the translator read off its root template
                firsts = {(r["first"] or "") for r in info["langs"][m["lang"]]["roots"] if r["first"] is not None}
                outdir = pathlib.Path(m["runs"][0]["out"])
                for rel in b0["files"]:
                    raw = (outdir / rel).read_text(encoding="utf-8", errors="replace")
                    line1 = raw.split("\n", 1)[0]
                    ok = any((f.endswith("\n") and f[:-1].rstrip() == line1.rstrip()) or (not f.endswith("\n") and line1.startswith(f.rstrip()) and (f != "" or raw == ""))
                             for f in firsts)
                    first_lines_checked += 1
                    ctx.traces += 1
                    if not ok:
                        ctx.disagree("root-first-line", {"lang": m["lang"], "file": rel, "first_line": line1[:100]}, sorted(firsts)[:6], line1[:100])
            continue
        if m["variant"] == "three-runs":
            # the same run three times in one interpreter (after a prelude that used the name generator): all three must agree
            ok_runs = [x for x in res if not x["error"]]
            ctx.count("three_runs_compared")
            if len(ok_runs) not in (0, len(res)):
                ctx.fail({"kind": "run-outcome-depends-on-history", "lang": m["lang"], "variant": "three-runs"},
                         "the same run succeeds or fails depending on earlier runs in the interpreter",
                         {"cfg": m["cfg"], "errors": [str(x["error"])[:300] for x in res]})
            if ok_runs and not b0["error"]:
                # first run of the polluted interpreter vs the same run in a fresh interpreter
                d0 = pr.compare(b0["files"], ok_runs[0]["files"])
                if d0 and not (m["lang"] == "py" and False):
                    rel = d0[0]
                    where, d = shared.where_of_diff(m["lang"], pathlib.Path(meta[bases[m["cfg"]]]["runs"][0]["out"]) / rel, pathlib.Path(m["runs"][0]["out"]) / rel)
                    ctx.fail({"kind": "first-run-in-used-interpreter-differs-from-fresh-process", "lang": m["lang"], "templates": m["templates"],
                              "file_kind": pr.file_kind(m["lang"], rel), "where": where},
                             f"{m['lang']}: {rel} written by the first generator run of an interpreter that used the name generator before differs from a fresh process ({where})",
                             {"input": m["input"], "lang": m["lang"], "options": m["extra"], "file": rel, "first_differing_line": d, "prelude": "uniq"})
            for i in range(len(ok_runs) - 1):
                d3 = pr.compare(ok_runs[i]["files"], ok_runs[i + 1]["files"])
                if d3:
                    rel = d3[0]
                    where, d = shared.where_of_diff(m["lang"], pathlib.Path(m["runs"][i]["out"]) / rel, pathlib.Path(m["runs"][i + 1]["out"]) / rel)
                    ctx.fail({"kind": "consecutive-identical-runs-differ", "lang": m["lang"], "templates": m["templates"], "file_kind": pr.file_kind(m["lang"], rel), "where": where},
                             f"run {i + 1} and run {i + 2} of the same generation in one interpreter wrote different bytes for {rel} ({where})",
                             {"input": m["input"], "lang": m["lang"], "options": m["extra"], "file": rel, "first_differing_line": d, "prelude": "uniq"})
                    break
        if bool(b0["error"]) != bool(res[m["compare_run"]]["error"]):
            ctx.fail({"kind": "run-outcome-depends-on-history", "lang": m["lang"], "variant": m["kind"]},
                     "a run fails alone in a fresh process and succeeds in another history (or the other way round)",
                     {"cfg": m["cfg"], "variant": m["variant"], "alone_error": str(b0["error"])[:300], "variant_error": str(res[m["compare_run"]]["error"])[:300]})
            continue
        if b0["error"]:
            continue
        r = res[m["compare_run"]]
        if r["error"]:
            ctx.fail({"kind": "run-outcome-depends-on-history", "lang": m["lang"], "variant": m["kind"]}, "a run that succeeds alone fails in another company/order/history",
                     {"meta": {k: str(v)[:300] for k, v in m.items() if k != "runs"}, "error": r["error"][:500]})
            continue
        common_files = sorted(set(b0["files"]) & set(r["files"]))
        type_files = [f for f in common_files if pr.file_kind(m["lang"], f) == "type"]
        other_files = [f for f in common_files if pr.file_kind(m["lang"], f) != "type"]
        ctx.case((m["cfg"], m["variant"]), nontrivial=True)
        ctx.count("pairs_" + m["kind"])
        ctx.count("type_files_compared", len(type_files))
        base_out = pathlib.Path(meta[bases[m["cfg"]]]["runs"][0]["out"])
        this_out = pathlib.Path(m["runs"][m["compare_run"]]["out"])
        # model prediction for per-type files
        may, why = False, []
        if model is not None:
            for l in model.dirty(m["lang"], "type", C10_CLASSES) if m["templates"] == "builtin" else []:
                may = True; why.append(f"{l['file']}:{l['line']} {l['effective']}")
            lim = shared.limiter_on(m["lang"], m["extra"]) and not ppreset
            if lim and m["kind"] in ("subset", "shuffle"):
                if m["templates"] == "user":
                    may = True; why.append("user template begins and ends with empty lines; empty-line counter carried between files")
            if m["templates"] == "user" and not flags.get("uniqreset", True):
                may = True; why.append("unique-name generator not reset per file")
            ctx.traces += 1
        diffs = [f for f in type_files if b0["files"][f] != r["files"][f]]
        if m["kind"] != "subset":
            missing = sorted(set(b0["files"]) ^ set(r["files"]))
            if missing:
                ctx.fail({"kind": "file-set-depends-on-history", "lang": m["lang"], "variant": m["kind"]}, "the set of generated paths differs",
                         {"cfg": m["cfg"], "variant": m["variant"], "paths": missing[:10]})
        if diffs:
            rel = diffs[0]
            where, d = shared.where_of_diff(m["lang"], base_out / rel, this_out / rel)
            if where == "pickled-model-literal":
                # the known classes must not hide a differing file whose literals disagree about something else
                for r2 in diffs[1:]:
                    w2, d2 = shared.where_of_diff(m["lang"], base_out / r2, this_out / r2)
                    if w2 != "pickled-model-literal":
                        rel, where, d = r2, w2, d2
                        break
            rp = {"input": m["input"], "dsdl": snaps.get(m["input"]) if len(m["runs"]) == 1 else None, "lang": m["lang"], "options": m["extra"], "variant": m["variant"],
                  "transform": m["runs"][m["compare_run"]].get("transform"),
                  "n_runs_in_interpreter": len(m["runs"]), "file": rel, "n_differing_type_files": len(diffs), "first_differing_line": d,
                  "sha256": [b0["files"][rel], r["files"][rel]], "model_explanation": why}
            if model is not None and not may:
                ctx.disagree("paired-run", {k: rp[k] for k in ("input", "lang", "options", "variant", "file", "first_differing_line")}, "equal", "type files differ")
            kind = "limiter-carry-over" if where == "empty-lines" else "per-type-output-depends-on-company-order-or-history"
            ctx.fail({"kind": kind, "level": "cli", "lang": m["lang"], "templates": m["templates"], "file_kind": "type", "where": where},
                     f"{m['lang']} type file {rel} differs between the whole namespace alone and variant {m['variant']} ({where})", rp)
            ctx.sample({"differs": rel, "lang": m["lang"], "variant": m["variant"], "where": where})
        elif may:
            ctx.count("model_may_differ_but_equal")
        # namespace-level / support files: same company (shuffle, history) => compared; member order is not part of C10
        if m["kind"] != "subset":
            for rel in other_files:
                if b0["files"][rel] != r["files"][rel]:
                    where, d = shared.where_of_diff(m["lang"], base_out / rel, this_out / rel)
                    fk = pr.file_kind(m["lang"], rel)
                    if where == "empty-lines":
                        lim = shared.limiter_on(m["lang"], m["extra"]) and not ppreset
                        if model is not None and not (lim and model.limiter_leak_possible(m["lang"])) and m["templates"] == "builtin":
                            ctx.disagree("paired-run", {"lang": m["lang"], "file": rel, "variant": m["variant"], "line": d}, "equal", "differs in empty lines")
                        ctx.fail({"kind": "limiter-carry-over", "level": "cli", "lang": m["lang"], "templates": m["templates"], "file_kind": fk, "where": where},
                                 f"{m['lang']} {fk} file {rel} gains/loses empty lines depending on the files generated before it (variant {m['variant']})",
                                 {"input": m["input"], "dsdl": snaps.get(m["input"]) if len(m["runs"]) == 1 else None, "lang": m["lang"], "options": m["extra"],
                                  "variant": m["variant"], "transform": m["runs"][m["compare_run"]].get("transform"), "file": rel, "first_differing_line": d})
                        break
                    elif m["kind"] == "shuffle" and fk == "namespace":
                        ctx.count("namespace_file_follows_input_order")
                    else:
                        ctx.fail({"kind": "non-type-file-depends-on-" + m["kind"], "lang": m["lang"], "templates": m["templates"], "file_kind": fk, "where": where},
                                 f"{m['lang']} {fk} file {rel} differs (variant {m['variant']}, {where})",
                                 {"input": m["input"], "lang": m["lang"], "options": m["extra"], "variant": m["variant"], "file": rel, "first_differing_line": d})
                        break
    ctx.extra["root_first_lines_checked"] = first_lines_checked
    shared.run_histories(ctx, model, {"kind": "per-type-output-depends-on-company-order-or-history", "lang": "py", "file_kind": "type", "where": "pickled-model-literal",
                                      "level": "history", "templates": "builtin"})
    shared.run_cross_process(ctx, model, LANGS)
    ctx.sample({"paired_jobs": len(jobs), "inputs": [i[0] for i in inputs]})


def replay(ctx, path):
    r = json.loads(open(path).read())
    rp = r.get("replay", {})
    if "texts_in_order" in rp:
        G = RealGenerators(ctx.scratch)
        g = G.start(rp["pps"])
        ab = rp.get("aborted") or "0" * len(rp["texts_in_order"])
        got = [g.write(t, aborted=(ab[i] == "1")) for i, t in enumerate(rp["texts_in_order"])]
        alone = G.start(rp["pps"]).write(rp["texts_in_order"][rp["index"]])
        print(json.dumps({"written_in_sequence": got[rp["index"]], "written_alone": alone}))
        ctx.cleanup()
        return 1 if got[rp["index"]] != alone else 0
    if rp.get("dsdl"):
        # whole namespace alone vs the recorded subset / order, each in a fresh interpreter
        scratch = ctx.scratch
        root, lks = pr.restore_input(rp["dsdl"], scratch / "in")
        (scratch / "cwd").mkdir()
        jobs, outs = [], {}
        for side, tr in (("whole", None), ("variant", rp.get("transform"))):
            out = scratch / f"out_{side}"
            argv = ["--experimental-languages", "-l", rp["lang"], "-O", out] + [x for l in lks for x in ("-I", l)] + list(rp["options"]) + [root]
            jobs.append({"name": side, "runs": [pr.make_run(argv, out, scratch / "cwd", tr)], "hashseed": "0", "fake_time": 1.0e9, "fake_step": 0.0})
            outs[side] = out
        res = pr.exec_jobs(common.REPO / "src", scratch, jobs)
        a, b = res["whole"][0], res["variant"][0]
        differs = a["files"].get(rp["file"]) != b["files"].get(rp["file"])
        print(json.dumps({"file": rp["file"], "differs": differs, "first_differing_line": pr.first_diff(outs["whole"] / rp["file"], outs["variant"] / rp["file"]),
                          "errors": [a["error"], b["error"]]}, indent=1))
        ctx.cleanup()
        return 1 if differs else 0
    print(json.dumps({"note": "re-run ./check C10 with the same seed; the pair is described by the replay record", "replay": {k: v for k, v in rp.items() if k != "dsdl"}}, indent=1)[:3000])
    ctx.cleanup()
    return 1
