"""
Tie of the implementation-shaped Lean model of the generated Python codecs (lean/NunavutVerif/Model/GenPy.lean,
theorems in Properties/C01RefinePy.lean, driver `genpy`) to the REAL generated Python code and to the specification
driver `codec`.  Called from harness/c01.py and c02.py after their own run:

    from . import genpy_tie
    genpy_tie.run_genpy(ctx, drivers)        # drivers: {"codec": Driver, "genpy": Driver} (missing ones are built here)

Three comparisons, all on the namespace / generated package of the shared codec session (codec_engine.get_session):

1. dynamic, serialization: the same `ser <T> <V>` request lines to `genpy` (answers from `serializePy stdEnv`), to
   `codec` (specification) and to the generated classes.  The generated code is driven by a worker of its own (below)
   that — unlike codec_pyworker.py, whose objects only exist if the setters accept them — also builds the objects the
   *serializer* has to refuse: an over-long variable array is put into the private attribute behind the setter
   (-> the emitted `assert len(x) <= cap`), a union with an invalid option index gets every attribute `None`
   (-> `RuntimeError('Malformed union')`).  Compared: bytes; exception class (`exc:assertion` <-> AssertionError <->
   err:bad-array-length, `exc:malformed-union` <-> RuntimeError <-> err:bad-union-tag).  Values outside the model's
   domain `inDom` (scalars outside the DSDL range, which no generated object can hold) are counted, not compared.
2. dynamic, deserialization: `de <T> <hex>` to `genpy` (`deserializePy stdEnv`), `codec`, and the generated
   `Cls._deserialize_(Deserializer.new(...))` called directly, so that the *consumed size*
   (`min(consumed_bit_length, 8*len)`, which `deserialize()` does not return) and the *raise site* of a
   `FormatError` (from its message) are observable and compared with the model's.
3. structural: for every generated class the sequence of `Serializer` / `Deserializer` methods in the text of its
   `_serialize_` / `_deserialize_` (regex scan, in textual order) against `genpy`'s `trace <T>`, i.e. against the
   method family the model selects for the same field with its own alignment analysis `lenRes`: a difference means
   the model does not transcribe the emitted code (or PyDSDL's BitLengthSet and `lenRes` disagree).

Any difference is `ctx.disagree` (a broken tie).  Counts: ctx.traces per three-way comparison, ctx.count per outcome.
"""
import json
import os
import pathlib
import re
import subprocess
import sys

from . import common
from . import codec_engine as E
from . import codec_targets as T

HERE = pathlib.Path(__file__).resolve().parent

WORKER = r'''
import json, sys
HARNESS = sys.argv[2]
sys.path.insert(0, HARNESS)
import warnings
warnings.simplefilter("ignore")
import numpy as np
import nunavut_support as S
import codec_pyworker as W


def skip(toks, pos):
    """skip one well-bracketed value"""
    depth = 0
    while True:
        t = toks[pos]
        pos += 1
        if t in "[{<":
            depth += 1
        elif t in "]}>":
            depth -= 1
        if depth == 0:
            return pos


class Long:
    """an array value longer than its capacity: what the constructor gets and what ends up behind the setter"""
    def __init__(self, full, cap):
        self.full, self.cap = full, cap


def patch(obj, name, x):
    cur = getattr(obj, name)
    full = np.empty(len(x.full), dtype=cur.dtype)
    for i, e in enumerate(x.full):
        full[i] = e
    setattr(obj, "_" + name, full)


def build2(node, toks, pos, in_array=False):
    k = node["k"]
    if k in "al":
        assert toks[pos] == "["
        pos += 1
        out = []
        while toks[pos] != "]":
            x, pos = build2(node["el"], toks, pos, in_array=True)
            if isinstance(x, Long):
                raise W.NotApplicable()          # arrays of arrays do not exist in DSDL
            out.append(x)
        pos += 1
        if k == "a" and len(out) != node["cap"]:
            raise W.NotApplicable()
        if k == "l" and len(out) > node["cap"]:
            return Long(out, node["cap"]), pos
        return out, pos
    if k == "s":
        assert toks[pos] == "{"
        pos += 1
        kw, late = {}, []
        for name, fn in node["fields"]:
            x, pos = build2(fn, toks, pos)
            if name is None:
                continue
            if isinstance(x, Long):
                late.append((name, x))
                x = x.full[:x.cap]
            kw[name] = x
        assert toks[pos] == "}"
        obj = W.get_cls(node["cls"])(**kw)
        for name, x in late:
            patch(obj, name, x)
        return obj, pos + 1
    if k == "n":
        assert toks[pos] == "<"
        kk = int(toks[pos + 1])
        cls = W.get_cls(node["cls"])
        if not 0 <= kk < len(node["fields"]):
            pos = skip(toks, pos + 2)
            assert toks[pos] == ">"
            obj = cls()
            setattr(obj, "_" + node["fields"][0][0], None)      # no attribute set: 'Malformed union'
            return obj, pos + 1
        name, fn = node["fields"][kk]
        x, pos = build2(fn, toks, pos + 2)
        assert toks[pos] == ">"
        if isinstance(x, Long):
            obj = cls(**{name: x.full[:x.cap]})
            patch(obj, name, x)
        else:
            obj = cls(**{name: x})
        return obj, pos + 1
    return W.build(node, toks, pos, in_array)


def site(msg):
    if "Variable array length prefix" in msg:
        return "bad-array-length"
    if "Union tag value" in msg:
        return "bad-union-tag"
    if "Delimiter header" in msg:
        return "bad-delimiter-header"
    return "?" + msg[:60]


def handle(types, line):
    op, idx, rest = (line.split(" ", 2) + ["", ""])[:3]
    t = types[int(idx)]
    cls = W.get_cls(t["cls"])
    try:
        if op == "ser":
            obj = build2(t["node"], W.tokens(rest), 0)[0]
            try:
                data = b"".join(bytes(f) for f in S.serialize(obj))
            except AssertionError:
                return "exc:AssertionError"
            except RuntimeError:
                return "exc:RuntimeError"
            return "ok " + (data.hex() or "-")
        if op == "de":
            data = b"" if rest == "-" else bytes.fromhex(rest)
            d = S.Deserializer.new([memoryview(bytearray(data))])
            try:
                obj = cls._deserialize_(d)
            except S.Deserializer.FormatError as ex:
                return "none:" + site(str(ex))
            out = []
            W.dump(t["node"], obj, out)
            consumed = min(d.consumed_bit_length, len(data) * 8)
            return "ok " + W.join(out) + " " + str((consumed + 7) // 8)
        return "err:bad-op"
    except W.NotApplicable:
        return "n/a"
    except Exception as ex:  # noqa
        return "exc:" + type(ex).__name__ + ":" + str(ex)[:120].replace("\n", " ")


def main():
    types = json.load(open(sys.argv[1]))
    sys.stdout.write("ready\n")
    sys.stdout.flush()
    for line in sys.stdin:
        sys.stdout.write(handle(types, line.rstrip("\n")) + "\n")
        sys.stdout.flush()


main()
'''


class _Worker(T._PyWorker):
    """codec_targets._PyWorker with the script above (same process protocol: 'ready', then one answer per line)."""

    def __init__(self, outdir, numpy_dir, script):
        super().__init__(outdir, numpy_dir)
        self.script = script

    def _start(self):
        env = dict(os.environ)
        env["PYTHONPATH"] = os.pathsep.join([str(self.outdir / "gen")] + ([self.numpy_dir] if self.numpy_dir else []))
        env["PYTHONDONTWRITEBYTECODE"] = "1"
        self.proc = subprocess.Popen([common.PY, str(self.script), str(self.outdir / "types.json"), str(HERE)],
                                     stdin=subprocess.PIPE, stdout=subprocess.PIPE, stderr=subprocess.PIPE, env=env, text=True, bufsize=1)
        first = self.proc.stdout.readline().strip()
        if first != "ready":
            err = self.proc.stderr.read()[-2000:]
            self.proc = None
            raise RuntimeError("genpy tie worker did not start: " + err)


# ------------------------------------------------------------------------------------------------------------
# structural tie: method sequence in the generated text
# ------------------------------------------------------------------------------------------------------------

_TOK = re.compile(r"(_ser_|_nested_|_des_)\.(\w+)\(|\.(_serialize_|_deserialize_)\(")


def _methods(body):
    out = []
    for m in _TOK.finditer(body):
        if m.group(3):
            out.append("call")
        elif m.group(1) == "_nested_":
            out.append("nested." + m.group(2))
        else:
            out.append(m.group(2))
    return out


def text_trace(gen_dir, gt):
    """(serializer methods, deserializer methods) of the class generated for gt, from the generated source text."""
    mod = T._py_cls_path(gt.model).split(":")[0]
    src = (pathlib.Path(gen_dir) / (mod.replace(".", "/") + ".py")).read_text()
    sers = [m.start() for m in re.finditer(r"^\s+def _serialize_\(self", src, re.M)]
    which = {"message": 0, "request": 0, "response": 1}[gt.role]
    if len(sers) <= which:
        raise RuntimeError(f"no _serialize_ #{which} in {mod}")
    a = sers[which]
    b = src.index("def _deserialize_(", a)
    c = src.index("def __repr__", b)
    return _methods(src[a:b].split("\n", 1)[1]), _methods(src[b:c].split("\n", 1)[1])


# ------------------------------------------------------------------------------------------------------------
# outcome classes
# ------------------------------------------------------------------------------------------------------------

_SER_MAP = {"exc:assertion": ("exc:AssertionError", "err:bad-array-length"),
            "exc:malformed-union": ("exc:RuntimeError", "err:bad-union-tag")}


def _ser_agree(g, p, s):
    """genpy answer g, generated Python p, specification s  ->  (agree, class)"""
    if p == "n/a":
        return True, "outside-domain"
    if g.startswith("ok "):
        return g == p == s, "bytes"
    if g in _SER_MAP:
        return (p, s) == _SER_MAP[g], g[4:]
    return False, "other"


def _de_agree(g, p, s):
    if g.startswith("ok "):
        return g == p == s, "value"
    if g.startswith("none:"):
        return p == g and s == "err:" + g[5:], g
    return False, "other"


def _driver(ctx, drivers, name):
    d = (drivers or {}).get(name) if isinstance(drivers, dict) else None
    if d is not None:
        return d
    exe = common.LEAN / ".lake" / "build" / "bin" / name
    ok, log = ctx.lake([name])
    if not ok:
        ctx.broken.append({"kind": "driver-build", "exes": [name], "log_tail": log[-2000:]})
        return None
    return common.Driver(exe)


def run_genpy(ctx, drivers=None, n_values=None, n_bytes=None):
    genpy = _driver(ctx, drivers, "genpy")
    codec = _driver(ctx, drivers, "codec")
    if genpy is None or codec is None:
        return
    sess = E.get_session(ctx)
    py = next((t for t in sess.targets if isinstance(t, T.PyTarget)), None)
    if py is None:
        ctx.broken.append({"kind": "genpy-tie", "what": "the Python target of the codec session was not built"})
        return
    script = ctx.scratch / "genpy_pyworker.py"
    script.write_text(WORKER)
    rng = ctx.rng
    nv = n_values or (30 if ctx.quick else 80)
    kb, rb = n_bytes or ((4, 12) if ctx.quick else (8, 30))
    reqs = []
    for gt in sess.ns.types:
        if ctx.prop != "C02":
            for v in E.value_cases(rng, gt, nv, p_invalid=0.08):
                reqs.append(E.Req(gt, "ser", v))
        if ctx.prop != "C01":
            for b in E.bytes_cases(rng, gt, kb, rb):
                reqs.append(E.Req(gt, "de", b))
    model_lines = [r.model_lines()[0] for r in reqs]
    a_gen = genpy.ask(model_lines, timeout=1800)
    a_spec = codec.ask(model_lines, timeout=1800)
    workers = [_Worker(py.outdir, py.numpy_dir, script) for _ in range(4)]
    try:
        import concurrent.futures
        lines = [r.target_line() for r in reqs]
        k = min(len(workers), max(1, len(lines) // 50))
        shares = [list(range(i, len(lines), k)) for i in range(k)]
        a_py = [None] * len(lines)
        with concurrent.futures.ThreadPoolExecutor(max_workers=k) as ex:
            futs = [ex.submit(workers[i].ask, [lines[j] for j in shares[i]]) for i in range(k)]
            for idxs, f in zip(shares, futs):
                for j, a in zip(idxs, f.result()):
                    a_py[j] = a
    finally:
        for w in workers:
            w.close()
    for r, ml, g, p, s in zip(reqs, model_lines, a_gen, a_py, a_spec):
        ok, cls = (_ser_agree if r.op == "ser" else _de_agree)(g, p, s)
        ctx.count(f"genpy:{r.op}:{cls}")
        ctx.case(("genpy", r.gt.tstr, r.op, r.text), nontrivial=(r.text not in ("{}", "-")))
        if cls != "outside-domain":
            ctx.traces += 1
        if not ok:
            ctx.disagree("genpy-" + r.op, {"type": r.gt.full_name, "request": ml[:2000]},
                         {"genpy": g[:1500], "spec": s[:1500]}, {"generated-python": (p or "")[:1500]})
    # structural tie
    t_ans = genpy.ask(["trace " + gt.tstr for gt in sess.ns.types], timeout=600)
    for gt, a in zip(sess.ns.types, t_ans):
        try:
            ts, td = text_trace(py.outdir / "gen", gt)
        except Exception as ex:  # noqa
            ctx.broken.append({"kind": "genpy-tie", "what": f"cannot scan generated text of {gt.full_name}: {ex}"})
            continue
        want = "ok " + " ".join(ts) + " | " + " ".join(td)
        ctx.count("genpy:trace")
        ctx.count("genpy:trace-methods", len(ts) + len(td))
        ctx.traces += 1
        if a != want:
            ctx.disagree("genpy-trace", {"type": gt.full_name, "expr": gt.tstr[:2000]}, {"genpy": a[:3000]},
                         {"generated-text": want[:3000]})
    ctx.sample({"genpy_tie": {"requests": len(reqs), "classes": len(sess.ns.types)}})
