"""
Tie of the implementation-shaped Lean model of the generated Python codecs (lean/NunavutVerif/Model/GenPy.lean,
theorems in Properties/C01RefinePy.lean, driver `genpy`) to the REAL generated Python code and to the specification
driver `codec`.  Called from harness/c01.py and c02.py after their own run:

    from . import genpy_tie
    genpy_tie.run_genpy(ctx, drivers)        # drivers: {"codec": Driver, "genpy": Driver} (missing ones are built here)

Three comparisons, all on the namespace / generated package of the shared codec session (codec_engine.get_session):

1. dynamic, serialization: the same `ser <T> <V>` request lines to `genpy` (answers from `serializePy stdEnv`), to
   `codec` (specification) and to the generated classes.  The generated code is driven by a worker of its own (below)
   that — unlike codec_pyworker.py, whose objects only exist if the setters accept them — also builds the objects the
   *serializer* has to refuse: an over-long variable array is put into the private attribute behind the setter
   (-> the emitted `assert len(x) <= cap`), a union with an invalid option index gets every attribute `None`
   (-> `RuntimeError('Malformed union')`).  Compared: bytes; exception class (`exc:assertion` <-> AssertionError <->
   err:bad-array-length, `exc:malformed-union` <-> RuntimeError <-> err:bad-union-tag).  Values outside the model's
   domain `inDom` (scalars outside the DSDL range, which no generated object can hold) are counted, not compared.
2. dynamic, deserialization: `de <T> <hex>` to `genpy` (`deserializePy stdEnv`), `codec`, and the generated
   `Cls._deserialize_(Deserializer.new(...))` called directly, so that the *consumed size*
   (`min(consumed_bit_length, 8*len)`, which `deserialize()` does not return) and the *raise site* of a
   `FormatError` (from its message) are observable and compared with the model's.
3. structural: for every generated class the sequence of `Serializer` / `Deserializer` methods in the text of its
   `_serialize_` / `_deserialize_` (regex scan, in textual order) against `genpy`'s `trace <T>`, i.e. against the
   method family the model selects for the same field with its own alignment analysis `lenRes`: a difference means
   the model does not transcribe the emitted code (or PyDSDL's BitLengthSet and `lenRes` disagree).

Any difference is `ctx.disagree` (a broken tie).  Counts: ctx.traces per three-way comparison, ctx.count per outcome.

Bounds (the Lean model works on lists: a buffer access is linear in the index, so a type of tens of kilobytes costs
seconds per request): types whose largest representation exceeds LIMIT_BYTES are not sent to `genpy` (counted
`skipped-large`; they stay in the specification-level tie of c01/c02 and in the structural scan here; the driver
itself answers `skipped-large` above its own limit, so no single request can run for long); requests go out in
round-robin batches, every driver / worker call has a timeout (a hanging worker is killed), and after the wall budget
(quick 30 s, thorough 300 s; VERIF_GENPY_BUDGET overrides) the remaining requests are counted `skipped-budget`.
All of it is recorded in ctx.extra["genpy_tie"].
"""
import concurrent.futures
import json
import os
import pathlib
import re
import subprocess
import sys
import time

from . import common
from . import codec_engine as E
from . import codec_ref as R
from . import codec_targets as T

LIMIT_BYTES = 3000       # largest representation of a type that is still sent to the list-based model
BATCH = 300              # requests per driver / worker call

HERE = pathlib.Path(__file__).resolve().parent

WORKER = r'''
import json, sys
HARNESS = sys.argv[2]
sys.path.insert(0, HARNESS)
import warnings
warnings.simplefilter("ignore")
import numpy as np
import nunavut_support as S
import codec_pyworker as W


def skip(toks, pos):
    """skip one well-bracketed value"""
    depth = 0
    while True:
        t = toks[pos]
        pos += 1
        if t in "[{<":
            depth += 1
        elif t in "]}>":
            depth -= 1
        if depth == 0:
            return pos


class Long:
    """an array value longer than its capacity: what the constructor gets and what ends up behind the setter"""
    def __init__(self, full, cap):
        self.full, self.cap = full, cap


def patch(obj, name, x):
    cur = getattr(obj, name)
    full = np.empty(len(x.full), dtype=cur.dtype)
    for i, e in enumerate(x.full):
        full[i] = e
    setattr(obj, "_" + name, full)


def build2(node, toks, pos, in_array=False):
    k = node["k"]
    if k in "al":
        assert toks[pos] == "["
        pos += 1
        out = []
        while toks[pos] != "]":
            x, pos = build2(node["el"], toks, pos, in_array=True)
            if isinstance(x, Long):
                raise W.NotApplicable()          # arrays of arrays do not exist in DSDL
            out.append(x)
        pos += 1
        if k == "a" and len(out) != node["cap"]:
            raise W.NotApplicable()
        if k == "l" and len(out) > node["cap"]:
            return Long(out, node["cap"]), pos
        return out, pos
    if k == "s":
        assert toks[pos] == "{"
        pos += 1
        kw, late = {}, []
        for name, fn in node["fields"]:
            x, pos = build2(fn, toks, pos)
            if name is None:
                continue
            if isinstance(x, Long):
                late.append((name, x))
                x = x.full[:x.cap]
            kw[name] = x
        assert toks[pos] == "}"
        obj = W.get_cls(node["cls"])(**kw)
        for name, x in late:
            patch(obj, name, x)
        return obj, pos + 1
    if k == "n":
        assert toks[pos] == "<"
        kk = int(toks[pos + 1])
        cls = W.get_cls(node["cls"])
        if not 0 <= kk < len(node["fields"]):
            pos = skip(toks, pos + 2)
            assert toks[pos] == ">"
            obj = cls()
            setattr(obj, "_" + node["fields"][0][0], None)      # no attribute set: 'Malformed union'
            return obj, pos + 1
        name, fn = node["fields"][kk]
        x, pos = build2(fn, toks, pos + 2)
        assert toks[pos] == ">"
        if isinstance(x, Long):
            obj = cls(**{name: x.full[:x.cap]})
            patch(obj, name, x)
        else:
            obj = cls(**{name: x})
        return obj, pos + 1
    return W.build(node, toks, pos, in_array)


def site(msg):
    if "Variable array length prefix" in msg:
        return "bad-array-length"
    if "Union tag value" in msg:
        return "bad-union-tag"
    if "Delimiter header" in msg:
        return "bad-delimiter-header"
    return "?" + msg[:60]


def handle(types, line):
    op, idx, rest = (line.split(" ", 2) + ["", ""])[:3]
    t = types[int(idx)]
    cls = W.get_cls(t["cls"])
    try:
        if op == "ser":
            obj = build2(t["node"], W.tokens(rest), 0)[0]
            try:
                data = b"".join(bytes(f) for f in S.serialize(obj))
            except AssertionError:
                return "exc:AssertionError"
            except RuntimeError:
                return "exc:RuntimeError"
            return "ok " + (data.hex() or "-")
        if op == "de":
            data = b"" if rest == "-" else bytes.fromhex(rest)
            d = S.Deserializer.new([memoryview(bytearray(data))])
            try:
                obj = cls._deserialize_(d)
            except S.Deserializer.FormatError as ex:
                return "none:" + site(str(ex))
            out = []
            W.dump(t["node"], obj, out)
            consumed = min(d.consumed_bit_length, len(data) * 8)
            return "ok " + W.join(out) + " " + str((consumed + 7) // 8)
        return "err:bad-op"
    except W.NotApplicable:
        return "n/a"
    except Exception as ex:  # noqa
        return "exc:" + type(ex).__name__ + ":" + str(ex)[:120].replace("\n", " ")


def main():
    types = json.load(open(sys.argv[1]))
    sys.stdout.write("ready\n")
    sys.stdout.flush()
    for line in sys.stdin:
        sys.stdout.write(handle(types, line.rstrip("\n")) + "\n")
        sys.stdout.flush()


main()
'''


class _Worker(T._PyWorker):
    """codec_targets._PyWorker with the script above (same process protocol: 'ready', then one answer per line);
    one exchange per call, no restart loop, killable from a watchdog."""

    def __init__(self, outdir, numpy_dir, script):
        super().__init__(outdir, numpy_dir)
        self.script = script
        self.killed = False

    def _start(self):
        env = dict(os.environ)
        env["PYTHONPATH"] = os.pathsep.join([str(self.outdir / "gen")] + ([self.numpy_dir] if self.numpy_dir else []))
        env["PYTHONDONTWRITEBYTECODE"] = "1"
        self.proc = subprocess.Popen([common.PY, str(self.script), str(self.outdir / "types.json"), str(HERE)],
                                     stdin=subprocess.PIPE, stdout=subprocess.PIPE, stderr=subprocess.PIPE, env=env, text=True, bufsize=1)
        first = self.proc.stdout.readline().strip()
        if first != "ready":
            err = self.proc.stderr.read()[-2000:]
            self.proc = None
            raise RuntimeError("genpy tie worker did not start: " + err)

    def ask(self, lines):
        self.killed = False
        if self.proc is None or self.proc.poll() is not None:
            self._start()
        out = self._exchange(lines)
        if len(out) < len(lines):
            rc = self.proc.poll() if self.proc is not None else None
            self.proc = None
            if self.killed:
                out += ["skipped-timeout"] * (len(lines) - len(out))
            else:   # the worker died by itself on the first unanswered request
                out += [f"crash:{rc}"] + ["skipped-crash"] * (len(lines) - len(out) - 1)
        return out

    def kill(self):
        self.killed = True
        p = self.proc
        if p is not None:
            try:
                p.kill()
            except Exception:
                pass


def _ask_workers(workers, lines, timeout):
    """lines dealt to the workers; a watchdog kills them after `timeout` seconds (their unanswered lines: skipped-timeout)."""
    k = min(len(workers), max(1, len(lines) // 50))
    shares = [list(range(i, len(lines), k)) for i in range(k)]
    answers = ["skipped-timeout"] * len(lines)
    ex = concurrent.futures.ThreadPoolExecutor(max_workers=k)
    try:
        futs = [ex.submit(workers[i].ask, [lines[j] for j in shares[i]]) for i in range(k)]
        done, pending = concurrent.futures.wait(futs, timeout=timeout)
        if pending:
            for w in workers[:k]:
                w.kill()
            concurrent.futures.wait(futs, timeout=10)
        for idxs, f in zip(shares, futs):
            if f.done() and f.exception() is None:
                for j, a in zip(idxs, f.result()):
                    answers[j] = a
    finally:
        ex.shutdown(wait=False)
    return answers


def _ask_driver(drv, lines, timeout):
    """-> answers or None on timeout / failure (subprocess.run kills the driver on timeout)"""
    try:
        return drv.ask(lines, timeout=timeout)
    except Exception:  # noqa  (TimeoutExpired, driver failure)
        return None


# ------------------------------------------------------------------------------------------------------------
# structural tie: method sequence in the generated text
# ------------------------------------------------------------------------------------------------------------

_TOK = re.compile(r"(_ser_|_nested_|_des_)\.(\w+)\(|\.(_serialize_|_deserialize_)\(")


def _methods(body):
    out = []
    for m in _TOK.finditer(body):
        if m.group(3):
            out.append("call")
        elif m.group(1) == "_nested_":
            out.append("nested." + m.group(2))
        else:
            out.append(m.group(2))
    return out


def text_trace(gen_dir, gt):
    """(serializer methods, deserializer methods) of the class generated for gt, from the generated source text."""
    mod = T._py_cls_path(gt.model).split(":")[0]
    src = (pathlib.Path(gen_dir) / (mod.replace(".", "/") + ".py")).read_text()
    sers = [m.start() for m in re.finditer(r"^\s+def _serialize_\(self", src, re.M)]
    which = {"message": 0, "request": 0, "response": 1}[gt.role]
    if len(sers) <= which:
        raise RuntimeError(f"no _serialize_ #{which} in {mod}")
    a = sers[which]
    b = src.index("def _deserialize_(", a)
    c = src.index("def __repr__", b)
    return _methods(src[a:b].split("\n", 1)[1]), _methods(src[b:c].split("\n", 1)[1])


# ------------------------------------------------------------------------------------------------------------
# outcome classes
# ------------------------------------------------------------------------------------------------------------

_SER_MAP = {"exc:assertion": ("exc:AssertionError", "err:bad-array-length"),
            "exc:malformed-union": ("exc:RuntimeError", "err:bad-union-tag")}


def _ser_agree(g, p, s):
    """genpy answer g, generated Python p, specification s  ->  (agree, class)"""
    if g == "skipped-large" or p.startswith("skipped-"):
        return True, "skipped-large" if g == "skipped-large" else p
    if p == "n/a":
        return True, "outside-domain"
    if g.startswith("ok "):
        return g == p == s, "bytes"
    if g in _SER_MAP:
        return (p, s) == _SER_MAP[g], g[4:]
    return False, "other"


def _de_agree(g, p, s):
    if g == "skipped-large" or p.startswith("skipped-"):
        return True, "skipped-large" if g == "skipped-large" else p
    if g.startswith("ok "):
        return g == p == s, "value"
    if g.startswith("none:"):
        return p == g and s == "err:" + g[5:], g
    return False, "other"


def _driver(ctx, drivers, name):
    d = (drivers or {}).get(name) if isinstance(drivers, dict) else None
    if d is not None:
        return d
    exe = common.LEAN / ".lake" / "build" / "bin" / name
    ok, log = ctx.lake([name])
    if not ok:
        ctx.broken.append({"kind": "driver-build", "exes": [name], "log_tail": log[-2000:]})
        return None
    return common.Driver(exe)


def run_genpy(ctx, drivers=None, n_values=None, n_bytes=None, budget=None):
    t_start = time.time()
    budget = float(os.environ.get("VERIF_GENPY_BUDGET") or budget or (30 if ctx.quick else 300))
    info = {"budget_seconds": budget, "limit_bytes": LIMIT_BYTES, "requests": 0, "compared": 0, "skipped_large": 0,
            "skipped_budget": 0, "skipped_timeout": 0, "skipped_crash": 0, "large_types": []}
    ctx.extra["genpy_tie"] = info

    def left():
        return budget - (time.time() - t_start)

    genpy = _driver(ctx, drivers, "genpy")
    codec = _driver(ctx, drivers, "codec")
    if genpy is None or codec is None:
        return
    sess = E.get_session(ctx)
    py = next((t for t in sess.targets if isinstance(t, T.PyTarget)), None)
    if py is None:
        ctx.broken.append({"kind": "genpy-tie", "what": "the Python target of the codec session was not built"})
        return
    # structural tie first: cheap, never cut by the budget
    t_ans = _ask_driver(genpy, ["trace " + gt.tstr for gt in sess.ns.types], 120)
    if t_ans is None:
        ctx.broken.append({"kind": "genpy-tie", "what": "genpy did not answer the trace requests within 120 s"})
    else:
        for gt, a in zip(sess.ns.types, t_ans):
            try:
                ts, td = text_trace(py.outdir / "gen", gt)
            except Exception as ex:  # noqa
                ctx.broken.append({"kind": "genpy-tie", "what": f"cannot scan generated text of {gt.full_name}: {ex}"})
                continue
            want = "ok " + " ".join(ts) + " | " + " ".join(td)
            ctx.count("genpy:trace")
            ctx.count("genpy:trace-methods", len(ts) + len(td))
            ctx.traces += 1
            if a != want:
                ctx.disagree("genpy-trace", {"type": gt.full_name, "expr": gt.tstr[:2000]}, {"genpy": a[:3000]},
                             {"generated-text": want[:3000]})
    # dynamic tie
    script = ctx.scratch / "genpy_pyworker.py"
    script.write_text(WORKER)
    rng = ctx.rng
    nv = n_values or (30 if ctx.quick else 80)
    kb, rb = n_bytes or ((4, 12) if ctx.quick else (8, 30))
    per_type = []
    nominal = (nv + 1 if ctx.prop != "C02" else 0) + (kb + rb if ctx.prop != "C01" else 0)
    for ti, gt in enumerate(sess.ns.types):
        if R.bounds(gt.expr)[1] // 8 > LIMIT_BYTES:
            # not generated at all: the values alone are hundreds of kilobytes of text
            n = (nv + 1 if ctx.prop != "C02" else 0) + (kb + rb if ctx.prop != "C01" else 0)
            info["skipped_large"] += n
            info["large_types"].append(gt.full_name)
            ctx.count("genpy:skipped-large", n)
            continue
        rs = []
        if ctx.prop != "C02":
            rs += [E.Req(gt, "ser", v) for v in E.value_cases(rng, gt, nv, p_invalid=0.08)]
        if ctx.prop != "C01":
            rs += [E.Req(gt, "de", b) for b in E.bytes_cases(rng, gt, kb, rb)]
        per_type.append(rs)
        if left() < budget * 0.5:       # generation itself may not eat the budget
            n = nominal * (len(sess.ns.types) - ti - 1)
            info["skipped_budget"] += n
            ctx.count("genpy:skipped-budget", n)
            break
    # round robin over the types, so that a budget cut thins every type instead of dropping the last ones
    reqs = []
    for i in range(max((len(rs) for rs in per_type), default=0)):
        reqs += [rs[i] for rs in per_type if i < len(rs)]
    info["requests"] = len(reqs)
    workers = [_Worker(py.outdir, py.numpy_dir, script) for _ in range(4)]
    try:
        for start in range(0, len(reqs), BATCH):
            if left() <= 1:
                n = len(reqs) - start
                info["skipped_budget"] += n
                ctx.count("genpy:skipped-budget", n)
                break
            batch = reqs[start:start + BATCH]
            tmo = max(3.0, min(60.0, left()))
            model_lines = [r.model_lines()[0] for r in batch]
            a_gen = _ask_driver(genpy, model_lines, tmo)
            a_spec = _ask_driver(codec, model_lines, max(3.0, min(60.0, left()))) if a_gen is not None else None
            if a_gen is None or a_spec is None:
                info["skipped_timeout"] += len(batch)
                ctx.count("genpy:skipped-timeout", len(batch))
                continue
            a_py = _ask_workers(workers, [r.target_line() for r in batch], max(3.0, min(60.0, left())))
            for r, ml, g, p, s in zip(batch, model_lines, a_gen, a_py, a_spec):
                ok, cls = (_ser_agree if r.op == "ser" else _de_agree)(g, p, s)
                if cls.startswith("skipped-"):
                    info[cls.replace("-", "_")] = info.get(cls.replace("-", "_"), 0) + 1
                    ctx.count("genpy:" + cls)
                    continue
                ctx.count(f"genpy:{r.op}:{cls}")
                ctx.case(("genpy", r.gt.tstr, r.op, r.text), nontrivial=(r.text not in ("{}", "-")))
                if cls != "outside-domain":
                    ctx.traces += 1
                    info["compared"] += 1
                if not ok:
                    ctx.disagree("genpy-" + r.op, {"type": r.gt.full_name, "request": ml[:2000]},
                                 {"genpy": g[:1500], "spec": s[:1500]}, {"generated-python": (p or "")[:1500]})
    finally:
        for w in workers:
            w.kill()
    info["seconds"] = round(time.time() - t_start, 2)
    ctx.sample({"genpy_tie": {k: v for k, v in info.items() if k != "large_types"}})
