// C14 correspondence: line-protocol wrapper around the *generated* nunavut/support/serialization.hpp
// (bitspan / const_bitspan).  Same request lines as `lean/Drivers/Bits.lean` (C++ section, ops `x.*`).
// Every span lives in its own exact-size heap allocation (AddressSanitizer sees any access outside it); every
// call is repeated with the bytes placed between guard bytes, the guards are verified and both runs must agree.
// Built by harness/c14.py with -fsanitize=address,undefined -fno-sanitize-recover=all for c++14/17/20.
#include <cinttypes>
#include <cstdio>
#include <cstdlib>
#include <cstring>
#include <string>
#include <vector>
#include "nunavut/support/serialization.hpp"

using nunavut::support::bitspan;
using nunavut::support::const_bitspan;
using nunavut::support::bytespan;

namespace {
constexpr std::size_t GUARD = 16;
constexpr std::uint8_t GUARD_BYTE = 0xA5;

struct Buf {
    std::uint8_t* base; std::uint8_t* p; std::size_t n; bool guarded;
    Buf(const std::string& hex, bool g) : n(hex == "-" ? 0 : hex.size() / 2), guarded(g) {
        if (g) { base = static_cast<std::uint8_t*>(std::malloc(n + 2 * GUARD)); std::memset(base, GUARD_BYTE, n + 2 * GUARD); p = base + GUARD; }
        else   { base = static_cast<std::uint8_t*>(std::malloc(n)); p = base; }
        if (base == nullptr) { std::fprintf(stderr, "malloc failed\n"); std::exit(3); }
        auto hv = [](char c) { return (c >= '0' && c <= '9') ? c - '0' : c - 'a' + 10; };
        for (std::size_t i = 0; i < n; i++) { p[i] = static_cast<std::uint8_t>(hv(hex[2 * i]) * 16 + hv(hex[2 * i + 1])); }
    }
    Buf(const Buf&) = delete;
    ~Buf() { std::free(base); }
    bool ok() const {
        if (!guarded) { return true; }
        for (std::size_t i = 0; i < GUARD; i++) { if (base[i] != GUARD_BYTE || p[n + i] != GUARD_BYTE) { return false; } }
        return true;
    }
    std::string hex() const {
        static const char* d = "0123456789abcdef";
        if (n == 0) { return "-"; }
        std::string s;
        for (std::size_t i = 0; i < n; i++) { s += d[p[i] >> 4]; s += d[p[i] & 15]; }
        return s;
    }
};

std::size_t num(const std::string& s) { return static_cast<std::size_t>(std::strtoull(s.c_str(), nullptr, 10)); }

template <typename R> int rc_of(const R& r) { return r.has_value() ? 0 : -static_cast<int>(r.error()); }

bool run(const std::vector<std::string>& t, bool g, std::string& out)
{
    const std::string& op = t[0];
    const std::size_t nt = t.size();
    char tmp[128];
    if (op == "x.copy" && nt == 6) {
        Buf dst(t[1], g), src(t[3], g);
        const_bitspan(src.p, src.n, num(t[4])).copyTo(bitspan(dst.p, dst.n, num(t[2])), num(t[5]));
        out = std::string((dst.ok() && src.ok()) ? "ok " : "GUARD ") + dst.hex(); return true;
    }
    if (op == "x.getbits" && nt == 5) {
        Buf src(t[1], g), o(t[3], g);
        const_bitspan(src.p, src.n, num(t[2])).getBits(bytespan(o.p, o.n), num(t[4]));
        out = std::string((o.ok() && src.ok()) ? "ok " : "GUARD ") + o.hex(); return true;
    }
    if (op == "x.setzeros" && nt == 4) {
        Buf d(t[1], g);
        const int rc = rc_of(bitspan(d.p, d.n, num(t[2])).setZeros(num(t[3])));
        out = std::string(d.ok() ? "ok " : "GUARD ") + std::to_string(rc) + " " + d.hex(); return true;
    }
    if (op == "x.pad" && nt == 4) {
        Buf d(t[1], g);
        bitspan s(d.p, d.n, num(t[2]));
        const int rc = rc_of(s.padAndMoveToAlignment(num(t[3])));
        out = std::string(d.ok() ? "ok " : "GUARD ") + std::to_string(rc) + " " + d.hex() + " " + std::to_string(s.offset()); return true;
    }
    if (op == "x.subspan" && nt == 5) {
        Buf d(t[1], g);
        const auto r = bitspan(d.p, d.n, num(t[2])).subspan(num(t[3]), num(t[4]));
        if (!r.has_value()) { out = "ok " + std::to_string(rc_of(r)) + " 0 0 0"; return true; }
        bitspan s = r.value();
        const std::size_t noff = s.offset();
        const std::size_t nbytes = (s.size() + noff) / 8U;
        // the first byte of the window is observable (without tripping the header's own asserts) only if it is not empty
        const std::string first = (nbytes == 0U) ? "-" : std::to_string(static_cast<std::size_t>(s.aligned_ptr() - (noff / 8U) - d.p));
        out = "ok 0 " + first + " " + std::to_string(nbytes) + " " + std::to_string(noff); return true;
    }
    if (op == "x.setbit" && nt == 4) {
        Buf d(t[1], g);
        const int rc = rc_of(bitspan(d.p, d.n, num(t[2])).setBit(t[3] == "1"));
        out = std::string(d.ok() ? "ok " : "GUARD ") + std::to_string(rc) + " " + d.hex(); return true;
    }
    if ((op == "x.setu" || op == "x.seti") && nt == 5) {
        Buf d(t[1], g);
        bitspan s(d.p, d.n, num(t[2]));
        const auto len = static_cast<std::uint8_t>(num(t[4]));
        const int rc = (op == "x.setu") ? rc_of(s.setUxx(std::strtoull(t[3].c_str(), nullptr, 10), len))
                                        : rc_of(s.setIxx(std::strtoll(t[3].c_str(), nullptr, 10), len));
        out = std::string(d.ok() ? "ok " : "GUARD ") + std::to_string(rc) + " " + d.hex(); return true;
    }
    if (op == "x.getbit" && nt == 3) {
        Buf d(t[1], g);
        out = const_bitspan(d.p, d.n, num(t[2])).getBit() ? "ok 1" : "ok 0"; return true;
    }
    if ((op.rfind("x.getu", 0) == 0 || op.rfind("x.geti", 0) == 0) && nt == 4) {
        Buf d(t[1], g);
        const_bitspan s(d.p, d.n, num(t[2]));
        const auto len = static_cast<std::uint8_t>(num(t[3]));
        const int w = std::atoi(op.c_str() + 6);
        if (op[5] == 'u') {
            std::uint64_t v = 0;
            if (w == 8) { v = s.getU8(len); } else if (w == 16) { v = s.getU16(len); } else if (w == 32) { v = s.getU32(len); }
            else if (w == 64) { v = s.getU64(len); } else { return false; }
            std::snprintf(tmp, sizeof(tmp), "ok %" PRIu64, v);
        } else {
            std::int64_t v = 0;
            if (w == 8) { v = s.getI8(len); } else if (w == 16) { v = s.getI16(len); } else if (w == 32) { v = s.getI32(len); }
            else if (w == 64) { v = s.getI64(len); } else { return false; }
            std::snprintf(tmp, sizeof(tmp), "ok %" PRId64, v);
        }
        out = tmp; return true;
    }
    if (op == "x.info" && nt == 4) {
        Buf d(t[1], g);
        const_bitspan s(d.p, d.n, num(t[2]));
        const std::size_t a = num(t[3]);
        out = "ok " + std::to_string(s.size()) + " " + std::to_string(s.offset()) + " " + std::to_string(s.offset_bytes()) + " "
              + std::to_string(s.offset_bytes_ceil()) + " " + std::to_string(s.offset_misalignment(a)) + " "
              + (s.offset_alings_to(a) ? "1" : "0") + " " + (s.offset_alings_to_byte() ? "1" : "0");
        return true;
    }
    if (op == "x.atoff" && nt == 4) {
        Buf d(t[1], g);
        bitspan s(d.p, d.n, num(t[2]));
        const bitspan r = s.at_offset(num(t[3]));
        bitspan s2 = s; s2.add_offset(num(t[3]));           // the in-place variant must agree with the copying one
        bitspan s3 = s; s3.set_offset(s.offset() + num(t[3]));
        if (s2.offset() != r.offset() || s2.size() != r.size() || s3.offset() != r.offset() || s3.size() != r.size()) { out = "ok add_offset/set_offset differ from at_offset"; return true; }
        out = "ok " + std::to_string(r.offset()) + " " + std::to_string(r.size()); return true;
    }
    if ((op == "x.sub1" || op == "x.subbytes") && nt == 4) {
        Buf d(t[1], g);
        const_bitspan s(d.p, d.n, num(t[2]));
        const_bitspan r = (op == "x.sub1") ? s.subspan(num(t[3])) : s.subspan_bytes(num(t[3]));
        std::uint8_t first[8] = {0, 0, 0, 0, 0, 0, 0, 0};
        const std::size_t nbits = (r.size() < 64U) ? r.size() : 64U;
        if (d.n > 0U) { r.getBits(bytespan(first, 8), nbits); }    // (the header asserts a non-null data pointer)
        static const char* hd = "0123456789abcdef";
        std::string h;
        for (int i = 0; i < 8; i++) { h += hd[first[i] >> 4]; h += hd[first[i] & 15]; }
        out = "ok " + std::to_string(r.offset()) + " " + std::to_string(r.size()) + " ok " + h; return true;
    }
    if (op == "x.aref" && nt == 4) {
        Buf d(t[1], g);
        // (a non-const const_bitspan object would select the non-const overload, which does not compile for const data)
        const const_bitspan s(d.p, d.n, num(t[2]));
        const std::uint8_t& r = s.aligned_ref(num(t[3]));
        const std::uint8_t* q = s.aligned_ptr(num(t[3]));
        if (q != &r) { out = "ok aligned_ptr differs from &aligned_ref"; return true; }
        out = "ok " + std::to_string(static_cast<std::size_t>(q - d.p)) + " " + std::to_string(static_cast<unsigned>(r)); return true;
    }
    if (op == "x.copyall" && nt == 5) {
        Buf dst(t[1], g), src(t[3], g);
        const_bitspan(src.p, src.n, num(t[4])).copyTo(bitspan(dst.p, dst.n, num(t[2])));
        out = std::string((dst.ok() && src.ok()) ? "ok " : "GUARD ") + dst.hex(); return true;
    }
    if (op == "x.zeroall" && nt == 3) {
        Buf d(t[1], g);
        const int rc = rc_of(bitspan(d.p, d.n, num(t[2])).setZeros());
        out = std::string(d.ok() ? "ok " : "GUARD ") + std::to_string(rc) + " " + d.hex(); return true;
    }
    if (op.rfind("x.align", 0) == 0 && nt == 2) {
        static const std::uint8_t dummy[1] = {0};
        const_bitspan s(dummy, 0, num(t[1]));
        const int n = std::atoi(op.c_str() + 7);
        if (n == 8) { s.align_offset_to<8>(); } else if (n == 16) { s.align_offset_to<16>(); } else if (n == 32) { s.align_offset_to<32>(); }
        else if (n == 64) { s.align_offset_to<64>(); } else { return false; }
        out = "ok " + std::to_string(s.offset()); return true;
    }
    if (op.rfind("x.setf", 0) == 0 && nt == 4) {
        const int w = std::atoi(op.c_str() + 6);
        if (w != 32 && w != 64) { return false; }
        Buf d(t[1], g);
        bitspan s(d.p, d.n, num(t[2]));
        const std::uint64_t bits = std::strtoull(t[3].c_str(), nullptr, 10);
        int rc;
        if (w == 32) { const auto b32 = static_cast<std::uint32_t>(bits); float v; std::memcpy(&v, &b32, 4); rc = rc_of(s.setF32(v)); }
        else         { double v; std::memcpy(&v, &bits, 8); rc = rc_of(s.setF64(v)); }
        out = std::string(d.ok() ? "ok " : "GUARD ") + std::to_string(rc) + " " + d.hex(); return true;
    }
    if (op.rfind("x.getf", 0) == 0 && nt == 3) {
        const int w = std::atoi(op.c_str() + 6);
        if (w != 32 && w != 64) { return false; }
        Buf d(t[1], g);
        const_bitspan s(d.p, d.n, num(t[2]));
        std::uint64_t bits = 0;
        if (w == 32) { const float v = s.getF32(); std::uint32_t b32; std::memcpy(&b32, &v, 4); bits = b32; }
        else         { const double v = s.getF64(); std::memcpy(&bits, &v, 8); }
        std::snprintf(tmp, sizeof(tmp), "ok %" PRIu64, bits);
        out = tmp; return true;
    }
    return false;
}
}  // namespace

int main()
{
    std::setvbuf(stdout, nullptr, _IOLBF, 1 << 16);  // an answer is out before the next call can crash
    char* line = nullptr; std::size_t cap = 0; ssize_t n;
    while ((n = getline(&line, &cap, stdin)) > 0) {
        if (line[n - 1] == '\n') { line[--n] = 0; }
        std::vector<std::string> t;
        std::string cur;
        for (ssize_t i = 0; i <= n; i++) {
            if (i == n || line[i] == ' ') { t.push_back(cur); cur.clear(); } else { cur += line[i]; }
        }
        std::string a, b;
        if (t.empty() || !run(t, false, a)) { std::puts("bad-op"); continue; }
        run(t, true, b);
        if (a != b) { std::printf("MISMATCH exact=[%s] guarded=[%s]\n", a.c_str(), b.c_str()); } else { std::puts(a.c_str()); }
    }
    std::free(line);
    return 0;
}
