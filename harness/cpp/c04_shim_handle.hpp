// C04 variant of harness/cpp/codec_shim_handle.hpp (harness/c04.py substitutes the include).  Same requests plus
//   de2  <idx> <fill> <hexA> <hexB>  value-initialised object, deserialize A into it (result ignored), then B into the SAME object
//   dep  <idx> <fill> <hex>          like `de` (a C++ object cannot be byte-poisoned; kept so that request lists can be shared)
//   serx <idx> <V> <cap>             serialize into malloc(<cap>) exactly
#ifndef C04_SHIM_HANDLE_HPP
#define C04_SHIM_HANDLE_HPP
#include "codec_shim_handle.hpp"
#include "c04_codes.h"  // written by harness/c04.py from the translated table of documented codes

// exactly n accessible bytes: for n == 0 a pointer one past a 1-byte allocation, so that ANY access is reported
inline std::uint8_t* c04_exact_alloc(std::size_t n, void** base)
{
    *base = std::malloc(n ? n : 1);
    return n ? static_cast<std::uint8_t*>(*base) : static_cast<std::uint8_t*>(*base) + 1;
}
inline std::uint8_t* c04_exact_copy(const std::uint8_t* src, std::size_t n, void** base)
{
    std::uint8_t* p = c04_exact_alloc(n, base);
    if (n) { std::memcpy(p, src, n); }
    return p;
}

template <typename T>
int handle_c04(const char* op, const char* rest, void (*probe)())
{
    const bool is_dep = !std::strcmp(op, "dep"), is_de2 = !std::strcmp(op, "de2");
    if (is_dep || is_de2)
    {
        while (*rest == ' ') { rest++; }
        while (*rest && *rest != ' ') { rest++; }   // skip <fill>
        while (*rest == ' ') { rest++; }
        T o2{};
        if (is_de2)
        {
            const char* sp = std::strchr(rest, ' ');
            if (!sp) { return 0; }
            std::string first(rest, static_cast<std::size_t>(sp - rest));
            std::uint8_t* a = nullptr;
            const std::size_t na = hex_decode(first.c_str(), &a);
            void* abase = nullptr;
            const std::uint8_t* ax = c04_exact_copy(a, na, &abase);
            (void) deserialize(o2, nunavut::support::const_bitspan{ax, na});
            std::free(abase);
            std::free(a);
            rest = sp + 1;
        }
        std::uint8_t* in = nullptr;
        const std::size_t n = hex_decode(rest, &in);
        void* inbase = nullptr;
        const std::uint8_t* inx = c04_exact_copy(in, n, &inbase);
        const auto r = deserialize(o2, nunavut::support::const_bitspan{inx, n});
        if (!r) { o_str(c04_cpp_err_name(static_cast<int>(r.error()))); }
        else { o_str("ok"); dump(o2); o_u64(r.value()); }
        std::free(inbase);
        std::free(in);
        return 1;
    }
    if (!std::strcmp(op, "serx"))
    {
        T obj{};
        P p = {rest, 0};
        try { parse(&p, obj); } catch (const NotApplicable&) { o_str("n/a"); return 1; }
        const std::size_t cap = static_cast<std::size_t>(p_u64(&p));
        if (p.err) { return 0; }
        void* bufbase = nullptr;
        std::uint8_t* buf = c04_exact_alloc(cap, &bufbase);
        if (cap) { std::memset(buf, 0x55, cap); }
        const auto r = serialize(obj, nunavut::support::bitspan{buf, cap});
        if (!r) { o_str(c04_cpp_err_name(static_cast<int>(r.error()))); }
        else if (r.value() > cap) { o_str("err:size-above-capacity"); }
        else { o_str("ok"); o_hex(buf, r.value()); }
        std::free(bufbase);
        return 1;
    }
    return handle<T>(op, rest, probe);
}
#endif
