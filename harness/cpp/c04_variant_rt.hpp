// C04: operation-sequence interpreter for a generated VariantType (C++14 built-in union emulation or C++17
// std::variant wrapper).  Request syntax = the `run` request of lean/Drivers/Variant.lean:
//     <ops>   comma list of c<d> | cc<d>.<s> | mc<d>.<s> | e<d>.<i> | ca<d>.<s> | ma<d>.<s> | d<d>    ('-' = none)
// Answer:  ok tags=<t|->/... owning=<n>          state after the last op (before the cleanup of what is left)
//          fault <kind> op=<index>               wild-destroy | leak | read-dead | dead-in-use | value-changed | leak-lsan
// With C04_TRACKED the variable-length arrays are c04::Tracked and lifetime faults are detected through its registry
// after every operation; without it the build is a plain sanitizer build and faults are sanitizer reports (the
// process dies) or LeakSanitizer findings at the end of a request.
#ifndef C04_VARIANT_RT_HPP
#define C04_VARIANT_RT_HPP
#include <array>
#include <cstdint>
#include <cstdio>
#include <cstdlib>
#include <cstring>
#include <new>
#include <string>
#include <type_traits>
#include <utility>
#include <vector>
#ifdef C04_TRACKED
#    include "c04_tracked.hpp"
#endif
#if defined(C04_LSAN)
#    include <sanitizer/lsan_interface.h>
#endif

namespace c04rt
{
constexpr std::size_t MaxSlots = 4;

// ---- fill: give an alternative a recognisable, non-zero, heap-owning content -------------------------------------
template <typename T>
typename std::enable_if<std::is_arithmetic<T>::value>::type fill(T& x) { x = static_cast<T>(0xA5); }
template <typename T, std::size_t N>
void fill(std::array<T, N>& a) { for (auto& e : a) { e = static_cast<T>(0xA5A5U); } }
template <typename T>
void fill(std::vector<T>& v) { v.push_back(static_cast<T>(1)); v.push_back(static_cast<T>(2)); v.push_back(static_cast<T>(3)); }
#ifdef C04_TRACKED
template <typename T>
void fill(c04::Tracked<T>& v) { v.push_back(static_cast<T>(1)); v.push_back(static_cast<T>(2)); v.push_back(static_cast<T>(3)); }
#endif
template <typename M>
auto fill(M& m) -> decltype(m.x, m.y, void()) { fill(m.x); fill(m.y); }

// ---- digest: the value of an alternative as text ---------------------------------------------------------------------
template <typename T>
typename std::enable_if<std::is_arithmetic<T>::value>::type digest(const T& x, std::string& out) { out += std::to_string(static_cast<long long>(x)); out += ';'; }
template <typename T, std::size_t N>
void digest(const std::array<T, N>& a, std::string& out) { out += 'A'; for (const auto& e : a) { digest(e, out); } }
template <typename T>
void digest(const std::vector<T>& v, std::string& out) { out += 'V'; for (const auto& e : v) { digest(e, out); } }
#ifdef C04_TRACKED
template <typename T>
void digest(const c04::Tracked<T>& v, std::string& out) { out += 'V'; for (const auto& e : v) { digest(e, out); } }
#endif
template <typename M>
auto digest(const M& m, std::string& out) -> decltype(m.x, m.y, void()) { out += 'S'; digest(m.x, out); digest(m.y, out); }

// ---- reach: how many registered containers an alternative owns; are they all alive? -------------------------------
struct Reach { unsigned long n = 0; bool dead = false; };
template <typename T>
typename std::enable_if<std::is_arithmetic<T>::value>::type reach(const T&, Reach&) {}
template <typename T, std::size_t N>
void reach(const std::array<T, N>&, Reach&) {}
template <typename T>
void reach(const std::vector<T>&, Reach&) {}
#ifdef C04_TRACKED
template <typename T>
void reach(const c04::Tracked<T>& v, Reach& r) { r.n++; if (!c04::Registry::get().is_live(&v)) { r.dead = true; } }
#endif
template <typename M>
auto reach(const M& m, Reach& r) -> decltype(m.x, m.y, void()) { reach(m.x, r); reach(m.y, r); }

// ---- compile-time index dispatch -------------------------------------------------------------------------------------
template <typename V, std::size_t I, std::size_t N>
struct Alt
{
    static void emplace(V& v, std::size_t i)
    {
        if (i == I) { auto& r = v.template emplace<I>(); fill(r); } else { Alt<V, I + 1, N>::emplace(v, i); }
    }
    static void digest_active(const V& v, std::string& out)
    {
        if (v.index() == I) { if (const auto* p = V::template get_if<I>(&v)) { digest(*p, out); } else { out += "null"; } }
        else { Alt<V, I + 1, N>::digest_active(v, out); }
    }
    static void reach_active(const V& v, Reach& r)
    {
        if (v.index() == I) { if (const auto* p = V::template get_if<I>(&v)) { reach(*p, r); } }
        else { Alt<V, I + 1, N>::reach_active(v, r); }
    }
};
template <typename V, std::size_t N>
struct Alt<V, N, N>
{
    static void emplace(V&, std::size_t) {}
    static void digest_active(const V&, std::string& out) { out += "none"; }
    static void reach_active(const V&, Reach&) {}
};

inline bool two(const char* s, unsigned long& a, unsigned long& b)
{
    char* e = nullptr;
    a = std::strtoul(s, &e, 10);
    if (e == s || *e != '.') { return false; }
    const char* t = e + 1;
    b = std::strtoul(t, &e, 10);
    return e != t && *e == 0;
}

template <typename Msg>
std::string run_ops(unsigned long nslots, const std::string& ops)
{
    using V = typename Msg::VariantType;
    constexpr std::size_t N = V::MAX_INDEX;
    using A = Alt<V, 0, N>;
    static typename std::aligned_storage<sizeof(V), alignof(V)>::type storage[MaxSlots];
    bool made[MaxSlots] = {false, false, false, false};
    if (nslots > MaxSlots) { return "bad-op"; }
    auto at = [&](unsigned long d) -> V& { return *reinterpret_cast<V*>(&storage[d]); };
#ifdef C04_TRACKED
    c04::Registry::get().reset();
#endif
    std::vector<std::string> toks;
    if (ops != "-")
    {
        std::size_t pos = 0;
        while (pos <= ops.size())
        {
            const std::size_t c = ops.find(',', pos);
            toks.push_back(ops.substr(pos, c == std::string::npos ? std::string::npos : c - pos));
            if (c == std::string::npos) { break; }
            pos = c + 1;
        }
    }
    std::string fault;
    std::size_t idx = 0;
    for (; idx < toks.size() && fault.empty(); ++idx)
    {
        const std::string& t = toks[idx];
        unsigned long d = 0, s = 0;
        std::string before;
        bool self = false;
        if (!t.compare(0, 2, "cc") && two(t.c_str() + 2, d, s))
        {
            if (d < nslots && s < nslots && !made[d] && made[s]) { new (&storage[d]) V(static_cast<const V&>(at(s))); made[d] = true; }
        }
        else if (!t.compare(0, 2, "mc") && two(t.c_str() + 2, d, s))
        {
            if (d < nslots && s < nslots && !made[d] && made[s]) { new (&storage[d]) V(std::move(at(s))); made[d] = true; }
        }
        else if (!t.compare(0, 2, "ca") && two(t.c_str() + 2, d, s))
        {
            if (d < nslots && s < nslots && made[d] && made[s])
            {
                self = d == s;
                if (self) { A::digest_active(at(d), before); }
                at(d) = static_cast<const V&>(at(s));
            }
        }
        else if (!t.compare(0, 2, "ma") && two(t.c_str() + 2, d, s))
        {
            if (d < nslots && s < nslots && made[d] && made[s])
            {
                // a self-move may leave the value unspecified (std::vector does); it must only not be a lifetime error
                at(d) = std::move(at(s));
            }
        }
        else if (t[0] == 'c') { d = std::strtoul(t.c_str() + 1, nullptr, 10); if (d < nslots && !made[d]) { new (&storage[d]) V(); made[d] = true; } }
        else if (t[0] == 'e' && two(t.c_str() + 1, d, s)) { if (d < nslots && made[d] && s < N) { A::emplace(at(d), s); } }
        else if (t[0] == 'd') { d = std::strtoul(t.c_str() + 1, nullptr, 10); if (d < nslots && made[d]) { at(d).~V(); made[d] = false; } }
        else { return "bad-op"; }
#ifdef C04_TRACKED
        {
            auto& reg = c04::Registry::get();
            if (reg.fault == 1) { fault = "wild-destroy"; }
            else if (reg.fault == 2) { fault = "leak"; }
            else if (reg.fault == 3) { fault = "read-dead"; }
            else
            {
                Reach r;
                for (std::size_t k = 0; k < nslots; ++k) { if (made[k]) { A::reach_active(at(k), r); } }
                if (r.dead) { fault = "dead-in-use"; }
                else if (reg.live.size() > r.n) { fault = "leak"; }
                else if (reg.live.size() < r.n) { fault = "dead-in-use"; }
            }
        }
#endif
        if (fault.empty() && self)
        {
            std::string after;
            A::digest_active(at(d), after);
            if (after != before) { fault = "value-changed"; }
        }
    }
    if (!fault.empty())
    {
        // the objects are in an undefined state: abandon them
#ifdef C04_TRACKED
        c04::Registry::get().reset();
#endif
#if defined(C04_LSAN)
        return "fault " + fault + " op=" + std::to_string(idx - 1) + " restart";  // the abandoned objects would be reported later
#else
        return "fault " + fault + " op=" + std::to_string(idx - 1);
#endif
    }
    std::string out = "ok tags=";
    unsigned long owning = 0;
    for (std::size_t k = 0; k < nslots; ++k)
    {
        if (k) { out += '/'; }
        if (made[k]) { out += std::to_string(at(k).index()); Reach r; A::reach_active(at(k), r); owning += r.n; } else { out += '-'; }
    }
#ifndef C04_TRACKED
    owning = 0;  // not observable without the registry
#endif
    for (std::size_t k = nslots; k-- > 0;) { if (made[k]) { at(k).~V(); made[k] = false; } }
#ifdef C04_TRACKED
    if (!c04::Registry::get().live.empty()) { c04::Registry::get().reset(); return "fault leak op=" + std::to_string(toks.size()); }
#endif
#if defined(C04_LSAN)
    if (__lsan_do_recoverable_leak_check() != 0) { return "fault leak-lsan op=" + std::to_string(toks.size()) + " restart"; }
#endif
    return out + " owning=" + std::to_string(owning);
}

using Runner = std::string (*)(unsigned long, const std::string&);
struct Entry { const char* kinds; Runner run; };

// main loop: lines `<kinds> <slots> <ops>`
inline int serve(const Entry* table, std::size_t n)
{
    char* line = nullptr;
    std::size_t cap = 0;
    ssize_t len;
    while ((len = getline(&line, &cap, stdin)) >= 0)
    {
        while (len > 0 && (line[len - 1] == '\n' || line[len - 1] == '\r')) { line[--len] = 0; }
        char kinds[32] = {0};
        unsigned long slots = 0;
        int used = 0;
        std::string ans = "bad-op";
        if (std::sscanf(line, "%31s %lu %n", kinds, &slots, &used) >= 2)
        {
            for (std::size_t i = 0; i < n; ++i)
            {
                if (!std::strcmp(table[i].kinds, kinds)) { ans = table[i].run(slots, std::string(line + used)); break; }
            }
        }
        std::puts(ans.c_str());
        std::fflush(stdout);
        if (ans.size() > 8 && ans.compare(ans.size() - 7, 7, "restart") == 0) { std::free(line); std::_Exit(0); }
    }
    std::free(line);
    return 0;
}
}  // namespace c04rt
#endif
