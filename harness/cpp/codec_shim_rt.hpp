// Runtime of the generated C++ codec shim (harness/codec_targets.py writes the per-type part).
// Hand-written, independent of Nunavut's templates; reuses the line/token/hex helpers of the C runtime.
#ifndef CODEC_SHIM_RT_HPP
#define CODEC_SHIM_RT_HPP
#include "codec_shim_rt.h"
#include <cstdint>
#include <cstring>
#include <type_traits>
#include <vector>
#include <array>
#include <bitset>

struct NotApplicable {};

template <typename T>
inline typename std::enable_if<std::is_same<T, bool>::value>::type parse_prim(P* p, T& v) { v = p_u64(p) != 0; }
template <typename T>
inline typename std::enable_if<std::is_integral<T>::value && std::is_unsigned<T>::value && !std::is_same<T, bool>::value>::type
parse_prim(P* p, T& v) { v = static_cast<T>(p_u64(p)); }
template <typename T>
inline typename std::enable_if<std::is_integral<T>::value && std::is_signed<T>::value>::type parse_prim(P* p, T& v) { v = static_cast<T>(p_i64(p)); }
template <typename T>
inline typename std::enable_if<std::is_floating_point<T>::value>::type parse_prim(P* p, T& v) { v = (sizeof(T) == 4) ? static_cast<T>(p_f32(p)) : static_cast<T>(p_f64(p)); }

template <typename T>
inline typename std::enable_if<std::is_same<T, bool>::value>::type dump_prim(const T& v) { o_u64(v ? 1U : 0U); }
template <typename T>
inline typename std::enable_if<std::is_integral<T>::value && std::is_unsigned<T>::value && !std::is_same<T, bool>::value>::type
dump_prim(const T& v) { o_u64(static_cast<std::uint64_t>(v)); }
template <typename T>
inline typename std::enable_if<std::is_integral<T>::value && std::is_signed<T>::value>::type dump_prim(const T& v) { o_i64(static_cast<std::int64_t>(v)); }
template <typename T>
inline typename std::enable_if<std::is_floating_point<T>::value>::type dump_prim(const T& v) { o_f64(static_cast<double>(v)); }

inline const char* cpp_err_name(int code)
{
    switch (code)
    {
    case 3: return "err:buffer-too-small";
    case 10: return "err:bad-array-length";
    case 11: return "err:bad-union-tag";
    case 12: return "err:bad-delimiter-header";
    default: return "err:unknown-code";
    }
}

inline void probe_kv(const char* k) { o_sep(); o_str(k); o_str("="); }
inline void probe_uint(const char* k, unsigned long long v) { probe_kv(k); char b[48]; std::snprintf(b, sizeof b, "%llu", v); o_str(b); }
// fixed_port_id is printed only if the traits export it (SFINAE), so that a dropped constant is a metadata difference
// of the probe and not a compile error of the shim
template <typename T>
inline auto probe_fixed_port(int) -> decltype(static_cast<void>(T::_traits_::FixedPortId))
{
    probe_uint("fixed_port_id", T::_traits_::FixedPortId);
}
template <typename T>
inline void probe_fixed_port(long) {}

template <typename T>
inline void probe_const(const char* k, const T& x)
{
    probe_kv(k);
    char b[96];
    if (std::is_same<T, float>::value) { float f = static_cast<float>(x); std::uint32_t u; std::memcpy(&u, &f, 4); std::snprintf(b, sizeof b, "f:%zu:%08x", sizeof(T), static_cast<unsigned>(u)); }
    else if (std::is_same<T, double>::value) { double f = static_cast<double>(x); std::uint64_t u; std::memcpy(&u, &f, 8); std::snprintf(b, sizeof b, "d:%zu:%016llx", sizeof(T), static_cast<unsigned long long>(u)); }
    else if (std::is_same<T, bool>::value) { std::snprintf(b, sizeof b, "b:%zu:%llu", sizeof(T), static_cast<unsigned long long>(x)); }
    else if (std::is_integral<T>::value && std::is_unsigned<T>::value) { std::snprintf(b, sizeof b, "u:%zu:%llu", sizeof(T), static_cast<unsigned long long>(x)); }
    else if (std::is_integral<T>::value) { std::snprintf(b, sizeof b, "s:%zu:%lld", sizeof(T), static_cast<long long>(x)); }
    else { std::snprintf(b, sizeof b, "?:%zu", sizeof(T)); }
    o_str(b);
}
#endif
