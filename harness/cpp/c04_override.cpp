// C04: driver for the C++ types of corpus/C04/override generated with --enable-override-variable-array-capacity.
// Compiled once without and once with -Dov_<T>_1_0_DISABLE_SERIALIZATION_BUFFER_CHECK_ for every type (the switch that the
// option provides).  Requests:
//   info <T>                 -> ok check=<0|1 up-front buffer check compiled in>
//   ser <T> <count> <cap>    -> ok <hex> | err:<kind>     a = 0x0A, xs = <count> elements 0x11,0x22,.., b = 0x0B, serialized into
//                                                          exactly <cap> accessible bytes (cap 0: pointer past a 1-byte block)
// Hand-written against the PyDSDL definitions (`uint8 a; T[<=cap] xs; uint8 b`), not derived from the templates.
#include "ov/S8_1_0.hpp"
#include "ov/S16_1_0.hpp"
#include "ov/S7_1_0.hpp"
#include "ov/B255_1_0.hpp"
#include "ov/W255_1_0.hpp"
#include "ov/B65535_1_0.hpp"
#include "ov/B15_1_0.hpp"
#include "ov/B7_1_0.hpp"
#include <cstdio>
#include <cstdlib>
#include <cstring>
#include <string>

#include "c04_codes.h"  // written by harness/c04.py from the translated table of documented codes
#define err_name(code) c04_cpp_err_name(code)

template <typename T>
static bool handle(const char* op, const char* rest, int check)
{
    if (!std::strcmp(op, "info")) { std::printf("ok check=%d\n", check); return true; }
    if (!std::strcmp(op, "ser"))
    {
        unsigned long count = 0, cap = 0;
        if (std::sscanf(rest, "%lu %lu", &count, &cap) != 2) { return false; }
        T obj{};
        obj.a = 0x0A;
        obj.b = 0x0B;
        using E = typename std::remove_reference<decltype(obj.xs)>::type::value_type;
        for (unsigned long i = 0; i < count; ++i) { obj.xs.push_back(static_cast<E>(0x11U * (i + 1U))); }
        std::uint8_t* base = static_cast<std::uint8_t*>(std::malloc(cap ? cap : 1));
        std::uint8_t* buf = cap ? base : base + 1;
        const auto r = serialize(obj, nunavut::support::bitspan{buf, cap});
        if (!r) { std::printf("%s\n", err_name(static_cast<int>(r.error()))); }
        else if (r.value() > cap) { std::printf("err:size-above-capacity\n"); }
        else
        {
            std::string out = "ok ";
            char b[4];
            for (std::size_t i = 0; i < r.value(); ++i) { std::snprintf(b, sizeof b, "%02x", buf[i]); out += b; }
            if (r.value() == 0) { out += "-"; }
            std::puts(out.c_str());
        }
        std::free(base);
        return true;
    }
    return false;
}

#define CHECK_OF(N) check_##N
#define DEF_CHECK(N, MACRO) static const int check_##N = MACRO;
#ifdef ov_S8_1_0_DISABLE_SERIALIZATION_BUFFER_CHECK_
DEF_CHECK(S8, 0)
#else
DEF_CHECK(S8, 1)
#endif
#ifdef ov_S16_1_0_DISABLE_SERIALIZATION_BUFFER_CHECK_
DEF_CHECK(S16, 0)
#else
DEF_CHECK(S16, 1)
#endif
#ifdef ov_S7_1_0_DISABLE_SERIALIZATION_BUFFER_CHECK_
DEF_CHECK(S7, 0)
#else
DEF_CHECK(S7, 1)
#endif
#ifdef ov_B255_1_0_DISABLE_SERIALIZATION_BUFFER_CHECK_
DEF_CHECK(B255, 0)
#else
DEF_CHECK(B255, 1)
#endif
#ifdef ov_W255_1_0_DISABLE_SERIALIZATION_BUFFER_CHECK_
DEF_CHECK(W255, 0)
#else
DEF_CHECK(W255, 1)
#endif
#ifdef ov_B65535_1_0_DISABLE_SERIALIZATION_BUFFER_CHECK_
DEF_CHECK(B65535, 0)
#else
DEF_CHECK(B65535, 1)
#endif
#ifdef ov_B15_1_0_DISABLE_SERIALIZATION_BUFFER_CHECK_
DEF_CHECK(B15, 0)
#else
DEF_CHECK(B15, 1)
#endif
#ifdef ov_B7_1_0_DISABLE_SERIALIZATION_BUFFER_CHECK_
DEF_CHECK(B7, 0)
#else
DEF_CHECK(B7, 1)
#endif

int main()
{
    char* line = nullptr;
    std::size_t cap = 0;
    ssize_t n;
    while ((n = getline(&line, &cap, stdin)) >= 0)
    {
        while (n > 0 && (line[n - 1] == '\n' || line[n - 1] == '\r')) { line[--n] = 0; }
        char op[16] = {0}, ty[16] = {0};
        int used = 0;
        bool ok = false;
        if (std::sscanf(line, "%15s %15s%n", op, ty, &used) >= 2)
        {
            const char* rest = line + used;
            while (*rest == ' ') { rest++; }
#define TRY(N) if (!std::strcmp(ty, #N)) { ok = handle<ov::N##_1_0>(op, rest, CHECK_OF(N)); }
            TRY(S8) else TRY(S16) else TRY(S7) else TRY(B255) else TRY(W255) else TRY(B65535) else TRY(B15) else TRY(B7)
        }
        if (!ok) { std::puts("err:bad-op"); }
        std::fflush(stdout);
    }
    std::free(line);
    return 0;
}
