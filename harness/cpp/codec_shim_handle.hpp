// Included by the generated C++ shim AFTER the parse()/dump() overloads of every composite have been declared
// (two-phase lookup: the template below must see them at its point of definition).
#ifndef CODEC_SHIM_HANDLE_HPP
#define CODEC_SHIM_HANDLE_HPP
// One handler for every type: T must have parse(P*, T&), dump(const T&), serialize, deserialize found by ADL/overload.
template <typename T>
int handle(const char* op, const char* rest, void (*probe)())
{
    const bool is_ser = !std::strcmp(op, "ser"), is_serbuf = !std::strcmp(op, "serbuf"), is_rt = !std::strcmp(op, "rt");
    if (is_ser || is_serbuf || is_rt)
    {
        T obj{};
        P p = {rest, 0};
        try { parse(&p, obj); } catch (const NotApplicable&) { o_str("n/a"); return 1; }
        std::size_t cap = T::_traits_::SerializationBufferSizeBytes;
        if (is_serbuf) { cap = static_cast<std::size_t>(p_u64(&p)); }
        if (p.err) { return 0; }
        const std::uint8_t fill = is_serbuf ? 0x55 : 0xFF;
        std::uint8_t* buf = guarded_alloc(cap, fill);
        const auto r = serialize(obj, nunavut::support::bitspan{buf, cap});
        if (!guard_ok(buf, cap)) { o_str("err:overrun"); }
        else if (!r) { o_str(cpp_err_name(static_cast<int>(r.error()))); }
        else if (r.value() > cap) { o_str("err:size-above-capacity"); }
        else if (!tail_untouched(buf, r.value(), cap, fill)) { o_str("err:wrote-beyond-reported-size"); }
        else
        {
            const std::size_t size = r.value();
            o_str("ok");
            o_hex(buf, size);
            if (is_rt)
            {
                T o2{};
                std::uint8_t* in = static_cast<std::uint8_t*>(std::malloc(size ? size : 1));
                std::memcpy(in, buf, size);
                const auto r2 = deserialize(o2, nunavut::support::const_bitspan{in, size});
                if (!r2) { o_sep(); o_str(cpp_err_name(static_cast<int>(r2.error()))); }
                else
                {
                    dump(o2);
                    o_u64(r2.value());
                    const std::size_t c2 = T::_traits_::SerializationBufferSizeBytes;
                    std::uint8_t* b2 = guarded_alloc(c2, 0x00);
                    const auto r3 = serialize(o2, nunavut::support::bitspan{b2, c2});
                    if (!r3) { o_sep(); o_str(cpp_err_name(static_cast<int>(r3.error()))); } else { o_hex(b2, r3.value()); }
                    guarded_free(b2);
                }
                std::free(in);
            }
        }
        guarded_free(buf);
        return 1;
    }
    if (!std::strcmp(op, "de"))
    {
        std::uint8_t* in = nullptr;
        const std::size_t n = hex_decode(rest, &in);
        T o2{};
        const auto r = deserialize(o2, nunavut::support::const_bitspan{in, n});
        if (!r) { o_str(cpp_err_name(static_cast<int>(r.error()))); }
        else { o_str("ok"); dump(o2); o_u64(r.value()); }
        std::free(in);
        return 1;
    }
    if (!std::strcmp(op, "probe")) { probe(); return 1; }
    return 0;
}

#endif
