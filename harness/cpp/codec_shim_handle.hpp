// Included by the generated C++ shim AFTER the parse()/dump() overloads of every composite have been declared
// (two-phase lookup: the template below must see them at its point of definition).
#ifndef CODEC_SHIM_HANDLE_HPP
#define CODEC_SHIM_HANDLE_HPP
// answer of one deserialization into dst: "ok <dump> <consumed>" or "err:<kind>"
template <typename T>
void de_answer(T& dst, const nunavut::support::const_bitspan& in)
{
    const auto r = deserialize(dst, in);
    if (!r) { o_str(cpp_err_name(static_cast<int>(r.error()))); }
    else { o_str("ok"); dump(dst); o_u64(r.value()); }
}

// One handler for every type: T must have parse(P*, T&), dump(const T&), serialize, deserialize found by ADL/overload.
//   dereuse <idx> <hexA> <hexB>   decode A into an object, then B into the SAME object; answer as `de B`
//   rtreuse <idx> <V1> | <V2>     round trip of V1, then V2 through the SAME source and destination objects; answer as `rt V2`
// `de` is also answered with the representation handed over as a sub-range of a larger buffer (const_bitspan over the
// middle of it); a difference is reported as err:spelling:<name>:<answer>.
template <typename T>
int handle(const char* op, const char* rest, void (*probe)())
{
    const bool is_ser = !std::strcmp(op, "ser"), is_serbuf = !std::strcmp(op, "serbuf");
    const bool is_rtreuse = !std::strcmp(op, "rtreuse"), is_rt = !std::strcmp(op, "rt") || is_rtreuse;
    if (is_ser || is_serbuf || is_rt)
    {
        T obj{};
        T o2{};
        P p = {rest, 0};
        if (is_rtreuse)
        {
            // prior state: the first value goes through obj and (if it serializes) through o2; the second value is then
            // parsed into the SAME obj and decoded into the SAME o2 (a subscriber that keeps its message object)
            bool have = true;
            try { parse(&p, obj); } catch (const NotApplicable&) { have = false; }
            if (have && !p.err)
            {
                const std::size_t c0 = T::_traits_::SerializationBufferSizeBytes;
                std::uint8_t* b0 = guarded_alloc(c0, 0x00);
                const auto r0 = serialize(obj, nunavut::support::bitspan{b0, c0});
                if (r0) { (void) deserialize(o2, nunavut::support::const_bitspan{b0, r0.value()}); }
                guarded_free(b0);
            }
            { const char* bar = std::strchr(rest, '|'); if (bar) { p.p = bar + 1; p.err = 0; } else { p.err = 1; } }
        }
        try { parse(&p, obj); } catch (const NotApplicable&) { o_str("n/a"); return 1; }
        std::size_t cap = T::_traits_::SerializationBufferSizeBytes;
        if (is_serbuf) { cap = static_cast<std::size_t>(p_u64(&p)); }
        if (p.err) { return 0; }
        const std::uint8_t fill = is_serbuf ? 0x55 : 0xFF;
        std::uint8_t* buf = guarded_alloc(cap, fill);
        const auto r = serialize(obj, nunavut::support::bitspan{buf, cap});
        if (!guard_ok(buf, cap)) { o_str("err:overrun"); }
        else if (!r) { o_str(cpp_err_name(static_cast<int>(r.error()))); }
        else if (r.value() > cap) { o_str("err:size-above-capacity"); }
        else if (!tail_untouched(buf, r.value(), cap, fill)) { o_str("err:wrote-beyond-reported-size"); }
        else
        {
            const std::size_t size = r.value();
            o_str("ok");
            o_hex(buf, size);
            if (is_rt)
            {
                std::uint8_t* in = static_cast<std::uint8_t*>(std::malloc(size ? size : 1));
                std::memcpy(in, buf, size);
                const auto r2 = deserialize(o2, nunavut::support::const_bitspan{in, size});
                if (!r2) { o_sep(); o_str(cpp_err_name(static_cast<int>(r2.error()))); }
                else
                {
                    dump(o2);
                    o_u64(r2.value());
                    const std::size_t c2 = T::_traits_::SerializationBufferSizeBytes;
                    std::uint8_t* b2 = guarded_alloc(c2, 0x00);
                    const auto r3 = serialize(o2, nunavut::support::bitspan{b2, c2});
                    if (!r3) { o_sep(); o_str(cpp_err_name(static_cast<int>(r3.error()))); } else { o_hex(b2, r3.value()); }
                    guarded_free(b2);
                }
                std::free(in);
            }
        }
        guarded_free(buf);
        return 1;
    }
    const bool is_dereuse = !std::strcmp(op, "dereuse");
    if (!std::strcmp(op, "de") || is_dereuse)
    {
        std::uint8_t* in = nullptr;
        std::size_t n = hex_decode(rest, &in);
        {
            T o2{};
            if (is_dereuse)
            {
                // the first string only leaves its traces in the object (whatever the outcome)
                (void) deserialize(o2, nunavut::support::const_bitspan{in, n});
                std::free(in);
                n = hex_decode(second_token(rest), &in);
            }
            de_answer(o2, nunavut::support::const_bitspan{in, n});
        }
        if (is_dereuse) { std::free(in); return 1; }     // the alternative below decodes into a fresh object: only comparable with `de`
        char* prim = o_take();
        {
            // the representation as a sub-range of a larger buffer, other data before and behind it
            std::uint8_t* big = static_cast<std::uint8_t*>(std::malloc(n + 48));
            std::memset(big, 0xEE, 16); std::memcpy(big + 16, in, n); std::memset(big + 16 + n, 0xFF, 32);
            T o3{};
            de_answer(o3, nunavut::support::const_bitspan{big + 16, n});
            std::free(big);
        }
        if (!o_differs(prim, "embedded-in-larger-buffer")) { o_str(prim); }
        std::free(prim);
        std::free(in);
        return 1;
    }
    if (!std::strcmp(op, "probe")) { probe(); return 1; }
    return 0;
}

#endif
