// C04: an instrumented stand-in for the variable-length array container of the generated C++ types
// (language option variable_array_type_template = "c04::Tracked<{TYPE}>").  It behaves like std::vector<T> but keeps a
// registry of the addresses at which an object currently lives, so that lifetime errors of the code that owns it
// (the generated VariantType) are detected deterministically instead of by a crash:
//   wild-destroy    destructor call on an address where no Tracked lives (the destructor then does NOT touch the bytes)
//   ctor-over-live  constructor call on an address where a Tracked already lives (the old one was never destroyed)
//   read-dead       copy/move from an address where no Tracked lives
// Hand-written, independent of Nunavut's templates.
#ifndef C04_TRACKED_HPP
#define C04_TRACKED_HPP
#include <cstddef>
#include <cstdint>
#include <new>
#include <set>
#include <type_traits>
#include <utility>
#include <vector>

namespace c04
{
struct Registry
{
    std::set<const void*> live;
    unsigned long constructed = 0;
    unsigned long destroyed = 0;
    int fault = 0;  // first fault seen: 1 wild-destroy, 2 ctor-over-live, 3 read-dead
    static Registry& get() { static Registry r; return r; }
    void on_ctor(const void* p) { constructed++; if (!live.insert(p).second && !fault) { fault = 2; } }
    bool on_dtor(const void* p) { destroyed++; if (live.erase(p) == 0) { if (!fault) { fault = 1; } return false; } return true; }
    bool is_live(const void* p) const { return live.count(p) != 0; }
    bool on_read(const void* p) { if (!is_live(p)) { if (!fault) { fault = 3; } return false; } return true; }
    void reset() { live.clear(); fault = 0; }
};

template <typename T>
class Tracked
{
    using V = std::vector<T>;
    typename std::aligned_storage<sizeof(V), alignof(V)>::type buf_;
    V& v() { return *reinterpret_cast<V*>(&buf_); }
    const V& v() const { return *reinterpret_cast<const V*>(&buf_); }

public:
    using value_type = T;
    using size_type = std::size_t;
    using reference = typename V::reference;
    using const_reference = typename V::const_reference;
    using iterator = typename V::iterator;
    using const_iterator = typename V::const_iterator;

    Tracked() { new (&buf_) V(); Registry::get().on_ctor(this); }
    Tracked(const Tracked& o)
    {
        // the source is examined BEFORE this object's storage is touched: with copy elision `this` may be `&o`
        const bool ok = Registry::get().on_read(&o);
        if (ok && &o != this) { new (&buf_) V(o.v()); } else { new (&buf_) V(); }
        Registry::get().on_ctor(this);
    }
    Tracked(Tracked&& o) noexcept
    {
        const bool ok = Registry::get().on_read(&o);
        if (ok && &o != this) { new (&buf_) V(std::move(o.v())); } else { new (&buf_) V(); }
        Registry::get().on_ctor(this);
    }
    Tracked& operator=(const Tracked& o)
    {
        if (Registry::get().on_read(&o) && Registry::get().on_read(this) && &o != this) { v() = o.v(); }
        return *this;
    }
    Tracked& operator=(Tracked&& o) noexcept
    {
        if (Registry::get().on_read(&o) && Registry::get().on_read(this) && &o != this) { v() = std::move(o.v()); }
        return *this;
    }
    ~Tracked() { if (Registry::get().on_dtor(this)) { v().~V(); } }

    size_type size() const { return v().size(); }
    size_type capacity() const { return v().capacity(); }
    size_type max_size() const { return v().max_size(); }
    bool empty() const { return v().empty(); }
    void reserve(size_type n) { v().reserve(n); }
    void clear() { v().clear(); }
    void resize(size_type n) { v().resize(n); }
    void push_back(const T& x) { v().push_back(x); }
    void push_back(T&& x) { v().push_back(std::move(x)); }
    template <class... A> void emplace_back(A&&... a) { v().emplace_back(std::forward<A>(a)...); }
    reference operator[](size_type i) { return v()[i]; }
    const_reference operator[](size_type i) const { return v()[i]; }
    reference back() { return v().back(); }
    const_reference back() const { return v().back(); }
    iterator begin() { return v().begin(); }
    iterator end() { return v().end(); }
    const_iterator begin() const { return v().begin(); }
    const_iterator end() const { return v().end(); }
    const_iterator cbegin() const { return v().cbegin(); }
    const_iterator cend() const { return v().cend(); }
    T* data() { return v().data(); }
    const T* data() const { return v().data(); }
    bool operator==(const Tracked& o) const { return v() == o.v(); }
    bool operator!=(const Tracked& o) const { return !(v() == o.v()); }
};
}  // namespace c04
#endif
