// C04 stream P: every primitive getter / setter of the *generated* nunavut/support/serialization.hpp (bitspan /
// const_bitspan) at every byte misalignment of the user buffer.  Built by harness/c04.py once per --target-endianness
// rendering (any, little, big) with -O0 -fsanitize=address,undefined -fno-sanitize-recover=all (alignment checks included).
//
// Request:  <k> <op> <args…>   k = 0..7: the bytes start k bytes into a malloc'ed block and end exactly at its end (ASan sees
// an access past the end; the k bytes in front are guard bytes; the address is k modulo 8).  After <k> a request line of
// lean/Drivers/Bits.lean (C++ section):  x.copy x.getbits x.setzeros x.pad x.setbit x.setu x.seti x.getbit x.getu<W> x.geti<W>
// and, with the reference in harness/c04.py:  x.setf<W> <data> <off> <bits hex> -> ok <rc> <data'>,  x.getf<W> <data> <off> -> ok <bits hex>
#include <cinttypes>
#include <cstdio>
#include <cstdlib>
#include <cstring>
#include <string>
#include <vector>
#include "nunavut/support/serialization.hpp"

using nunavut::support::bitspan;
using nunavut::support::const_bitspan;
using nunavut::support::bytespan;

namespace {
constexpr std::uint8_t GUARD_BYTE = 0xA5;

struct Buf {
    std::uint8_t* base; std::uint8_t* p; std::size_t n; std::size_t k;
    Buf(const std::string& hex, std::size_t k_) : n(hex == "-" ? 0 : hex.size() / 2), k(k_ % 8U) {
        base = static_cast<std::uint8_t*>(std::malloc(n + k ? n + k : 1));
        if (base == nullptr) { std::fprintf(stderr, "malloc failed\n"); std::exit(3); }
        if (n + k == 0) { p = base + 1; return; }
        std::memset(base, GUARD_BYTE, k);
        p = base + k;
        auto hv = [](char c) { return (c >= '0' && c <= '9') ? c - '0' : c - 'a' + 10; };
        for (std::size_t i = 0; i < n; i++) { p[i] = static_cast<std::uint8_t>(hv(hex[2 * i]) * 16 + hv(hex[2 * i + 1])); }
    }
    Buf(const Buf&) = delete;
    ~Buf() { std::free(base); }
    bool ok() const {
        for (std::size_t i = 0; i < k; i++) { if (base[i] != GUARD_BYTE) { return false; } }
        return true;
    }
    std::string hex() const {
        static const char* d = "0123456789abcdef";
        if (n == 0) { return "-"; }
        std::string s;
        for (std::size_t i = 0; i < n; i++) { s += d[p[i] >> 4]; s += d[p[i] & 15]; }
        return s;
    }
};

std::size_t num(const std::string& s) { return static_cast<std::size_t>(std::strtoull(s.c_str(), nullptr, 10)); }

template <typename R> int rc_of(const R& r) { return r.has_value() ? 0 : -static_cast<int>(r.error()); }

bool run(const std::vector<std::string>& tt, std::string& out)
{
    const std::size_t g = num(tt[0]) % 8U;
    const std::vector<std::string> t(tt.begin() + 1, tt.end());
    const std::string& op = t[0];
    const std::size_t nt = t.size();
    char tmp[128];
    if (op == "x.copy" && nt == 6) {
        Buf dst(t[1], g), src(t[3], g + 3U);
        const_bitspan(src.p, src.n, num(t[4])).copyTo(bitspan(dst.p, dst.n, num(t[2])), num(t[5]));
        out = std::string((dst.ok() && src.ok()) ? "ok " : "GUARD ") + dst.hex(); return true;
    }
    if (op == "x.getbits" && nt == 5) {
        Buf src(t[1], g), o(t[3], g + 5U);
        const_bitspan(src.p, src.n, num(t[2])).getBits(bytespan(o.p, o.n), num(t[4]));
        out = std::string((o.ok() && src.ok()) ? "ok " : "GUARD ") + o.hex(); return true;
    }
    if (op == "x.setzeros" && nt == 4) {
        Buf d(t[1], g);
        const int rc = rc_of(bitspan(d.p, d.n, num(t[2])).setZeros(num(t[3])));
        out = std::string(d.ok() ? "ok " : "GUARD ") + std::to_string(rc) + " " + d.hex(); return true;
    }
    if (op == "x.pad" && nt == 4) {
        Buf d(t[1], g);
        bitspan s(d.p, d.n, num(t[2]));
        const int rc = rc_of(s.padAndMoveToAlignment(num(t[3])));
        out = std::string(d.ok() ? "ok " : "GUARD ") + std::to_string(rc) + " " + d.hex() + " " + std::to_string(s.offset()); return true;
    }
    if (op == "x.setbit" && nt == 4) {
        Buf d(t[1], g);
        const int rc = rc_of(bitspan(d.p, d.n, num(t[2])).setBit(t[3] == "1"));
        out = std::string(d.ok() ? "ok " : "GUARD ") + std::to_string(rc) + " " + d.hex(); return true;
    }
    if ((op == "x.setu" || op == "x.seti") && nt == 5) {
        Buf d(t[1], g);
        bitspan s(d.p, d.n, num(t[2]));
        const auto len = static_cast<std::uint8_t>(num(t[4]));
        const int rc = (op == "x.setu") ? rc_of(s.setUxx(std::strtoull(t[3].c_str(), nullptr, 10), len))
                                        : rc_of(s.setIxx(std::strtoll(t[3].c_str(), nullptr, 10), len));
        out = std::string(d.ok() ? "ok " : "GUARD ") + std::to_string(rc) + " " + d.hex(); return true;
    }
    if (op == "x.getbit" && nt == 3) {
        Buf d(t[1], g);
        out = const_bitspan(d.p, d.n, num(t[2])).getBit() ? "ok 1" : "ok 0"; if (!d.ok()) { out = "GUARD"; } return true;
    }
    if ((op.rfind("x.getu", 0) == 0 || op.rfind("x.geti", 0) == 0) && nt == 4) {
        Buf d(t[1], g);
        const_bitspan s(d.p, d.n, num(t[2]));
        const auto len = static_cast<std::uint8_t>(num(t[3]));
        const int w = std::atoi(op.c_str() + 6);
        if (op[5] == 'u') {
            std::uint64_t v = 0;
            if (w == 8) { v = s.getU8(len); } else if (w == 16) { v = s.getU16(len); } else if (w == 32) { v = s.getU32(len); }
            else if (w == 64) { v = s.getU64(len); } else { return false; }
            std::snprintf(tmp, sizeof(tmp), "ok %" PRIu64, v);
        } else {
            std::int64_t v = 0;
            if (w == 8) { v = s.getI8(len); } else if (w == 16) { v = s.getI16(len); } else if (w == 32) { v = s.getI32(len); }
            else if (w == 64) { v = s.getI64(len); } else { return false; }
            std::snprintf(tmp, sizeof(tmp), "ok %" PRId64, v);
        }
        out = d.ok() ? tmp : "GUARD"; return true;
    }
    if (op.rfind("x.setf", 0) == 0 && nt == 4) {
        Buf d(t[1], g);
        bitspan s(d.p, d.n, num(t[2]));
        const std::uint64_t bits = std::strtoull(t[3].c_str(), nullptr, 16);
        const int w = std::atoi(op.c_str() + 6);
        int rc = 0;
        if (w == 64) { double v; std::memcpy(&v, &bits, 8); rc = rc_of(s.setF64(v)); }
        else if (w == 32 || w == 16) { const auto b32 = static_cast<std::uint32_t>(bits); float v; std::memcpy(&v, &b32, 4); rc = (w == 32) ? rc_of(s.setF32(v)) : rc_of(s.setF16(v)); }
        else { return false; }
        out = std::string(d.ok() ? "ok " : "GUARD ") + std::to_string(rc) + " " + d.hex(); return true;
    }
    if (op.rfind("x.getf", 0) == 0 && nt == 3) {
        Buf d(t[1], g);
        const_bitspan s(d.p, d.n, num(t[2]));
        const int w = std::atoi(op.c_str() + 6);
        std::uint64_t bits = 0;
        if (w == 64) { const double v = s.getF64(); std::memcpy(&bits, &v, 8); }
        else if (w == 32 || w == 16) { const float v = (w == 32) ? s.getF32() : s.getF16(); std::uint32_t b32; std::memcpy(&b32, &v, 4); bits = b32; }
        else { return false; }
        std::snprintf(tmp, sizeof(tmp), "ok %" PRIx64, bits);
        out = d.ok() ? tmp : "GUARD"; return true;
    }
    return false;
}
}  // namespace

int main()
{
    std::setvbuf(stdout, nullptr, _IOLBF, 1 << 16);  // an answer is out before the next call can crash
    char* line = nullptr; std::size_t cap = 0; ssize_t n;
    while ((n = getline(&line, &cap, stdin)) > 0) {
        if (line[n - 1] == '\n') { line[--n] = 0; }
        std::vector<std::string> t;
        std::string cur;
        for (ssize_t i = 0; i <= n; i++) {
            if (i == n || line[i] == ' ') { t.push_back(cur); cur.clear(); } else { cur += line[i]; }
        }
        std::string a;
        if (t.size() < 2 || !run(t, a)) { std::puts("bad-op"); continue; }
        std::puts(a.c_str());
    }
    std::free(line);
    return 0;
}
